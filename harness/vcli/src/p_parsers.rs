//! C35 (quoted symbols and strings survive the expression languages),
//! C36 (expression parsers never crash) and
//! C44 (text truncation and wrapping respect the width).
//!
//! These live in vcli because the template parser and `text_util` are part of
//! jj-cli.

use std::collections::BTreeMap;
use std::collections::BTreeSet;
use std::collections::HashMap;
use std::io::Write as _;
use std::path::PathBuf;
use std::sync::Arc;
use std::sync::Mutex;
use std::time::Duration;

use jj_cli::formatter::FormatRecorder;
use jj_cli::formatter::Formatter;
use jj_cli::formatter::PlainTextFormatter;
use jj_cli::template_parser;
use jj_cli::template_parser::TemplateAliasesMap;
use jj_cli::text_util;
use jj_lib::backend::MillisSinceEpoch;
use jj_lib::backend::Timestamp;
use jj_lib::dsl_util;
use jj_lib::fileset;
use jj_lib::fileset::FilePattern;
use jj_lib::fileset::FilesetAliasesMap;
use jj_lib::fileset::FilesetDiagnostics;
use jj_lib::fileset::FilesetExpression;
use jj_lib::fileset::FilesetParseContext;
use jj_lib::ref_name::RefName;
use jj_lib::ref_name::RemoteName;
use jj_lib::ref_name::WorkspaceName;
use jj_lib::repo_path::RepoPathUiConverter;
use jj_lib::revset;
use jj_lib::revset::RevsetAliasesMap;
use jj_lib::revset::RevsetCommitRef;
use jj_lib::revset::RevsetDiagnostics;
use jj_lib::revset::RevsetExpression;
use jj_lib::revset::RevsetExtensions;
use jj_lib::revset::RevsetParseContext;
use jj_lib::revset::RevsetWorkspaceContext;
use jj_lib::revset::UserRevsetExpression;
use serde_json::Value;
use serde_json::json;
use unicode_width::UnicodeWidthChar as _;
use unicode_width::UnicodeWidthStr as _;
use vlib::common::*;
use vlib::ensure;

// ---------------------------------------------------------------------------
// Shared: hostile characters and strings

/// Characters that are special in at least one of the expression languages,
/// in the escaping rules, or for display width.
const HOSTILE_CHARS: &[char] = &[
    // quotes, backslash and escape letters
    '"',
    '\'',
    '\\',
    'n',
    't',
    'r',
    '0',
    'e',
    'x',
    '1',
    'b',
    'f',
    // controls (ASCII and C1), DEL, NUL
    '\0',
    '\x01',
    '\x07',
    '\x08',
    '\t',
    '\n',
    '\x0b',
    '\x0c',
    '\r',
    '\x1b',
    '\x1f',
    '\x7f',
    '\u{80}',
    '\u{85}',
    '\u{9b}',
    '\u{9f}',
    // whitespace
    ' ',
    '\u{a0}',
    '\u{2028}',
    '\u{3000}',
    // operators of revset / fileset / template
    '@',
    ':',
    '.',
    '-',
    '+',
    '~',
    '|',
    '&',
    '(',
    ')',
    ',',
    '=',
    '*',
    '/',
    '?',
    '[',
    ']',
    '{',
    '}',
    '!',
    '<',
    '>',
    '%',
    '^',
    '#',
    '$',
    ';',
    '_',
    // plain
    'a',
    'Z',
    '9',
    // non-ASCII: letters, combining, wide, astral, specials
    'é',
    'ß',
    '\u{300}',
    '\u{301}',
    '一',
    '略',
    'Ａ',
    '\u{200b}',
    '\u{200d}',
    '\u{fe0f}',
    '\u{feff}',
    '\u{fffd}',
    '\u{10ffff}',
    '😀',
    '𠀀',
    'ل',
    'ا',
];

fn gen_hostile_string(rng: &mut Rng, max_len: usize) -> String {
    let len = match rng.below(10) {
        0 => 0,
        1 => 1,
        2..=6 => rng.range(1, 6.min(max_len.max(1))),
        _ => rng.range(1, max_len.max(1)),
    };
    let mut s = String::new();
    for _ in 0..len {
        match rng.below(12) {
            // any scalar value
            0 => {
                let c = loop {
                    if let Some(c) = char::from_u32(rng.below(0x11_0000) as u32) {
                        break c;
                    }
                };
                s.push(c);
            }
            // any ASCII
            1 | 2 => s.push(char::from(rng.below(128) as u8)),
            // escape look-alikes
            3 => s.push_str(*rng.pick(&["\\n", "\\\"", "\\\\", "\\x41", "\\x", "\\e", "\\0", "\\q", "\"\"", "''"])),
            _ => s.push(*rng.pick(HOSTILE_CHARS)),
        }
    }
    s
}

fn is_plain_ascii_word(s: &str) -> bool {
    !s.is_empty() && s.chars().all(|c| c.is_ascii_alphanumeric() || c == '_')
}

// ---------------------------------------------------------------------------
// Calling the real parsers

fn with_revset_context<T>(
    aliases: &RevsetAliasesMap,
    with_workspace: bool,
    f: impl FnOnce(&RevsetParseContext) -> T,
) -> T {
    let fileset_aliases = FilesetAliasesMap::new();
    let extensions = RevsetExtensions::default();
    let now = Timestamp {
        timestamp: MillisSinceEpoch(1_700_000_000_000),
        tz_offset: 0,
    };
    let path_converter = RepoPathUiConverter::Fs {
        cwd: PathBuf::from("/"),
        base: PathBuf::from("/"),
    };
    let workspace_ctx = RevsetWorkspaceContext {
        path_converter: &path_converter,
        workspace_name: WorkspaceName::DEFAULT,
    };
    let context = RevsetParseContext {
        aliases_map: aliases,
        local_variables: HashMap::new(),
        user_email: "v@example.com",
        date_pattern_context: now.to_datetime().unwrap().into(),
        default_ignored_remote: Some(RemoteName::new("git")),
        fileset_aliases_map: &fileset_aliases,
        extensions: &extensions,
        workspace: with_workspace.then_some(workspace_ctx),
    };
    f(&context)
}

fn revset_parse_plain(text: &str) -> Result<Arc<UserRevsetExpression>, String> {
    let aliases = RevsetAliasesMap::new();
    with_revset_context(&aliases, false, |context| {
        revset::parse(&mut RevsetDiagnostics::new(), text, context).map_err(|e| e.to_string())
    })
}

fn fileset_parse_plain(text: &str, maybe_bare: bool) -> Result<FilesetExpression, String> {
    let aliases = FilesetAliasesMap::new();
    let path_converter = RepoPathUiConverter::Fs {
        cwd: PathBuf::from("/"),
        base: PathBuf::from("/"),
    };
    let context = FilesetParseContext {
        aliases_map: &aliases,
        path_converter: &path_converter,
    };
    let mut diagnostics = FilesetDiagnostics::new();
    if maybe_bare {
        fileset::parse_maybe_bare(&mut diagnostics, text, &context).map_err(|e| e.to_string())
    } else {
        fileset::parse(&mut diagnostics, text, &context).map_err(|e| e.to_string())
    }
}

// ---------------------------------------------------------------------------
// C35

/// The fileset API only exposes the resolved expression, so the string is
/// observed as the path of a `root-file:"…"` pattern. A path is a sequence of
/// `/`-separated components and `.`/`..` are not names, so for this clause the
/// string is made a single path component (`/` replaced, `.`/`..` prefixed).
/// Every other hostile character is kept.
fn as_single_path_component(s: &str) -> String {
    let t = s.replace('/', "\u{2215}");
    if t == "." || t == ".." { format!("x{t}") } else { t }
}

fn check_c35(s: &str, remote: &str) -> Check {
    let quoted = revset::format_string(s);

    // Revset: string literal at the AST level.
    match revset::parse_program(&quoted) {
        Ok(node) => ensure!(
            node.kind == revset::ExpressionKind::String(s.to_owned()),
            "revset.string_literal",
            "format_string({s:?}) = {quoted} parsed to {:?}",
            node.kind
        ),
        Err(e) => {
            return fail(
                "revset.string_literal",
                format!("format_string({s:?}) = {quoted} does not parse: {e}"),
            );
        }
    }
    // Revset: quoted string used as a symbol.
    for (clause, text) in [
        ("revset.quoted_symbol", quoted.clone()),
        ("revset.format_symbol", revset::format_symbol(s)),
        ("revset.ref_name_as_symbol", RefName::new(s).as_symbol().to_string()),
    ] {
        match revset_parse_plain(&text) {
            Ok(expr) => match &*expr {
                RevsetExpression::CommitRef(RevsetCommitRef::Symbol(name)) => {
                    ensure!(name == s, clause, "{s:?} formatted as {text} parsed to symbol {name:?}");
                }
                other => return fail(clause, format!("{s:?} formatted as {text} parsed to {other:?}")),
            },
            Err(e) => return fail(clause, format!("{s:?} formatted as {text} does not parse: {e}")),
        }
    }
    // Revset: name@remote.
    for (clause, text) in [
        ("revset.format_remote_symbol", revset::format_remote_symbol(s, remote)),
        (
            "revset.remote_ref_symbol_display",
            RefName::new(s).to_remote_symbol(RemoteName::new(remote)).to_string(),
        ),
    ] {
        match revset_parse_plain(&text) {
            Ok(expr) => match &*expr {
                RevsetExpression::CommitRef(RevsetCommitRef::RemoteSymbol(symbol)) => {
                    ensure!(
                        symbol.name.as_str() == s && symbol.remote.as_str() == remote,
                        clause,
                        "({s:?}, {remote:?}) formatted as {text} parsed to ({:?}, {:?})",
                        symbol.name.as_str(),
                        symbol.remote.as_str()
                    );
                }
                other => {
                    return fail(
                        clause,
                        format!("({s:?}, {remote:?}) formatted as {text} parsed to {other:?}"),
                    );
                }
            },
            Err(e) => {
                return fail(
                    clause,
                    format!("({s:?}, {remote:?}) formatted as {text} does not parse: {e}"),
                );
            }
        }
    }

    // Template: string literal.
    let escaped = format!("\"{}\"", dsl_util::escape_string(s));
    match template_parser::parse_template(&escaped) {
        Ok(node) => ensure!(
            node.kind == template_parser::ExpressionKind::String(s.to_owned()),
            "template.string_literal",
            "escape_string({s:?}) = {escaped} parsed to {:?}",
            node.kind
        ),
        Err(e) => {
            return fail(
                "template.string_literal",
                format!("{escaped} (from {s:?}) does not parse: {e}"),
            );
        }
    }
    let aliases = TemplateAliasesMap::new();
    match template_parser::parse(&escaped, &aliases) {
        Ok(node) => ensure!(
            node.kind == template_parser::ExpressionKind::String(s.to_owned()),
            "template.string_literal",
            "escape_string({s:?}) = {escaped} parsed (with alias expansion) to {:?}",
            node.kind
        ),
        Err(e) => {
            return fail(
                "template.string_literal",
                format!("{escaped} (from {s:?}) does not parse: {e}"),
            );
        }
    }

    // Fileset: string as the value of a root-file pattern.
    let component = as_single_path_component(s);
    let text = format!("root-file:\"{}\"", dsl_util::escape_string(&component));
    for maybe_bare in [false, true] {
        match fileset_parse_plain(&text, maybe_bare) {
            Ok(FilesetExpression::Pattern(FilePattern::FilePath(path))) => ensure!(
                path.as_internal_file_string() == component,
                "fileset.string_literal",
                "{text} (from {component:?}) parsed to path {:?}",
                path.as_internal_file_string()
            ),
            Ok(other) => return fail("fileset.string_literal", format!("{text} parsed to {other:?}")),
            Err(e) => {
                return fail(
                    "fileset.string_literal",
                    format!("{text} (from {component:?}) does not parse: {e}"),
                );
            }
        }
    }
    Ok(())
}

pub fn run_c35(ctx: &Ctx) -> i32 {
    ctx.set_rule(
        "case = (s, remote): two random unicode strings (length 0..24) over quotes, backslashes, \
         escape look-alikes, ASCII/C1 controls, NUL, whitespace, '@' and every operator character of \
         the three languages, combining/wide/astral characters, plus arbitrary scalar values. \
         Oracle: format_string(s) parses (revset AST) to String(s) and (revset::parse, no aliases) to \
         Symbol(s); format_symbol(s) and RefName::as_symbol() parse to Symbol(s); \
         format_remote_symbol(s, remote) and RemoteRefSymbol's Display parse to RemoteSymbol{s, remote}; \
         the escaped string parses as a template string literal to String(s) and as the value of a \
         fileset root-file pattern to the path s (with '/' replaced so that s is one component). \
         NON-TRIVIAL: s is not a plain [A-Za-z0-9_]+ word (needs quoting or escaping somewhere). \
         DISTINCT: by (s, remote).",
    );
    ctx.assume(
        "fileset clause observes the string through FilePattern::FilePath (the fileset AST is not \
         public): '/' is replaced by U+2215 and '.'/'..' are prefixed so that the string is a single \
         path component; all other characters are unchanged",
    );
    let n = ctx.tier().pick(1_000_000, 3_000_000);
    par_cases(ctx, n, threads(), |i, cs, rng| {
        let s = gen_hostile_string(rng, 24);
        let remote = if rng.chance(1, 4) {
            is_or("origin", rng)
        } else {
            gen_hostile_string(rng, 12)
        };
        run_case(
            ctx,
            i,
            cs,
            || json!({"s": s, "remote": remote, "s_debug": format!("{s:?}"), "remote_debug": format!("{remote:?}")}),
            || check_c35(&s, &remote),
        );
        let nontrivial = !is_plain_ascii_word(&s);
        ctx.case(stable_hash(&(&s, &remote)), nontrivial);
        if s.contains('"') || s.contains('\\') {
            ctx.count("s_with_quote_or_backslash");
        }
        if s.chars().any(|c| c.is_control()) {
            ctx.count("s_with_control_char");
        }
        if s.contains('@') {
            ctx.count("s_with_at");
        }
        if s.is_empty() {
            ctx.count("s_empty");
        }
        if revset::format_symbol(&s) == s {
            ctx.count("format_symbol_left_unquoted");
        } else {
            ctx.count("format_symbol_quoted");
        }
        if nontrivial {
            ctx.sample(|| {
                json!({"s": format!("{s:?}"), "remote": format!("{remote:?}"),
                "format_symbol": revset::format_symbol(&s),
                "format_remote_symbol": revset::format_remote_symbol(&s, &remote)})
            });
        }
    });
    ctx.finish(ctx.tier().pick(20_000, 500_000))
}

fn is_or(default: &str, rng: &mut Rng) -> String {
    (*rng.pick(&[default, "git", "up-stream", "a.b", "é"])).to_owned()
}

// ---------------------------------------------------------------------------
// C44

/// Characters interesting for display width.
const WIDTH_CHARS: &[char] = &[
    'a', 'b', 'c', 'x', 'y', 'z', '0', '-', '.', '#', '*', // wide / fullwidth / astral wide
    '一', '二', '三', '略', 'Ａ', '𠀀', '😀', '👩', '❤', '☺',
    // zero width: combining, ZWJ, ZWSP, variation selectors, soft hyphen, BOM
    '\u{300}', '\u{301}', '\u{20dd}', '\u{200d}', '\u{200b}', '\u{fe0f}', '\u{fe0e}', '\u{ad}', '\u{feff}',
    // Hangul jamo (L wide, V/T zero)
    '\u{1100}', '\u{1161}', '\u{11a8}', // ligature-forming pairs, regional indicators
    'ل', 'ا', '\u{a4f8}', '\u{a4fc}', '🇯', '🇵', // controls
    '\x01', '\x07', '\t', '\r', '\x1b', '\x7f', '\u{85}', '\u{9b}', // misc
    'é', '\u{fffd}', '\u{a0}',
];

fn gen_width_text(rng: &mut Rng, max_len: usize, spaces: bool, newlines: bool, esc: bool) -> String {
    let len = match rng.below(8) {
        0 => 0,
        1 => 1,
        _ => rng.range(1, max_len),
    };
    let ascii_heavy = rng.chance(1, 3);
    let mut s = String::new();
    for _ in 0..len {
        if spaces && rng.chance(1, 5) {
            for _ in 0..rng.range(1, 3) {
                s.push(' ');
            }
            continue;
        }
        if newlines && rng.chance(1, 12) {
            s.push('\n');
            continue;
        }
        let c = if ascii_heavy && rng.chance(3, 4) {
            char::from(b'a' + rng.below(26) as u8)
        } else if rng.chance(1, 30) {
            loop {
                if let Some(c) = char::from_u32(rng.below(0x11_0000) as u32) {
                    break c;
                }
            }
        } else {
            *rng.pick(WIDTH_CHARS)
        };
        if (c == '\n' && !newlines) || (c == ' ' && !spaces) || (c == '\x1b' && !esc) {
            continue;
        }
        s.push(c);
    }
    s
}

/// Reading "cw": a string is as wide as the sum of its characters, control
/// characters (for which unicode-width gives no width) counting 0.
fn cw(s: &str) -> usize {
    s.chars().map(|c| c.width().unwrap_or(0)).sum()
}
/// Reading "sw": unicode-width's width of the string as a whole (ligatures,
/// emoji sequences; control characters count 1).
fn sw(s: &str) -> usize {
    s.width()
}
const READINGS: [(&str, fn(&str) -> usize); 2] = [("cw", cw), ("sw", sw)];

/// A width-dependent clause is reported only if it fails under BOTH readings
/// of "unicode-width is the definition of width" (jj itself uses the
/// per-character sum in some places and the string width in others).
fn both_readings(
    ctx: &Ctx,
    func: &str,
    ambiguous_input: bool,
    eval: impl Fn(fn(&str) -> usize) -> Option<(&'static str, String)>,
) -> Check {
    let results: Vec<_> = READINGS.iter().map(|(_, w)| eval(*w)).collect();
    match (&results[0], &results[1]) {
        (Some((c0, m0)), Some((c1, m1))) => {
            let clause = if ambiguous_input {
                // One signature per function for inputs on which the two
                // readings differ (jj mixes them, so the combinations of
                // failing clauses vary from case to case).
                format!("{func}.width_ambiguous_input")
            } else if c0 == c1 {
                format!("{func}.{c0}")
            } else {
                format!("{func}.cw:{c0}|sw:{c1}")
            };
            // Development aid: look past already analysed signatures.
            if std::env::var("VERIF_C44_IGNORE").is_ok_and(|v| v.split(',').any(|s| s == clause)) {
                ctx.count(&format!("ignored_by_env.{clause}"));
                return Ok(());
            }
            Err(Fail {
                clause,
                message: format!("under per-char width: {m0}; under string width: {m1}"),
            })
        }
        (Some((c0, _)), None) => {
            ctx.count(&format!("reading_dependent.{func}.{c0}.only_under_per_char_width"));
            Ok(())
        }
        (None, Some((c1, _))) => {
            ctx.count(&format!("reading_dependent.{func}.{c1}.only_under_string_width"));
            Ok(())
        }
        (None, None) => Ok(()),
    }
}

/// The two readings differ on some prefix or suffix of `s` (control
/// characters, emoji sequences, ligatures).
fn width_ambiguous(s: &str) -> bool {
    let cuts: Vec<usize> = s.char_indices().map(|(i, _)| i).chain([s.len()]).collect();
    cuts.iter()
        .any(|k| cw(&s[..*k]) != sw(&s[..*k]) || cw(&s[*k..]) != sw(&s[*k..]))
}

/// "except where a single character is wider": the output is one character
/// of non-zero width (plus zero-width ones) and that alone exceeds the width.
fn single_char_exception(out: &str, max: usize) -> bool {
    let wide: Vec<char> = out.chars().filter(|c| c.width().unwrap_or(0) > 0).collect();
    wide.len() == 1 && wide[0].width().unwrap_or(0) > max
}

fn truncation_clauses(w: fn(&str) -> usize, text: &str, out: &str, max: usize) -> Option<(&'static str, String)> {
    if w(out) > max && !single_char_exception(out, max) {
        return Some(("too_wide", format!("output {out:?} has width {} > {max}", w(out))));
    }
    if w(text) <= max && out != text {
        return Some((
            "fitting_text_changed",
            format!("text {text:?} has width {} <= {max} but output is {out:?}", w(text)),
        ));
    }
    None
}

/// `out` = prefix of `text` + prefix of `ellipsis` (both at char boundaries).
fn is_prefix_plus_prefix(out: &str, text: &str, ellipsis: &str) -> bool {
    out.char_indices()
        .map(|(i, _)| i)
        .chain([out.len()])
        .any(|k| text.starts_with(&out[..k]) && ellipsis.starts_with(&out[k..]))
}
/// `out` = suffix of `ellipsis` + suffix of `text`.
fn is_suffix_plus_suffix(out: &str, text: &str, ellipsis: &str) -> bool {
    out.char_indices()
        .map(|(i, _)| i)
        .chain([out.len()])
        .any(|k| ellipsis.ends_with(&out[..k]) && text.ends_with(&out[k..]))
}

fn record(content: &str, cuts: &[usize]) -> FormatRecorder {
    // Content split into labeled segments at char boundaries.
    let mut recorder = FormatRecorder::new(false);
    let mut bounds: Vec<usize> = cuts
        .iter()
        .map(|c| {
            let mut k = (*c).min(content.len());
            while !content.is_char_boundary(k) {
                k -= 1;
            }
            k
        })
        .collect();
    bounds.push(0);
    bounds.push(content.len());
    bounds.sort();
    bounds.dedup();
    for (n, pair) in bounds.windows(2).enumerate() {
        let labeled = n % 2 == 0;
        if labeled {
            recorder.push_label("red");
        }
        recorder.write_all(content[pair[0]..pair[1]].as_bytes()).unwrap();
        if labeled {
            recorder.pop_label();
        }
    }
    recorder
}

fn plain(f: impl FnOnce(&mut dyn Formatter) -> std::io::Result<()>) -> Result<Vec<u8>, Fail> {
    let mut output = Vec::new();
    let mut formatter = PlainTextFormatter::new(&mut output);
    f(&mut formatter).map_err(|e| Fail {
        clause: "io_error".into(),
        message: e.to_string(),
    })?;
    drop(formatter);
    Ok(output)
}

fn utf8(func: &str, bytes: Vec<u8>) -> Result<String, Fail> {
    String::from_utf8(bytes).map_err(|e| Fail {
        clause: format!("{func}.character_split"),
        message: format!("output is not valid UTF-8: {:?}", e.as_bytes()),
    })
}

#[derive(Debug)]
struct WidthCase {
    text: String,
    ellipsis: String,
    fill: char,
    width: usize,
    cuts: Vec<usize>,
    wrap_text: String,
    wrap_width: usize,
}

/// Number of independently reported parts of a C44 case (one per function).
const C44_PARTS: usize = 9;

fn check_c44(ctx: &Ctx, case: &WidthCase, part: usize) -> Check {
    let WidthCase {
        text,
        ellipsis,
        fill,
        width,
        cuts,
        wrap_text,
        wrap_width,
    } = case;
    let max = *width;
    let ambiguous = width_ambiguous(text) || width_ambiguous(ellipsis);

    // elide_end / elide_start ------------------------------------------------
    if part == 0 {
        let (out, _) = text_util::elide_end(text, ellipsis, max);
        ensure!(
            *out == **text || is_prefix_plus_prefix(&out, text, ellipsis),
            "elide_end.not_prefix_plus_ellipsis",
            "elide_end({text:?}, {ellipsis:?}, {max}) = {out:?}"
        );
        if *out != **text {
            ctx.count("elide_end.truncated");
        }
        return both_readings(ctx, "elide_end", ambiguous, |w| truncation_clauses(w, text, &out, max));
    }
    if part == 1 {
        let (out, _) = text_util::elide_start(text, ellipsis, max);
        ensure!(
            *out == **text || is_suffix_plus_suffix(&out, text, ellipsis),
            "elide_start.not_ellipsis_plus_suffix",
            "elide_start({text:?}, {ellipsis:?}, {max}) = {out:?}"
        );
        if *out != **text {
            ctx.count("elide_start.truncated");
        }
        return both_readings(ctx, "elide_start", ambiguous, |w| {
            truncation_clauses(w, text, &out, max)
        });
    }

    // write_truncated_* --------------------------------------------------------
    let recorder = record(text, cuts);
    let ellipsis_recorder = record(ellipsis, &[1]);
    if part == 2 {
        let out = utf8(
            "write_truncated_end",
            plain(|f| text_util::write_truncated_end(f, &recorder, &ellipsis_recorder, max).map(|_| ()))?,
        )?;
        ensure!(
            is_prefix_plus_prefix(&out, text, ellipsis),
            "write_truncated_end.not_prefix_plus_ellipsis",
            "write_truncated_end({text:?}, {ellipsis:?}, {max}) = {out:?}"
        );
        if out != *text {
            ctx.count("write_truncated_end.truncated");
        }
        return both_readings(ctx, "write_truncated_end", ambiguous, |w| {
            truncation_clauses(w, text, &out, max)
        });
    }
    if part == 3 {
        let out = utf8(
            "write_truncated_start",
            plain(|f| text_util::write_truncated_start(f, &recorder, &ellipsis_recorder, max).map(|_| ()))?,
        )?;
        ensure!(
            is_suffix_plus_suffix(&out, text, ellipsis),
            "write_truncated_start.not_ellipsis_plus_suffix",
            "write_truncated_start({text:?}, {ellipsis:?}, {max}) = {out:?}"
        );
        if out != *text {
            ctx.count("write_truncated_start.truncated");
        }
        return both_readings(ctx, "write_truncated_start", ambiguous, |w| {
            truncation_clauses(w, text, &out, max)
        });
    }

    // write_padded_* -----------------------------------------------------------
    let fill_str = fill.to_string();
    let fill_recorder = record(&fill_str, &[]);
    type PadFn = fn(&mut dyn Formatter, &FormatRecorder, &FormatRecorder, usize) -> std::io::Result<()>;
    let pads: [(&str, PadFn); 3] = [
        ("write_padded_start", text_util::write_padded_start),
        ("write_padded_end", text_util::write_padded_end),
        ("write_padded_centered", text_util::write_padded_centered),
    ];
    if (4..7).contains(&part) {
        let (func, pad) = pads[part - 4];
        let out = utf8(func, plain(|f| pad(f, &recorder, &fill_recorder, max))?)?;
        let extra = out.len().checked_sub(text.len());
        let total = extra.filter(|e| e % fill_str.len() == 0).map(|e| e / fill_str.len());
        let structure_ok = total.is_some_and(|total| {
            let candidates: Vec<usize> = match func {
                "write_padded_start" => vec![total],
                "write_padded_end" => vec![0],
                _ => (0..=total).collect(),
            };
            candidates
                .iter()
                .any(|a| out == format!("{}{}{}", fill_str.repeat(*a), text, fill_str.repeat(total - a)))
        });
        ensure!(
            structure_ok,
            format!("{func}.not_fill_plus_text"),
            "{func}({text:?}, {fill:?}, {max}) = {out:?}"
        );
        let total = total.unwrap();
        if total > 0 {
            ctx.count(&format!("{func}.padded"));
        }
        return both_readings(ctx, func, width_ambiguous(text), |w| {
            let expected = max.saturating_sub(w(text));
            (total != expected).then(|| {
                (
                    "wrong_padding",
                    format!(
                        "text {text:?} of width {} padded to {max} needs {expected} fill characters, got {total}: {out:?}",
                        w(text)
                    ),
                )
            })
        });
    }

    // wrap_bytes / write_wrapped ----------------------------------------------
    if part == 7 {
        let lines = text_util::wrap_bytes(wrap_text.as_bytes(), *wrap_width);
        // sub-slices of the input, in order
        let base = wrap_text.as_ptr() as usize;
        let mut pos = 0;
        let mut line_strs = vec![];
        for line in &lines {
            let start = (line.as_ptr() as usize).wrapping_sub(base);
            ensure!(
                start >= pos && start + line.len() <= wrap_text.len(),
                "wrap_bytes.lines_not_ordered_subslices",
                "wrap_bytes({wrap_text:?}, {wrap_width}): line at offset {start} (len {}) after position {pos}",
                line.len()
            );
            pos = start + line.len();
            line_strs.push(utf8("wrap_bytes", line.to_vec())?);
        }
        check_wrapped(ctx, "wrap_bytes", wrap_text, *wrap_width, &line_strs)?;
        if line_strs.len() > wrap_text.split('\n').count() {
            ctx.count("wrap_bytes.wrapped");
        }
        return Ok(());
    }

    let wrap_recorder = record(wrap_text, cuts);
    let out = utf8(
        "write_wrapped",
        plain(|f| text_util::write_wrapped(f, &wrap_recorder, *wrap_width))?,
    )?;
    let out_lines: Vec<String> = out.split('\n').map(|l| l.to_owned()).collect();
    check_wrapped(ctx, "write_wrapped", wrap_text, *wrap_width, &out_lines)?;
    Ok(())
}

fn check_wrapped(ctx: &Ctx, func: &str, text: &str, width: usize, lines: &[String]) -> Check {
    // Non-whitespace content preserved in order.
    let strip = |s: &str| s.chars().filter(|c| !c.is_whitespace()).collect::<String>();
    let got: String = lines.iter().map(|l| strip(l)).collect();
    ensure!(
        got == strip(text),
        format!("{func}.content_not_preserved"),
        "{func}({text:?}, {width}) = {lines:?}"
    );
    let ambiguous = text.split('\n').any(width_ambiguous);
    both_readings(ctx, func, ambiguous, |w| {
        for line in lines {
            if w(line) > width {
                let word = line.trim_matches(' ');
                let single_long_word = !word.contains(' ') && w(word) > width;
                if !single_long_word {
                    return Some((
                        "line_too_wide",
                        format!(
                            "line {line:?} of {lines:?} has width {} > {width} and is not a single long word (input {text:?})",
                            w(line)
                        ),
                    ));
                }
            }
        }
        // Text that already fits is unchanged. Weaker than the statement:
        // trailing spaces of a line are not part of any word and wrap_bytes
        // returns word-to-word sub-slices, so they are compared modulo
        // trailing spaces.
        let input_lines: Vec<&str> = text.split('\n').collect();
        if input_lines.iter().all(|l| w(l) <= width) {
            let same = input_lines.len() == lines.len()
                && input_lines
                    .iter()
                    .zip(lines)
                    .all(|(a, b)| a.trim_end_matches(' ') == b.trim_end_matches(' '));
            if !same {
                return Some((
                    "fitting_text_changed",
                    format!("every line of {text:?} fits in {width} but output is {lines:?}"),
                ));
            }
        }
        None
    })
}

pub fn run_c44(ctx: &Ctx) -> i32 {
    ctx.set_rule(
        "case = (text, ellipsis, fill char, width, label cut points, wrap text, wrap width): random \
         strings (0..20 chars) over ASCII, wide/fullwidth/astral, combining, ZWJ/ZWSP/variation \
         selectors, Hangul jamo, ligature pairs, regional indicators, ASCII and C1 controls and \
         arbitrary scalar values; widths 0..24 biased to the text's own width; ellipses from a pool \
         (empty, 1..3 columns, wide, with combining marks) or random. Every public function of \
         text_util.rs that takes a width is run on each case: elide_start/end, \
         write_truncated_start/end (content recorded in labeled segments), write_padded_start/end/\
         centered, wrap_bytes, write_wrapped. Each function is judged separately (9 parts per case). \
         NON-TRIVIAL: the text contains a character whose width is not 1 (wide, zero-width or control). \
         DISTINCT: by the whole case.",
    );
    ctx.assume(
        "width-dependent clauses are reported only when they fail under both readings of unicode-width \
         (sum of char widths with controls = 0, and width of the whole string); failures under one \
         reading only are counted as reading_dependent.*; when the two readings differ on the input \
         itself (control characters, emoji sequences, ligatures) a failure under both readings is \
         reported with the single signature <function>.width_ambiguous_input",
    );
    ctx.assume(
        "content for truncate/pad functions is single-line (no '\\n', documented precondition); the fill \
         character has width 1 (documented precondition); wrap inputs contain no ESC because textwrap \
         deliberately treats ANSI escape sequences as zero-width",
    );
    ctx.assume("wrap: 'text that fits is unchanged' is enforced modulo trailing spaces of each line");
    // Development aid: VERIF_C44_CASE='{"text":…,"ellipsis":…,"width":N}' runs one explicit case.
    if let Ok(spec) = std::env::var("VERIF_C44_CASE") {
        let v: Value = serde_json::from_str(&spec).unwrap_or(Value::Null);
        let text = v["text"].as_str().unwrap_or("").to_owned();
        let case = WidthCase {
            wrap_text: v["wrap_text"].as_str().unwrap_or(&text).to_owned(),
            text,
            ellipsis: v["ellipsis"].as_str().unwrap_or("").to_owned(),
            fill: '=',
            width: v["width"].as_u64().unwrap_or(0) as usize,
            cuts: vec![],
            wrap_width: v["width"].as_u64().unwrap_or(0) as usize,
        };
        let recorder = record(&case.text, &[]);
        let ellipsis_recorder = record(&case.ellipsis, &[]);
        println!(
            "elide_end             -> {:?}",
            text_util::elide_end(&case.text, &case.ellipsis, case.width).0
        );
        println!(
            "elide_start           -> {:?}",
            text_util::elide_start(&case.text, &case.ellipsis, case.width).0
        );
        let out = plain(|f| text_util::write_truncated_end(f, &recorder, &ellipsis_recorder, case.width).map(|_| ()));
        println!(
            "write_truncated_end   -> {:?}",
            out.map(|b| String::from_utf8_lossy(&b).into_owned()).ok()
        );
        let out = plain(|f| text_util::write_truncated_start(f, &recorder, &ellipsis_recorder, case.width).map(|_| ()));
        println!(
            "write_truncated_start -> {:?}",
            out.map(|b| String::from_utf8_lossy(&b).into_owned()).ok()
        );
        for part in 0..C44_PARTS {
            run_case(
                ctx,
                0,
                0,
                || json!({"explicit": format!("{case:?}"), "part": part}),
                || check_c44(ctx, &case, part),
            );
        }
        ctx.case(1, true);
        ctx.case(2, true);
        return ctx.finish(0);
    }
    let n = ctx.tier().pick(1_500_000, 5_000_000);
    par_cases(ctx, n, threads(), |i, cs, rng| {
        let text = gen_width_text(rng, 20, true, false, true);
        let ellipsis = match rng.below(10) {
            0 | 1 => String::new(),
            2 | 3 => "…".to_owned(),
            4 => "...".to_owned(),
            5 => "略".to_owned(),
            6 => "-=~".to_owned(),
            7 => "\u{300}x\u{301}".to_owned(),
            8 => "❤\u{fe0f}".to_owned(),
            _ => gen_width_text(rng, 4, false, false, true),
        };
        let fill = *rng.pick(&['=', ' ', '-', '.', '·', 'é']);
        let pick_width = |rng: &mut Rng, text: &str| -> usize {
            let own = cw(text);
            match rng.below(6) {
                0 => rng.below(25),
                1 => 0,
                2 => own,
                3 => own.saturating_sub(rng.range(1, 3)),
                4 => own + rng.range(1, 3),
                _ => rng.below(own + 2),
            }
        };
        let width = pick_width(rng, &text);
        let cuts = (0..rng.below(3)).map(|_| rng.below(text.len() + 1)).collect();
        let wrap_text = gen_width_text(rng, 30, true, true, false);
        let longest = wrap_text.split('\n').map(cw).max().unwrap_or(0);
        let wrap_width = match rng.below(5) {
            0 => rng.below(25),
            1 => longest,
            2 => longest + 1,
            _ => rng.below(longest + 2),
        };
        let case = WidthCase {
            text,
            ellipsis,
            fill,
            width,
            cuts,
            wrap_text,
            wrap_width,
        };
        for part in 0..C44_PARTS {
            run_case(
                ctx,
                i,
                cs,
                || {
                    json!({"text": case.text, "ellipsis": case.ellipsis, "fill": case.fill.to_string(),
                          "width": case.width, "cuts": case.cuts, "wrap_text": case.wrap_text,
                          "wrap_width": case.wrap_width, "part": part, "debug": format!("{case:?}")})
                },
                || check_c44(ctx, &case, part),
            );
        }
        let odd = |s: &str| s.chars().any(|c| c.width() != Some(1));
        ctx.case(
            stable_hash(&format!("{case:?}")),
            odd(&case.text) || odd(&case.wrap_text),
        );
        if cw(&case.text) != sw(&case.text) {
            ctx.count("text_where_per_char_and_string_width_differ");
        }
        if case.text.chars().any(|c| c.width().unwrap_or(0) == 2) {
            ctx.count("text_with_wide_char");
        }
        if case.text.chars().any(|c| c.width() == Some(0)) {
            ctx.count("text_with_zero_width_char");
        }
        if case.text.chars().any(|c| c.is_control()) {
            ctx.count("text_with_control_char");
        }
        if cw(&case.ellipsis) > case.width {
            ctx.count("ellipsis_wider_than_width");
        }
        ctx.sample(|| json!({"case": format!("{case:?}")}));
    });
    ctx.finish(ctx.tier().pick(30_000, 500_000))
}

// ---------------------------------------------------------------------------
// C36: cases, worker protocol

const PARSERS: [&str; 4] = ["revset", "fileset", "fileset_bare", "template"];

fn parser_family(parser: &str) -> &'static str {
    match parser {
        "revset" => "revset",
        "fileset" | "fileset_bare" => "fileset",
        _ => "template",
    }
}

#[derive(Clone, Debug, Hash, PartialEq, Eq)]
struct ParseCase {
    parser: String,
    text: String,
    aliases: Vec<(String, String)>,
    workspace: bool,
    origin: String,
}

impl ParseCase {
    fn new(parser: &str, text: String, origin: &str) -> Self {
        Self {
            parser: parser.to_owned(),
            text,
            aliases: vec![],
            workspace: true,
            origin: origin.to_owned(),
        }
    }
    fn to_json(&self) -> Value {
        json!({"p": self.parser, "t": self.text, "a": self.aliases, "ws": self.workspace, "o": self.origin})
    }
    fn from_json(v: &Value) -> Option<Self> {
        Some(Self {
            parser: v["p"].as_str()?.to_owned(),
            text: v["t"].as_str()?.to_owned(),
            aliases: v["a"]
                .as_array()?
                .iter()
                .filter_map(|p| Some((p[0].as_str()?.to_owned(), p[1].as_str()?.to_owned())))
                .collect(),
            workspace: v["ws"].as_bool().unwrap_or(true),
            origin: v["o"].as_str().unwrap_or("").to_owned(),
        })
    }
    fn describe(&self) -> Value {
        json!({"parser": self.parser, "text": truncate(&self.text, 4000), "text_len": self.text.len(),
               "aliases": self.aliases.iter().take(20).collect::<Vec<_>>(), "alias_count": self.aliases.len(),
               "workspace": self.workspace, "origin": self.origin})
    }
}

/// Runs the real parser on one case. Returns "ok"/"err" and the number of
/// alias declarations that were accepted.
fn parse_one(case: &ParseCase) -> (&'static str, usize) {
    let mut accepted = 0;
    let ok = match case.parser.as_str() {
        "revset" => {
            let mut aliases = RevsetAliasesMap::new();
            for (decl, defn) in &case.aliases {
                if aliases.insert(decl, defn.clone(), None).is_ok() {
                    accepted += 1;
                }
            }
            // Cheap entry points taking the same text.
            let _ = revset::parse_symbol(&case.text);
            let result = with_revset_context(&aliases, case.workspace, |context| {
                revset::parse(&mut RevsetDiagnostics::new(), &case.text, context)
            });
            let ok = result.is_ok();
            if let Err(e) = &result {
                // Rendering the error is part of reporting it.
                let _ = e.to_string();
            }
            drop(result);
            ok
        }
        "fileset" | "fileset_bare" => {
            let mut aliases = FilesetAliasesMap::new();
            for (decl, defn) in &case.aliases {
                if aliases.insert(decl, defn.clone(), None).is_ok() {
                    accepted += 1;
                }
            }
            let path_converter = RepoPathUiConverter::Fs {
                cwd: PathBuf::from("/ws/sub"),
                base: PathBuf::from("/ws"),
            };
            let context = FilesetParseContext {
                aliases_map: &aliases,
                path_converter: &path_converter,
            };
            let mut diagnostics = FilesetDiagnostics::new();
            let result = if case.parser == "fileset_bare" {
                fileset::parse_maybe_bare(&mut diagnostics, &case.text, &context)
            } else {
                fileset::parse(&mut diagnostics, &case.text, &context)
            };
            let ok = result.is_ok();
            if let Err(e) = &result {
                let _ = e.to_string();
            }
            drop(result);
            ok
        }
        _ => {
            let mut aliases = TemplateAliasesMap::new();
            for (decl, defn) in &case.aliases {
                if aliases.insert(decl, defn.clone(), None).is_ok() {
                    accepted += 1;
                }
            }
            let result = template_parser::parse(&case.text, &aliases);
            let ok = result.is_ok();
            if let Err(e) = &result {
                let _ = e.to_string();
            }
            drop(result);
            ok
        }
    };
    (if ok { "ok" } else { "err" }, accepted)
}

/// Worker mode: `C36 <tier> --worker <file> --from <n>`. Parses the cases of
/// the file one after the other on a thread with an 8 MiB stack (like the CLI
/// main thread), printing `S <i>` before and `R <i> <status> …` after each.
/// A case that exceeds the watchdog is reported `slow` and the worker exits
/// (the parent restarts it behind that case). A stack overflow or abort kills
/// the worker; the parent sees which case was in flight.
fn c36_worker(file: &str, from: usize, watchdog_override_ms: Option<u64>) -> i32 {
    unsafe {
        let zero = libc::rlimit {
            rlim_cur: 0,
            rlim_max: 0,
        };
        libc::setrlimit(libc::RLIMIT_CORE, &zero);
    }
    let doc: Value = match std::fs::read_to_string(file)
        .ok()
        .and_then(|t| serde_json::from_str(&t).ok())
    {
        Some(doc) => doc,
        None => {
            println!("WORKER-ERROR unreadable job file");
            return 2;
        }
    };
    let watchdog = Duration::from_millis(watchdog_override_ms.or(doc["watchdog_ms"].as_u64()).unwrap_or(5000));
    let cases: Vec<ParseCase> = doc["cases"]
        .as_array()
        .map(|a| a.iter().filter_map(ParseCase::from_json).collect())
        .unwrap_or_default();
    let cases = Arc::new(cases);
    let (job_tx, job_rx) = std::sync::mpsc::channel::<usize>();
    let (res_tx, res_rx) = std::sync::mpsc::channel::<String>();
    let thread_cases = cases.clone();
    let spawned = std::thread::Builder::new()
        .name("parse".to_owned())
        .stack_size(8 << 20)
        .spawn(move || {
            for i in job_rx {
                let case = &thread_cases[i];
                let line = match catch(|| parse_one(case)) {
                    Caught::Ok((status, accepted)) => format!("{status} {accepted}"),
                    Caught::SubjectPanic { location, message } => {
                        format!(
                            "panic {}",
                            json!({"location": location, "message": message, "harness": false})
                        )
                    }
                    Caught::HarnessPanic { location, message } => {
                        format!(
                            "panic {}",
                            json!({"location": location, "message": message, "harness": true})
                        )
                    }
                };
                if res_tx.send(line).is_err() {
                    break;
                }
            }
        });
    let Ok(handle) = spawned else {
        println!("WORKER-ERROR cannot spawn parse thread");
        return 2;
    };
    // The watchdog counts CPU time of the parse thread, so that the
    // classification does not depend on the load of the machine; a generous
    // wall-clock limit (30x) is the fallback.
    let mut clock_id: libc::clockid_t = 0;
    let have_clock = unsafe {
        use std::os::unix::thread::JoinHandleExt as _;
        libc::pthread_getcpuclockid(handle.as_pthread_t(), &mut clock_id) == 0
    };
    let thread_cpu = || -> Option<Duration> {
        if !have_clock {
            return None;
        }
        let mut ts = libc::timespec { tv_sec: 0, tv_nsec: 0 };
        (unsafe { libc::clock_gettime(clock_id, &mut ts) } == 0)
            .then(|| Duration::new(ts.tv_sec as u64, ts.tv_nsec as u32))
    };
    for i in from..cases.len() {
        println!("S {i}");
        let start_cpu = thread_cpu();
        let start_wall = std::time::Instant::now();
        job_tx.send(i).ok();
        loop {
            match res_rx.recv_timeout(Duration::from_millis(25)) {
                Ok(line) => {
                    println!("R {i} {line}");
                    break;
                }
                Err(std::sync::mpsc::RecvTimeoutError::Timeout) => {
                    let cpu_exceeded = match (start_cpu, thread_cpu()) {
                        (Some(a), Some(b)) => b.saturating_sub(a) > watchdog,
                        _ => start_wall.elapsed() > watchdog,
                    };
                    if cpu_exceeded || start_wall.elapsed() > watchdog * 30 {
                        println!("R {i} slow");
                        std::io::stdout().flush().ok();
                        std::process::exit(0);
                    }
                }
                Err(std::sync::mpsc::RecvTimeoutError::Disconnected) => {
                    println!(
                        "R {i} panic {}",
                        json!({"location": "", "message": "parse thread died", "harness": true})
                    );
                    std::io::stdout().flush().ok();
                    std::process::exit(0);
                }
            }
        }
    }
    println!("DONE");
    0
}

#[derive(Clone, Debug, PartialEq)]
enum Outcome {
    NotRun,
    Ok {
        accepted_aliases: usize,
    },
    Err {
        accepted_aliases: usize,
    },
    Slow,
    Panic {
        location: String,
        message: String,
        harness: bool,
    },
    StackOverflow {
        detail: String,
    },
    Died {
        detail: String,
    },
}

static JOB_COUNTER: std::sync::atomic::AtomicU64 = std::sync::atomic::AtomicU64::new(0);

/// Runs the cases in worker subprocesses and classifies what happened to each.
fn run_in_workers(ctx: &Ctx, cases: &[ParseCase], watchdog_ms: u64) -> Vec<Outcome> {
    run_in_workers_with(ctx, cases, watchdog_ms, watchdog_ms, false)
}

/// `after_slow_ms`: watchdog for the cases behind the first slow one;
/// `stop_at_crash`: do not run the cases behind one that killed the worker.
fn run_in_workers_with(
    ctx: &Ctx,
    cases: &[ParseCase],
    watchdog_ms: u64,
    after_slow_ms: u64,
    stop_at_crash: bool,
) -> Vec<Outcome> {
    use std::os::unix::process::ExitStatusExt as _;
    let mut outcomes = vec![Outcome::NotRun; cases.len()];
    if cases.is_empty() {
        return outcomes;
    }
    let dir = scratch_dir("c36");
    let id = JOB_COUNTER.fetch_add(1, std::sync::atomic::Ordering::SeqCst);
    let file = dir.join(format!("job-{id}.json"));
    let doc = json!({"watchdog_ms": watchdog_ms, "cases": cases.iter().map(|c| c.to_json()).collect::<Vec<_>>()});
    if std::fs::write(&file, serde_json::to_string(&doc).unwrap()).is_err() {
        ctx.inconclusive("cannot write worker job file");
        return outcomes;
    }
    let exe = std::env::current_exe().unwrap();
    let mut from = 0;
    let mut spawn_failures = 0;
    let mut watchdog_override: Option<u64> = None;
    while from < cases.len() {
        let out = vlib::p_opheads::run_with_timeout(
            std::process::Command::new(&exe)
                .args(["C36", ctx.tier().as_str(), "--worker"])
                .arg(&file)
                .args(["--from", &from.to_string()])
                .args(["--watchdog-ms", &watchdog_override.unwrap_or(watchdog_ms).to_string()])
                .env("RUST_BACKTRACE", "0"),
            Duration::from_secs(900),
        );
        let out = match out {
            Ok(out) => out,
            Err(e) => {
                ctx.inconclusive(&format!("worker could not be run to completion: {e}"));
                break;
            }
        };
        let stdout = String::from_utf8_lossy(&out.stdout);
        let stderr = String::from_utf8_lossy(&out.stderr);
        let mut in_flight: Option<usize> = None;
        let mut done = false;
        let mut last_slow: Option<usize> = None;
        for line in stdout.lines() {
            if line == "DONE" {
                done = true;
            } else if let Some(rest) = line.strip_prefix("S ") {
                in_flight = rest.trim().parse().ok();
            } else if let Some(rest) = line.strip_prefix("R ") {
                let mut parts = rest.splitn(3, ' ');
                let Some(i) = parts.next().and_then(|p| p.parse::<usize>().ok()) else {
                    continue;
                };
                if i >= cases.len() {
                    continue;
                }
                let status = parts.next().unwrap_or("");
                let payload = parts.next().unwrap_or("");
                outcomes[i] = match status {
                    "ok" => Outcome::Ok {
                        accepted_aliases: payload.parse().unwrap_or(0),
                    },
                    "err" => Outcome::Err {
                        accepted_aliases: payload.parse().unwrap_or(0),
                    },
                    "slow" => {
                        last_slow = Some(i);
                        Outcome::Slow
                    }
                    "panic" => {
                        let v: Value = serde_json::from_str(payload).unwrap_or(Value::Null);
                        Outcome::Panic {
                            location: v["location"].as_str().unwrap_or("").to_owned(),
                            message: v["message"].as_str().unwrap_or(payload).to_owned(),
                            harness: v["harness"].as_bool().unwrap_or(false),
                        }
                    }
                    other => Outcome::Died {
                        detail: format!("unknown worker status {other}"),
                    },
                };
                if in_flight == Some(i) {
                    in_flight = None;
                }
            }
        }
        if done {
            break;
        }
        if let Some(i) = last_slow
            && in_flight.is_none()
        {
            // In a sweep (stop_at_crash) the depths between the first slow
            // one and the deepest add nothing but time.
            from = if stop_at_crash {
                (cases.len() - 1).max(i + 1)
            } else {
                i + 1
            };
            watchdog_override = Some(after_slow_ms);
            continue;
        }
        match in_flight {
            Some(i) => {
                let status = format!("exit code {:?}, signal {:?}", out.status.code(), out.status.signal());
                let overflow = stderr.contains("has overflowed its stack");
                if matches!(out.status.signal(), Some(libc::SIGKILL) | Some(libc::SIGTERM)) {
                    // Killed from outside (OOM killer, operator): not an observation about jj.
                    ctx.inconclusive(&format!("worker was killed ({status}) while parsing case {i} of a job"));
                    break;
                }
                let by_signal = matches!(
                    out.status.signal(),
                    Some(libc::SIGSEGV) | Some(libc::SIGABRT) | Some(libc::SIGBUS)
                );
                outcomes[i] = if overflow && by_signal {
                    Outcome::StackOverflow {
                        detail: format!("{status}: {}", truncate(last_lines(&stderr, 3).trim(), 300)),
                    }
                } else {
                    Outcome::Died {
                        detail: format!("{status}: {}", truncate(last_lines(&stderr, 6).trim(), 600)),
                    }
                };
                if stop_at_crash {
                    break;
                }
                from = i + 1;
            }
            None => {
                // The worker stopped without having started a case.
                spawn_failures += 1;
                if spawn_failures >= 3 {
                    ctx.inconclusive(&format!(
                        "worker exits before starting a case (status {:?}): {} {}",
                        out.status.code(),
                        truncate(stdout.trim(), 200),
                        truncate(stderr.trim(), 300)
                    ));
                    break;
                }
            }
        }
    }
    std::fs::remove_file(&file).ok();
    outcomes
}

fn last_lines(text: &str, n: usize) -> String {
    let lines: Vec<&str> = text.lines().collect();
    lines[lines.len().saturating_sub(n)..].join("\n")
}

// ---------------------------------------------------------------------------
// C36: corpus harvested from the repository under test

/// Root of the jj checkout this binary was built against: taken from the
/// path dependency in vcli's Cargo.toml (`VERIF_REPO` overrides).
fn repo_root() -> Option<PathBuf> {
    if let Some(p) = std::env::var_os("VERIF_REPO") {
        return Some(PathBuf::from(p));
    }
    let manifest = std::fs::read_to_string(concat!(env!("CARGO_MANIFEST_DIR"), "/Cargo.toml")).ok()?;
    for line in manifest.lines() {
        if line.trim_start().starts_with("jj-cli")
            && let Some(pos) = line.find("path")
        {
            let rest = &line[pos..];
            let start = rest.find('"')? + 1;
            let end = start + rest[start..].find('"')?;
            let cli = PathBuf::from(&rest[start..end]);
            return cli.parent().map(|p| p.to_owned());
        }
    }
    None
}

fn harvest_markdown(text: &str, out: &mut BTreeSet<String>) {
    let mut in_fence = false;
    let mut block = String::new();
    for line in text.lines() {
        if line.trim_start().starts_with("```") {
            if in_fence && !block.trim().is_empty() {
                out.insert(block.trim().to_owned());
            }
            block.clear();
            in_fence = !in_fence;
            continue;
        }
        if in_fence {
            block.push_str(line);
            block.push('\n');
            let t = line.trim();
            if !t.is_empty() {
                out.insert(t.to_owned());
                // `key = 'value'` lines of config examples
                if let Some((_, value)) = t.split_once(" = ") {
                    out.insert(value.trim_matches(|c| c == '\'' || c == '"').to_owned());
                }
            }
            continue;
        }
        // inline code spans
        let mut rest = line;
        while let Some(start) = rest.find('`') {
            let after = &rest[start + 1..];
            let Some(end) = after.find('`') else { break };
            let span = &after[..end];
            if !span.is_empty() {
                out.insert(span.to_owned());
            }
            rest = &after[end + 1..];
        }
    }
}

fn harvest_toml(text: &str, out: &mut BTreeSet<String>) {
    // Crude scanner for string keys and values (basic, literal and multi-line).
    let bytes = text.as_bytes();
    let mut i = 0;
    while i < bytes.len() {
        let rest = &text[i..];
        if rest.starts_with('#') && (i == 0 || bytes[i - 1] == b'\n' || bytes[i - 1] == b' ') {
            i += rest.find('\n').unwrap_or(rest.len());
            continue;
        }
        let mut matched = false;
        for delim in ["'''", "\"\"\"", "'", "\""] {
            if rest.starts_with(delim) {
                let body = &rest[delim.len()..];
                let end = if delim.len() == 1 {
                    body.find(|c: char| c == '\n' || delim.starts_with(c))
                        .filter(|e| body[*e..].starts_with(delim))
                } else {
                    body.find(delim)
                };
                if let Some(end) = end {
                    let mut value = body[..end].to_owned();
                    if delim.starts_with('"') {
                        value = value.replace("\\\"", "\"").replace("\\\\", "\\").replace("\\n", "\n");
                    }
                    if !value.trim().is_empty() {
                        out.insert(value.trim().to_owned());
                    }
                    i += delim.len() + end + delim.len();
                } else {
                    i += delim.len();
                }
                matched = true;
                break;
            }
        }
        if !matched {
            i += rest.chars().next().map_or(1, |c| c.len_utf8());
        }
    }
}

/// Small built-in seed so that the engine still has grammar-shaped inputs if
/// the documentation moves.
const BUILTIN_CORPUS: &[&str] = &[
    "@",
    "@-",
    "x::y",
    "x..y",
    "::x",
    "x::",
    "~x",
    "x & y | z",
    "x ~ y",
    "main@origin",
    "\"foo bar\"@",
    "parents(x, 2)",
    "ancestors(heads(all()), 3)",
    "description(glob:\"foo*\")",
    "author(exact:'a b')",
    "bookmarks(regex:\"^a\") | tags()",
    "files(\"src/*.rs\")",
    "present(x) & mine()",
    "latest(x, 2)",
    "committer_date(after:\"2 days ago\")",
    "at_operation(@-, heads(all()))",
    "coalesce(x, y, none())",
    "exact:\"x\"",
    "remote_bookmarks(remote=origin)",
    "diff_lines(\"x\", glob:\"*.rs\")",
    "all()",
    "none()",
    "~x",
    "x | y",
    "x & ~y",
    "file:\"a b\"",
    "glob:\"*.rs\"",
    "root:src",
    "cwd:\".\"",
    "src/*.rs",
    "root-glob-i:'**/*.TXT'",
    "foo bar",
    "file:foo bar",
    "description.first_line()",
    "if(conflict, label(\"conflict\", \"x\"), \"\")",
    "commit_id.short(8) ++ \"\\n\"",
    "separate(\" \", a, b)",
    "parents.map(|c| c.commit_id().short()).join(\",\")",
    "!a && b || c == 1",
    "-1 + 2 * 3 % 4",
    "\"a\\x41\\e\\0\"",
    "'raw \\n'",
    "coalesce(a, b)",
    "regex:\"^x\"",
    "a >= 1 && b < 2",
    "|a, b| a ++ b",
    "format_short_id(id)",
    "concat(x, \"y\")",
    "surround(\"(\", \")\", x)",
];

struct Corpus {
    entries: Vec<String>,
    from_repo: usize,
    /// identifiers followed by `(` (function / method names)
    functions: Vec<String>,
    identifiers: Vec<String>,
    strings: Vec<String>,
}

fn harvest_corpus(ctx: &Ctx) -> Corpus {
    let mut set = BTreeSet::new();
    let mut files_read = 0;
    if let Some(root) = repo_root() {
        for name in ["docs/revsets.md", "docs/filesets.md", "docs/templates.md"] {
            if let Ok(text) = std::fs::read_to_string(root.join(name)) {
                files_read += 1;
                harvest_markdown(&text, &mut set);
            }
        }
        if let Ok(dir) = std::fs::read_dir(root.join("cli/src/config")) {
            let mut paths: Vec<_> = dir.filter_map(|e| e.ok()).map(|e| e.path()).collect();
            paths.sort();
            for path in paths {
                if path.extension().is_some_and(|e| e == "toml")
                    && let Ok(text) = std::fs::read_to_string(&path)
                {
                    files_read += 1;
                    harvest_toml(&text, &mut set);
                }
            }
        }
    }
    ctx.count_n("corpus_files_read", files_read);
    set.retain(|e| e.len() <= 600 && max_paren_depth(e) <= 6);
    let from_repo = set.len();
    for e in BUILTIN_CORPUS {
        set.insert((*e).to_owned());
    }
    let entries: Vec<String> = set.into_iter().collect();
    let mut functions = BTreeSet::new();
    let mut identifiers = BTreeSet::new();
    let mut strings = BTreeSet::new();
    for e in &entries {
        let tokens = tokenize(e);
        for (k, t) in tokens.iter().enumerate() {
            let first = t.chars().next().unwrap_or(' ');
            if first == '"' || first == '\'' {
                if t.len() <= 40 {
                    strings.insert(t.clone());
                }
            } else if first.is_alphabetic() || first == '_' {
                if t.len() <= 30 {
                    if tokens.get(k + 1).is_some_and(|n| n == "(") {
                        functions.insert(t.clone());
                    } else {
                        identifiers.insert(t.clone());
                    }
                }
            }
        }
    }
    Corpus {
        entries,
        from_repo,
        functions: functions.into_iter().collect(),
        identifiers: identifiers.into_iter().collect(),
        strings: strings.into_iter().collect(),
    }
}

// ---------------------------------------------------------------------------
// C36: tokenizer and mutations

const MULTI_OPS: &[&str] = &["::", "..", "++", "||", "&&", "==", "!=", ">=", "<="];

fn tokenize(text: &str) -> Vec<String> {
    let chars: Vec<char> = text.chars().collect();
    let mut tokens = vec![];
    let mut i = 0;
    while i < chars.len() {
        let c = chars[i];
        let start = i;
        if c == '"' {
            i += 1;
            while i < chars.len() && chars[i] != '"' {
                if chars[i] == '\\' {
                    i += 1;
                }
                i += 1;
            }
            i = (i + 1).min(chars.len());
        } else if c == '\'' {
            i += 1;
            while i < chars.len() && chars[i] != '\'' {
                i += 1;
            }
            i = (i + 1).min(chars.len());
        } else if c.is_alphanumeric() || c == '_' {
            while i < chars.len() && (chars[i].is_alphanumeric() || chars[i] == '_') {
                i += 1;
            }
        } else if c.is_whitespace() {
            while i < chars.len() && chars[i].is_whitespace() {
                i += 1;
            }
        } else {
            let two: String = chars[i..(i + 2).min(chars.len())].iter().collect();
            if MULTI_OPS.contains(&two.as_str()) {
                i += 2;
            } else {
                i += 1;
            }
        }
        tokens.push(chars[start..i].iter().collect());
    }
    tokens
}

/// Nesting depth of `(` outside of string literals (parentheses and function
/// calls alike: both are exponential in the revset grammar).
fn max_paren_depth(text: &str) -> usize {
    let mut depth = 0usize;
    let mut max = 0;
    for t in tokenize(text) {
        match t.as_str() {
            "(" => {
                depth += 1;
                max = max.max(depth);
            }
            ")" => depth = depth.saturating_sub(1),
            _ => {}
        }
    }
    // Unbalanced input: count every opening parenthesis.
    max.max(depth)
}

const OPERATOR_TOKENS: &[&str] = &[
    "|", "&", "~", "::", "..", ":", "-", "+", "^", "@", "++", "||", "&&", "==", "!=", ">=", "<=", ">", "<", "*", "/",
    "%", "!", ",", "=", ".", "(", ")", " ", "\n", "\t", "\x0c",
];
const BROKEN_STRINGS: &[&str] = &[
    "\"",
    "'",
    "\"\\",
    "\"\\q\"",
    "\"\\x4\"",
    "\"\\xZZ\"",
    "\"\\x\"",
    "\"\\xff\"",
    "\"\\x80\"",
    "\"\\\"",
    "\"\\0\\e\"",
    "\"é\\",
    "'''",
    "\"\"\"",
    "\"\u{0}\"",
    "\"\\u{41}\"",
    "'\\'",
    "\"\\x00\\x7f\"",
    "\"a\nb\"",
];
const MULTIBYTE: &[&str] = &[
    "é",
    "\u{300}",
    "一",
    "😀",
    "\u{10ffff}",
    "\u{fffd}",
    "\u{feff}",
    "\u{2028}",
    "\u{a0}",
    "ß",
    "\u{80}",
];

fn random_token(rng: &mut Rng, corpus: &Corpus, alias_names: &[String]) -> String {
    match rng.below(12) {
        0..=2 => (*rng.pick(OPERATOR_TOKENS)).to_owned(),
        3 if !corpus.functions.is_empty() => rng.pick(&corpus.functions).clone(),
        4 | 5 if !corpus.identifiers.is_empty() => rng.pick(&corpus.identifiers).clone(),
        6 if !corpus.strings.is_empty() => rng.pick(&corpus.strings).clone(),
        7 => (*rng.pick(BROKEN_STRINGS)).to_owned(),
        8 => (*rng.pick(MULTIBYTE)).to_owned(),
        9 if !alias_names.is_empty() => rng.pick(alias_names).clone(),
        10 => rng
            .pick(&[
                "0",
                "1",
                "9223372036854775807",
                "9223372036854775808",
                "00",
                "-1",
                "18446744073709551616",
            ])
            .to_string(),
        _ => format!("\"{}\"", dsl_util::escape_string(&gen_hostile_string(rng, 6))),
    }
}

fn mutate(rng: &mut Rng, corpus: &Corpus, base: &str, alias_names: &[String]) -> String {
    let mut tokens = tokenize(base);
    let steps = rng.range(1, 4);
    for _ in 0..steps {
        let n = tokens.len();
        let at = |rng: &mut Rng| if n == 0 { 0 } else { rng.below(n) };
        match rng.below(14) {
            0 if n > 0 => {
                let i = at(rng);
                tokens[i] = random_token(rng, corpus, alias_names);
            }
            1 if n > 0 => {
                tokens.remove(at(rng));
            }
            2 if n > 0 => {
                let i = at(rng);
                let t = tokens[i].clone();
                tokens.insert(i, t);
            }
            3 if n > 1 => {
                let (i, j) = (at(rng), at(rng));
                tokens.swap(i, j);
            }
            4 => {
                let i = rng.below(n + 1);
                tokens.insert(i, random_token(rng, corpus, alias_names));
            }
            5 if n > 0 => {
                // wrap a token range in parentheses or a call
                let i = at(rng);
                let j = rng.range(i, n - 1);
                tokens.insert(j + 1, ")".to_owned());
                if rng.bool() && !corpus.functions.is_empty() {
                    tokens.insert(i, "(".to_owned());
                    tokens.insert(i, rng.pick(&corpus.functions).clone());
                } else {
                    tokens.insert(i, "(".to_owned());
                }
            }
            6 if n > 0 => {
                // hostile content inside a string literal (not re-escaped)
                let strings: Vec<usize> = (0..n)
                    .filter(|i| tokens[*i].starts_with('"') || tokens[*i].starts_with('\''))
                    .collect();
                if let Some(i) = strings.first().map(|_| *rng.pick(&strings)) {
                    let q = tokens[i].chars().next().unwrap();
                    tokens[i] = format!("{q}{}{q}", gen_hostile_string(rng, 8));
                }
            }
            7 => {
                // splice another corpus entry
                let other = tokenize(rng.pick::<String>(&corpus.entries));
                let i = rng.below(n + 1);
                let glue = (*rng.pick(&["|", "&", "++", ",", " ", "~", "::"])).to_owned();
                let mut insert = vec![glue];
                insert.extend(other);
                tokens.splice(i..i, insert);
            }
            8 if n > 0 => {
                // truncate at a char boundary
                let text: String = tokens.concat();
                let cut = rng.below(text.chars().count() + 1);
                tokens = tokenize(&text.chars().take(cut).collect::<String>());
            }
            9 if n > 0 => {
                // multi-byte character inside a token
                let i = at(rng);
                let chars: Vec<char> = tokens[i].chars().collect();
                let k = rng.below(chars.len() + 1);
                let mut t: String = chars[..k].iter().collect();
                t.push_str(*rng.pick(MULTIBYTE));
                t.extend(&chars[k..]);
                tokens[i] = t;
            }
            10 => {
                // run of prefix / postfix operators
                let i = rng.below(n + 1);
                let op = (*rng.pick(&["~", "!", "-", "+", "::", "..", "^", ":", "@", "."])).to_owned();
                for _ in 0..rng.range(2, 20) {
                    tokens.insert(i, op.clone());
                }
            }
            11 => {
                // keyword argument / pattern prefix
                let i = rng.below(n + 1);
                let name = if corpus.identifiers.is_empty() {
                    "k".to_owned()
                } else {
                    rng.pick(&corpus.identifiers).clone()
                };
                tokens.insert(i, (*rng.pick(&["=", ":"])).to_owned());
                tokens.insert(i, name);
            }
            12 if n > 0 => {
                // replace whitespace by other whitespace / remove
                for t in tokens.iter_mut() {
                    if t.chars().all(|c| c.is_whitespace()) && rng.bool() {
                        *t = (*rng.pick(&["", "\n", "\t", "  ", "\x0c", "\r\n", "\u{a0}"])).to_owned();
                    }
                }
            }
            _ => {
                let i = rng.below(n + 1);
                tokens.insert(i, gen_hostile_string(rng, 4));
            }
        }
    }
    tokens.concat()
}

// ---------------------------------------------------------------------------
// C36: grammar-directed generation

fn gen_string_literal(rng: &mut Rng) -> String {
    match rng.below(4) {
        0 => format!("'{}'", gen_hostile_string(rng, 6).replace('\'', "")),
        1 => (*rng.pick(&[
            "\"\"",
            "\"a b\"",
            "\"\\n\\t\\\\\\\"\\0\\e\\x7f\"",
            "\"*.rs\"",
            "\"^a.*$\"",
            "\"2 days ago\"",
        ]))
        .to_owned(),
        _ => format!("\"{}\"", dsl_util::escape_string(&gen_hostile_string(rng, 8))),
    }
}

fn gen_revset(rng: &mut Rng, depth: usize, names: &[String]) -> String {
    if depth == 0 || rng.chance(1, 4) {
        return match rng.below(12) {
            0 => "@".to_owned(),
            1 => "x@".to_owned(),
            2 => "main@origin".to_owned(),
            3 => gen_string_literal(rng),
            4 => (*rng.pick(&[
                "root()",
                "all()",
                "none()",
                "mine()",
                "visible_heads()",
                "conflicts()",
                "::",
                "..",
            ]))
            .to_owned(),
            5 if !names.is_empty() => rng.pick(names).clone(),
            6 => format!("{}@{}", gen_string_literal(rng), gen_string_literal(rng)),
            _ => (*rng.pick(&["x", "main", "a-b", "a.b", "é", "abc123", "v1.0+1", "a/b", "*"])).to_owned(),
        };
    }
    let d = depth - 1;
    match rng.below(16) {
        0 => format!("~{}", gen_revset(rng, d, names)),
        1 => format!("::{}", gen_revset(rng, d, names)),
        2 => format!("{}::", gen_revset(rng, d, names)),
        3 => format!("{}-", gen_revset(rng, d, names)),
        4 => format!("{}+", gen_revset(rng, d, names)),
        5 => format!("{} | {}", gen_revset(rng, d, names), gen_revset(rng, d, names)),
        6 => format!("{}&{}", gen_revset(rng, d, names), gen_revset(rng, d, names)),
        7 => format!("{} ~ {}", gen_revset(rng, d, names), gen_revset(rng, d, names)),
        8 => format!("{}..{}", gen_revset(rng, d, names), gen_revset(rng, d, names)),
        9 => format!("({})", gen_revset(rng, d, names)),
        10 => format!(
            "{}({})",
            rng.pick(&[
                "parents",
                "children",
                "ancestors",
                "heads",
                "roots",
                "present",
                "fork_point",
                "first_parent",
                "reachable",
                "latest"
            ]),
            gen_revset(rng, d, names)
        ),
        11 => format!(
            "{}({}, {})",
            rng.pick(&[
                "ancestors",
                "latest",
                "parents",
                "coalesce",
                "reachable",
                "at_operation"
            ]),
            gen_revset(rng, d, names),
            rng.pick(&["2", "x", "0", "-1", "depth=3"])
        ),
        12 => format!(
            "{}({}{})",
            rng.pick(&[
                "description",
                "author",
                "subject",
                "bookmarks",
                "tags",
                "remote_bookmarks",
                "files",
                "diff_lines",
                "committer_date",
                "author_date",
                "change_id",
                "commit_id"
            ]),
            rng.pick(&[
                "",
                "exact:",
                "glob:",
                "regex:",
                "substring:",
                "glob-i:",
                "after:",
                "before:",
                "nokind:"
            ]),
            gen_string_literal(rng)
        ),
        13 if !names.is_empty() => {
            let args: Vec<String> = (0..rng.below(3)).map(|_| gen_revset(rng, d, names)).collect();
            format!("{}({})", rng.pick(names), args.join(", "))
        }
        14 => format!(
            "{}:{}",
            rng.pick(&["exact", "glob", "p", "regex"]),
            gen_revset(rng, d, names)
        ),
        _ => format!("{}::{}", gen_revset(rng, d, names), gen_revset(rng, d, names)),
    }
}

fn gen_fileset(rng: &mut Rng, depth: usize, names: &[String]) -> String {
    if depth == 0 || rng.chance(1, 4) {
        return match rng.below(10) {
            0 => gen_string_literal(rng),
            1 => (*rng.pick(&["all()", "none()"])).to_owned(),
            2 => format!(
                "{}:{}",
                rng.pick(&[
                    "file",
                    "glob",
                    "root",
                    "cwd",
                    "root-file",
                    "root-glob",
                    "glob-i",
                    "prefix-glob",
                    "root-prefix-glob-i",
                    "cwd-file",
                    "nokind"
                ]),
                if rng.bool() {
                    gen_string_literal(rng)
                } else {
                    (*rng.pick(&["src", "*.rs", "a/b", "../x", "/abs", "[a-", "**", "{a,b}"])).to_owned()
                }
            ),
            3 if !names.is_empty() => rng.pick(names).clone(),
            _ => (*rng.pick(&[
                "src", "src/*.rs", "a.b", "é", "**/x", "[ab]", "a\\b", "..", ".", "x@y", "-", "+",
            ]))
            .to_owned(),
        };
    }
    let d = depth - 1;
    match rng.below(8) {
        0 => format!("~{}", gen_fileset(rng, d, names)),
        1 => format!("{} | {}", gen_fileset(rng, d, names), gen_fileset(rng, d, names)),
        2 => format!("{}&{}", gen_fileset(rng, d, names), gen_fileset(rng, d, names)),
        3 => format!("{} ~ {}", gen_fileset(rng, d, names), gen_fileset(rng, d, names)),
        4 => format!("({})", gen_fileset(rng, d, names)),
        5 if !names.is_empty() => {
            let args: Vec<String> = (0..rng.below(3)).map(|_| gen_fileset(rng, d, names)).collect();
            format!("{}({})", rng.pick(names), args.join(", "))
        }
        6 => format!("{}:{}", rng.pick(&["file", "glob", "p"]), gen_fileset(rng, d, names)),
        _ => format!("{} {}", gen_fileset(rng, d, names), gen_fileset(rng, d, names)),
    }
}

fn gen_template(rng: &mut Rng, depth: usize, names: &[String]) -> String {
    if depth == 0 || rng.chance(1, 4) {
        return match rng.below(10) {
            0 => gen_string_literal(rng),
            1 => (*rng.pick(&["0", "1", "42", "9223372036854775807", "9223372036854775808"])).to_owned(),
            2 => (*rng.pick(&["true", "false"])).to_owned(),
            3 if !names.is_empty() => rng.pick(names).clone(),
            _ => (*rng.pick(&[
                "description",
                "commit_id",
                "change_id",
                "author",
                "self",
                "x",
                "_y",
                "bookmarks",
                "empty",
            ]))
            .to_owned(),
        };
    }
    let d = depth - 1;
    match rng.below(14) {
        0 => format!("!{}", gen_template(rng, d, names)),
        1 => format!("-{}", gen_template(rng, d, names)),
        2 => format!(
            "{} {} {}",
            gen_template(rng, d, names),
            rng.pick(&["||", "&&", "==", "!=", ">=", ">", "<=", "<", "+", "-", "*", "/", "%"]),
            gen_template(rng, d, names)
        ),
        3 | 4 => format!("{} ++ {}", gen_template(rng, d, names), gen_template(rng, d, names)),
        5 => format!("({})", gen_template(rng, d, names)),
        6 => format!(
            "{}.{}({})",
            gen_template(rng, d, names),
            rng.pick(&["short", "first_line", "len", "upper", "map", "join", "contains"]),
            if rng.bool() {
                gen_template(rng, d, names)
            } else {
                String::new()
            }
        ),
        7 => format!(
            "if({}, {}, {})",
            gen_template(rng, d, names),
            gen_template(rng, d, names),
            gen_template(rng, d, names)
        ),
        8 => format!(
            "{}({}, {})",
            rng.pick(&[
                "label",
                "concat",
                "separate",
                "coalesce",
                "indent",
                "fill",
                "pad_start",
                "truncate_end"
            ]),
            gen_template(rng, d, names),
            gen_template(rng, d, names)
        ),
        9 => format!(
            "|{}| {}",
            rng.pick(&["", "a", "a, b", "a, a", "a,", "true"]),
            gen_template(rng, d, names)
        ),
        10 => format!(
            "{}:{}",
            rng.pick(&["regex", "glob", "exact", "p", "glob-i"]),
            gen_template(rng, d, names)
        ),
        11 if !names.is_empty() => {
            let args: Vec<String> = (0..rng.below(3)).map(|_| gen_template(rng, d, names)).collect();
            format!("{}({})", rng.pick(names), args.join(", "))
        }
        12 => format!("{}(k={})", rng.pick(&["f", "label", "x"]), gen_template(rng, d, names)),
        _ => format!(
            "{}.map(|x| {})",
            gen_template(rng, d, names),
            gen_template(rng, d, names)
        ),
    }
}

fn gen_expression(rng: &mut Rng, family: &str, depth: usize, names: &[String]) -> String {
    match family {
        "revset" => gen_revset(rng, depth, names),
        "fileset" => gen_fileset(rng, depth, names),
        _ => gen_template(rng, depth, names),
    }
}

/// Random alias map: symbol, function (overloaded by arity) and pattern
/// aliases; names shadowing builtins and each other; definitions that refer to
/// other aliases, to themselves (recursion must be reported as an error), to
/// their parameters, or that do not parse. At most 6 definitions with at most
/// 3 references each, so expansion stays small.
fn gen_aliases(rng: &mut Rng, family: &str, corpus: &Corpus) -> (Vec<(String, String)>, Vec<String>) {
    let count = rng.range(1, 6);
    let base_names: &[&str] = match family {
        "revset" => &[
            "a",
            "b",
            "my",
            "all",
            "parents",
            "description",
            "root",
            "x",
            "trunk",
            "exact",
            "p",
        ],
        "fileset" => &["a", "b", "my", "all", "none", "file", "glob", "x", "p"],
        _ => &["a", "b", "my", "if", "label", "description", "x", "self", "regex", "p"],
    };
    let mut names: Vec<String> = vec![];
    let mut decls: Vec<(String, Vec<String>)> = vec![];
    for _ in 0..count {
        let name = (*rng.pick(base_names)).to_owned();
        let params: Vec<String> = match rng.below(5) {
            0 | 1 => vec![],
            2 => vec!["x".to_owned()],
            3 => vec!["x".to_owned(), "y".to_owned()],
            _ => vec!["a".to_owned()],
        };
        let decl = match rng.below(12) {
            0..=3 => name.clone(),
            4..=7 => format!("{name}({})", params.join(", ")),
            8 => format!("{name}:{}", params.first().cloned().unwrap_or("v".to_owned())),
            9 => format!("{name}({}", params.join(",")),
            10 => (*rng.pick(&[
                "", "f(x, x)", "é", "1a", "a.b", "f(a,)", "f( )", "a b", "f(a)(b)", "p:", ":x", "f(true)",
            ]))
            .to_owned(),
            _ => format!("{name}()"),
        };
        names.push(name);
        decls.push((decl, params));
    }
    names.sort();
    names.dedup();
    let mut out = vec![];
    for (decl, params) in decls {
        let mut scope = names.clone();
        scope.extend(params.clone());
        let defn = match rng.below(8) {
            0 => {
                let base = gen_expression(rng, family, 2, &scope);
                mutate(rng, corpus, &base, &scope)
            }
            1 => (*rng.pick(&["", "(", ")", "\"", "a |", "f(", "x x", "@@", "::::"])).to_owned(),
            2 if !params.is_empty() => params[0].clone(),
            _ => gen_expression(rng, family, 2, &scope),
        };
        // bound the number of alias references per definition
        let refs = tokenize(&defn).iter().filter(|t| names.contains(t)).count();
        let defn = if refs > 3 { names[0].clone() } else { defn };
        out.push((decl, defn));
    }
    (out, names)
}

fn gen_random_text(rng: &mut Rng) -> String {
    match rng.below(3) {
        0 => {
            let len = rng.below(48);
            let bytes: Vec<u8> = (0..len).map(|_| rng.below(256) as u8).collect();
            String::from_utf8_lossy(&bytes).into_owned()
        }
        1 => {
            let len = rng.below(32);
            (0..len)
                .map(|_| *rng.pick(OPERATOR_TOKENS))
                .collect::<Vec<_>>()
                .concat()
        }
        _ => gen_hostile_string(rng, 40),
    }
}

fn gen_parse_case(rng: &mut Rng, corpus: &Corpus) -> ParseCase {
    let parser = *rng.pick(&PARSERS);
    let family = parser_family(parser);
    let with_aliases = rng.chance(1, 3);
    let (aliases, names) = if with_aliases {
        gen_aliases(rng, family, corpus)
    } else {
        (vec![], vec![])
    };
    let mut origin;
    let mut text = String::new();
    for _attempt in 0..6 {
        (origin, text) = match rng.below(10) {
            0 => ("random_bytes", gen_random_text(rng)),
            1 | 2 => ("corpus", rng.pick(&corpus.entries).clone()),
            3..=5 => {
                let base = rng.pick(&corpus.entries[..]).clone();
                ("corpus_mutation", mutate(rng, corpus, &base, &names))
            }
            6 | 7 => {
                let depth = rng.range(1, 4);
                ("grammar", gen_expression(rng, family, depth, &names))
            }
            _ => {
                let depth = rng.range(1, 4);
                let base = gen_expression(rng, family, depth, &names);
                ("grammar_mutation", mutate(rng, corpus, &base, &names))
            }
        };
        if text.len() <= 800 && max_paren_depth(&text) <= 6 {
            let mut case = ParseCase::new(parser, text, origin);
            case.aliases = aliases;
            case.workspace = rng.chance(3, 4);
            if with_aliases {
                case.origin = format!("{origin}+aliases");
            }
            return case;
        }
    }
    let _ = text;
    let mut case = ParseCase::new(parser, "x".to_owned(), "fallback");
    case.aliases = aliases;
    case
}

// ---------------------------------------------------------------------------
// C36: nesting sweeps

#[derive(Clone, Copy, Debug)]
struct SweepClass {
    parser: &'static str,
    /// One of prefix_op|paren|function_call|infix_chain|string_concat|list|alias_expansion|other.
    construct: &'static str,
    /// What exactly is repeated (several variants may share a construct).
    variant: &'static str,
}

const SWEEP_CLASSES: &[SweepClass] = &[
    SweepClass {
        parser: "revset",
        construct: "prefix_op",
        variant: "~~~…x",
    },
    SweepClass {
        parser: "revset",
        construct: "paren",
        variant: "(((…x…)))",
    },
    SweepClass {
        parser: "revset",
        construct: "function_call",
        variant: "parents(parents(…x…))",
    },
    SweepClass {
        parser: "revset",
        construct: "infix_chain",
        variant: "x&x&…&x",
    },
    SweepClass {
        parser: "revset",
        construct: "list",
        variant: "x|x|…|x",
    },
    SweepClass {
        parser: "revset",
        construct: "list",
        variant: "coalesce(x,x,…,x)",
    },
    SweepClass {
        parser: "revset",
        construct: "other",
        variant: "x---…- (postfix operators)",
    },
    SweepClass {
        parser: "revset",
        construct: "other",
        variant: "exact:exact:…:x (nested patterns)",
    },
    SweepClass {
        parser: "revset",
        construct: "alias_expansion",
        variant: "a0=a1, a1=a2, …; parse a0",
    },
    SweepClass {
        parser: "fileset",
        construct: "prefix_op",
        variant: "~~~…x",
    },
    SweepClass {
        parser: "fileset",
        construct: "paren",
        variant: "(((…x…)))",
    },
    SweepClass {
        parser: "fileset",
        construct: "function_call",
        variant: "f(f(…x…))",
    },
    SweepClass {
        parser: "fileset",
        construct: "infix_chain",
        variant: "x&x&…&x",
    },
    SweepClass {
        parser: "fileset",
        construct: "list",
        variant: "x|x|…|x",
    },
    SweepClass {
        parser: "fileset",
        construct: "other",
        variant: "file:file:…:x (nested patterns)",
    },
    SweepClass {
        parser: "fileset",
        construct: "alias_expansion",
        variant: "a0=a1, a1=a2, …; parse a0",
    },
    SweepClass {
        parser: "template",
        construct: "prefix_op",
        variant: "!!!…x",
    },
    SweepClass {
        parser: "template",
        construct: "paren",
        variant: "(((…x…)))",
    },
    SweepClass {
        parser: "template",
        construct: "function_call",
        variant: "f(f(…x…))",
    },
    SweepClass {
        parser: "template",
        construct: "infix_chain",
        variant: "x+x+…+x",
    },
    SweepClass {
        parser: "template",
        construct: "string_concat",
        variant: "\"a\"++\"a\"++…",
    },
    SweepClass {
        parser: "template",
        construct: "list",
        variant: "f(x,x,…,x)",
    },
    SweepClass {
        parser: "template",
        construct: "other",
        variant: "x.f().f()… (method chain)",
    },
    SweepClass {
        parser: "template",
        construct: "other",
        variant: "|x| |x| … x (nested lambdas)",
    },
    SweepClass {
        parser: "template",
        construct: "other",
        variant: "p:p:…:x (nested patterns)",
    },
    SweepClass {
        parser: "template",
        construct: "alias_expansion",
        variant: "a0=a1, a1=a2, …; parse a0",
    },
];

fn sweep_case(class: &SweepClass, depth: usize) -> ParseCase {
    let n = depth;
    let nest = |open: &str, inner: &str, close: &str| format!("{}{inner}{}", open.repeat(n), close.repeat(n));
    let chain = |first: &str, more: &str| format!("{first}{}", more.repeat(n));
    let mut aliases = vec![];
    let text = match (class.construct, class.variant) {
        ("prefix_op", v) if v.starts_with('~') => nest("~", "x", ""),
        ("prefix_op", _) => nest("!", "x", ""),
        ("paren", _) => nest("(", "x", ")"),
        ("function_call", v) if v.starts_with("parents") => nest("parents(", "x", ")"),
        ("function_call", _) => nest("f(", "x", ")"),
        ("infix_chain", v) if v.starts_with("x+") => chain("x", "+x"),
        ("infix_chain", _) => chain("x", "&x"),
        ("string_concat", _) => chain("\"a\"", "++\"a\""),
        ("list", v) if v.starts_with("x|") => chain("x", "|x"),
        ("list", v) if v.starts_with("coalesce") => format!("coalesce(x{})", ",x".repeat(n)),
        ("list", _) => format!("f(x{})", ",x".repeat(n)),
        ("other", v) if v.starts_with("x---") => chain("x", "-"),
        ("other", v) if v.starts_with("exact:") => nest("exact:", "x", ""),
        ("other", v) if v.starts_with("file:") => nest("file:", "x", ""),
        ("other", v) if v.starts_with("p:") => nest("p:", "x", ""),
        ("other", v) if v.starts_with("x.f()") => chain("x", ".f()"),
        ("other", _) => nest("|x| ", "x", ""),
        ("alias_expansion", _) => {
            for i in 0..n {
                aliases.push((format!("a{i}"), format!("a{}", i + 1)));
            }
            "a0".to_owned()
        }
        (other, _) => unreachable!("unknown construct {other}"),
    };
    let mut case = ParseCase::new(
        class.parser,
        text,
        &format!("sweep:{}:{}", class.construct, class.variant),
    );
    case.aliases = aliases;
    case
}

#[derive(Clone, Debug)]
struct SweepResult {
    class: SweepClass,
    /// depth -> outcome label, in probing order
    probes: Vec<(usize, String)>,
    largest_non_overflowing: Option<(usize, String)>,
    smallest_overflowing: Option<usize>,
    overflow_detail: String,
    /// crashes that are not stack overflows, panics
    other_failures: Vec<(usize, Outcome)>,
}

fn outcome_label(outcome: &Outcome) -> &'static str {
    match outcome {
        Outcome::NotRun => "not_run",
        Outcome::Ok { .. } => "ok",
        Outcome::Err { .. } => "err",
        Outcome::Slow => "slow",
        Outcome::Panic { .. } => "panic",
        Outcome::StackOverflow { .. } => "stack_overflow",
        Outcome::Died { .. } => "died",
    }
}

fn run_sweep(ctx: &Ctx, class: &SweepClass, max_depth: usize, first_watchdog_ms: u64, exact: bool) -> SweepResult {
    let mut result = SweepResult {
        class: *class,
        probes: vec![],
        largest_non_overflowing: None,
        smallest_overflowing: None,
        overflow_detail: String::new(),
        other_failures: vec![],
    };
    let mut watchdog = first_watchdog_ms;
    let mut seen_slow = false;
    let probe = |result: &mut SweepResult, depth: usize, watchdog: u64| -> Outcome {
        let case = sweep_case(class, depth);
        let outcome = run_in_workers(ctx, std::slice::from_ref(&case), watchdog)
            .pop()
            .unwrap_or(Outcome::NotRun);
        result.probes.push((depth, outcome_label(&outcome).to_owned()));
        ctx.count(&format!("sweep_probe.{}", outcome_label(&outcome)));
        if matches!(outcome, Outcome::Ok { .. } | Outcome::Err { .. }) {
            ctx.case(stable_hash(&(class.parser, class.variant, depth)), true);
        }
        outcome
    };
    // Geometric sweep: all depths in one worker run, which stops at the first
    // depth that kills it.
    let mut depth = 4;
    let mut depths = vec![];
    while depth < max_depth {
        depths.push(depth);
        depth *= 4;
    }
    depths.push(max_depth);
    let sweep_cases: Vec<ParseCase> = depths.iter().map(|d| sweep_case(class, *d)).collect();
    let after_slow = 3000.min(first_watchdog_ms);
    let outcomes = run_in_workers_with(ctx, &sweep_cases, watchdog, after_slow, true);
    for (depth, outcome) in depths.iter().copied().zip(outcomes) {
        if outcome == Outcome::NotRun {
            continue;
        }
        result.probes.push((depth, outcome_label(&outcome).to_owned()));
        ctx.count(&format!("sweep_probe.{}", outcome_label(&outcome)));
        match &outcome {
            Outcome::Ok { .. } | Outcome::Err { .. } => {
                ctx.case(stable_hash(&(class.parser, class.variant, depth)), true);
                result.largest_non_overflowing = Some((depth, outcome_label(&outcome).to_owned()));
            }
            Outcome::Slow => {
                // No overflow within the watchdog; the rest is (exponential) time.
                result.largest_non_overflowing = Some((depth, "slow".to_owned()));
                seen_slow = true;
                watchdog = after_slow;
            }
            Outcome::StackOverflow { detail } => {
                result.smallest_overflowing = Some(depth);
                result.overflow_detail = detail.clone();
                break;
            }
            Outcome::Panic { .. } | Outcome::Died { .. } => {
                result.other_failures.push((depth, outcome.clone()));
                break;
            }
            Outcome::NotRun => break,
        }
    }
    // Bisect the boundary.
    if let (Some(mut hi), Some((mut lo, mut lo_label))) =
        (result.smallest_overflowing, result.largest_non_overflowing.clone())
    {
        let mut slow_steps = 0;
        let mut steps = 0;
        while hi - lo > 1 {
            // quick tier: bracket to within 1/8; thorough: exact unless the
            // non-overflowing probes are slow
            if (seen_slow && slow_steps >= 3) || (!exact && (hi - lo <= hi / 8 || steps >= 4)) {
                break;
            }
            steps += 1;
            let mid = lo + (hi - lo) / 2;
            let outcome = probe(&mut result, mid, watchdog);
            match &outcome {
                Outcome::StackOverflow { .. } => hi = mid,
                Outcome::Ok { .. } | Outcome::Err { .. } => {
                    lo = mid;
                    lo_label = outcome_label(&outcome).to_owned();
                }
                Outcome::Slow => {
                    lo = mid;
                    lo_label = "slow".to_owned();
                    seen_slow = true;
                    slow_steps += 1;
                    watchdog = after_slow;
                }
                Outcome::Panic { .. } | Outcome::Died { .. } => {
                    result.other_failures.push((mid, outcome.clone()));
                    break;
                }
                Outcome::NotRun => break,
            }
        }
        result.smallest_overflowing = Some(hi);
        result.largest_non_overflowing = Some((lo, lo_label));
    }
    result
}

// ---------------------------------------------------------------------------
// C36: classification and the engine

/// Construct that dominates a (random) input that overflowed the stack.
fn classify_overflow_construct(case: &ParseCase) -> &'static str {
    let tokens = tokenize(&case.text);
    let mut prefix_run = 0;
    let mut max_prefix_run = 0;
    let mut call_depth = 0usize;
    let mut paren_depth = 0usize;
    let mut max_call = 0;
    let mut max_paren = 0;
    let mut stack = vec![];
    let mut infix = 0;
    let mut concat = 0;
    let mut commas = 0;
    let mut prev: Option<&str> = None;
    for t in &tokens {
        let t = t.as_str();
        if matches!(t, "~" | "!" | "-") && prev.is_none_or(|p| matches!(p, "~" | "!" | "-" | "(" | "|" | "&" | ",")) {
            prefix_run += 1;
            max_prefix_run = max_prefix_run.max(prefix_run);
        } else if !t.trim().is_empty() {
            prefix_run = 0;
        }
        match t {
            "(" => {
                let is_call = prev.is_some_and(|p| p.chars().next().is_some_and(|c| c.is_alphanumeric() || c == '_'));
                stack.push(is_call);
                if is_call {
                    call_depth += 1;
                    max_call = max_call.max(call_depth);
                } else {
                    paren_depth += 1;
                    max_paren = max_paren.max(paren_depth);
                }
            }
            ")" => match stack.pop() {
                Some(true) => call_depth = call_depth.saturating_sub(1),
                Some(false) => paren_depth = paren_depth.saturating_sub(1),
                None => {}
            },
            "++" => concat += 1,
            "&" | "+" | "*" | "/" | "%" | "||" | "&&" | "==" | "!=" | ">=" | "<=" | ">" | "<" => infix += 1,
            "," => commas += 1,
            "|" if case.parser != "template" => commas += 1,
            _ => {}
        }
        if !t.trim().is_empty() {
            prev = Some(t);
        }
    }
    let candidates = [
        (max_prefix_run, "prefix_op"),
        (max_paren, "paren"),
        (max_call, "function_call"),
        (infix, "infix_chain"),
        (concat, "string_concat"),
        (commas, "list"),
    ];
    let (best, name) = candidates.iter().max_by_key(|(n, _)| *n).copied().unwrap();
    if best < 64 {
        if !case.aliases.is_empty() {
            "alias_expansion"
        } else {
            "other"
        }
    } else {
        name
    }
}

/// `panic.<parser>|<first line of the panic message>`, with the parts of the
/// message that quote the input (`…`, '…', "…") and numbers replaced by
/// placeholders so that one defect has one signature.
fn panic_signature_for(parser: &str, message: &str) -> String {
    let first_line = message.lines().next().unwrap_or("");
    let mut normalized = String::new();
    let mut chars = first_line.chars().peekable();
    while let Some(c) = chars.next() {
        if c == '`' || c == '"' || (c == '\'' && !normalized.ends_with(|p: char| p.is_alphanumeric())) {
            // quoted span (an apostrophe inside a word is not a quote)
            let rest: String = chars.clone().collect();
            if let Some(end) = rest.find(c) {
                for _ in 0..rest[..end].chars().count() + 1 {
                    chars.next();
                }
                normalized.push(c);
                normalized.push('…');
                normalized.push(c);
                continue;
            }
            normalized.push(c);
        } else if c.is_ascii_digit() {
            while chars.peek().is_some_and(|d| d.is_ascii_digit()) {
                chars.next();
            }
            normalized.push('N');
        } else {
            normalized.push(c);
        }
    }
    format!("panic.{}|{}", parser_family(parser), truncate(&normalized, 100))
}

#[derive(Default)]
struct C36Findings {
    /// signature -> (message, witness); first witness wins, smaller text preferred
    panics: BTreeMap<String, (String, Value, usize)>,
    /// random inputs that overflowed: signature -> case
    random_overflows: BTreeMap<String, Value>,
}

fn digest_outcome(ctx: &Ctx, findings: &Mutex<C36Findings>, case: &ParseCase, outcome: &Outcome) {
    let family = parser_family(&case.parser);
    let origin = case.origin.split(':').next().unwrap_or("");
    match outcome {
        Outcome::Ok { accepted_aliases } | Outcome::Err { accepted_aliases } => {
            let label = outcome_label(outcome);
            ctx.count(&format!("{label}.{}", case.parser));
            ctx.count(&format!("origin.{origin}.{label}"));
            if !case.aliases.is_empty() {
                ctx.count_n("alias_declarations_offered", case.aliases.len() as u64);
                ctx.count_n("alias_declarations_accepted", *accepted_aliases as u64);
                ctx.count(&format!("with_aliases.{label}"));
            }
            ctx.case(stable_hash(case), !case.text.is_empty());
        }
        Outcome::Slow => {
            ctx.count("slow_excluded_from_verdict");
            ctx.count(&format!("slow.{}", case.parser));
        }
        Outcome::Panic {
            location,
            message,
            harness,
        } => {
            if *harness {
                ctx.inconclusive(&format!(
                    "harness panic in worker at {location}: {}",
                    truncate(message, 200)
                ));
                return;
            }
            let signature = panic_signature_for(&case.parser, message);
            let mut findings = findings.lock().unwrap();
            let size = case.text.len() + case.aliases.iter().map(|(a, b)| a.len() + b.len()).sum::<usize>();
            let better = findings.panics.get(&signature).is_none_or(|(_, _, s)| size < *s);
            if better {
                findings.panics.insert(
                    signature,
                    (
                        format!("{family} parser panicked at {location}: {message}"),
                        json!({"case": case.to_json(), "describe": case.describe(), "panic_location": location, "panic_message": message}),
                        size,
                    ),
                );
            }
            ctx.count("panics_observed");
        }
        Outcome::StackOverflow { detail } => {
            let construct = classify_overflow_construct(case);
            // Generated inputs are at most 800 bytes with nesting <= 6 and at
            // most 6 aliases: an overflow there is unbounded recursion (e.g.
            // alias recursion not reported as an error), not a missing depth
            // limit, so it must not share a signature with the sweep classes.
            let small = case.text.len() <= 1000 && case.aliases.len() <= 8;
            let signature = if small {
                format!("panic.{family}|stack overflow on a small input ({construct})")
            } else {
                format!("stack_overflow.{family}.{construct}")
            };
            findings
                .lock()
                .unwrap()
                .random_overflows
                .entry(signature)
                .or_insert_with(|| json!({"case": case.to_json(), "describe": case.describe(), "detail": detail}));
            ctx.count("stack_overflows_on_random_inputs");
        }
        Outcome::Died { detail } => {
            let signature = format!("crash.{family}|{}", truncate(detail.lines().last().unwrap_or(""), 80));
            let mut findings = findings.lock().unwrap();
            findings.panics.entry(signature).or_insert_with(|| {
                (
                    format!("worker died while parsing a {family} expression: {detail}"),
                    json!({"case": case.to_json(), "describe": case.describe(), "detail": detail}),
                    0,
                )
            });
            ctx.count("worker_deaths_observed");
        }
        Outcome::NotRun => {
            ctx.count("not_run");
        }
    }
}

enum C36Job {
    Sweep(usize),
    Batch(u64),
}

pub fn run_c36(ctx: &Ctx) -> i32 {
    // Worker mode.
    if let Some(pos) = ctx.args.extra.iter().position(|a| a == "--worker") {
        let file = ctx.args.extra.get(pos + 1).cloned().unwrap_or_default();
        let from = ctx
            .args
            .extra
            .iter()
            .position(|a| a == "--from")
            .and_then(|p| ctx.args.extra.get(p + 1))
            .and_then(|s| s.parse().ok())
            .unwrap_or(0);
        let watchdog_override = ctx
            .args
            .extra
            .iter()
            .position(|a| a == "--watchdog-ms")
            .and_then(|p| ctx.args.extra.get(p + 1))
            .and_then(|s| s.parse().ok());
        return c36_worker(&file, from, watchdog_override);
    }
    ctx.set_rule(
        "case = (parser ∈ revset::parse | fileset::parse | fileset::parse_maybe_bare | \
         template_parser::parse, input text, alias map given as (declaration, definition) strings, \
         workspace context on/off). Inputs: random bytes (lossily decoded: the APIs take &str), operator \
         soup and hostile unicode; every code span / code block of docs/{revsets,filesets,templates}.md \
         and every string of cli/src/config/*.toml verbatim; 1-4 token-level mutations of those \
         (replace/delete/duplicate/swap/insert tokens, wrap in parentheses or calls, hostile string \
         bodies, splices, truncation, multi-byte characters inside tokens, operator runs, keyword \
         arguments); expressions generated from a small grammar of each language and their mutations; a \
         third of the cases with a random alias map (symbol/function/pattern aliases, overloads, builtin \
         shadowing, self- and mutually recursive, unparsable definitions and declarations). Parenthesis / \
         call nesting of random inputs is capped at 6. Nesting sweeps per (parser, construct) at depths \
         4,16,…,16384 (thorough: …,65536,100000) with bisection of the first overflowing depth. Every parse runs in a worker \
         subprocess on a thread with an 8 MiB stack; Ok and Err are both fine; panic, abort and stack \
         overflow are violations; a parse exceeding the watchdog (CPU time of the parse thread) is 'slow' (counted, no verdict). \
         NON-TRIVIAL: non-empty input for which the worker returned Ok or Err. DISTINCT: by (parser, text, \
         aliases, workspace flag), sweeps by (parser, construct variant, depth).",
    );
    ctx.assume(
        "slow parses (exponential backtracking on nested parentheses / calls in the revset grammar) are \
         outside the statement: counted, never a verdict",
    );
    let tier = ctx.tier();
    let findings = Mutex::new(C36Findings::default());

    // Replay of one saved case.
    if let Some(path) = &ctx.args.replay {
        let doc: Value = std::fs::read_to_string(path)
            .ok()
            .and_then(|t| serde_json::from_str(&t).ok())
            .unwrap_or(Value::Null);
        let Some(case) = ParseCase::from_json(&doc["witness"]["case"]) else {
            ctx.inconclusive("replay file has no case");
            return ctx.finish(0);
        };
        let outcome = run_in_workers(ctx, std::slice::from_ref(&case), 60_000)
            .pop()
            .unwrap_or(Outcome::NotRun);
        println!("replayed: {}", outcome_label(&outcome));
        digest_outcome(ctx, &findings, &case, &outcome);
        ctx.case(1, true);
        ctx.case(2, true);
        report_c36(ctx, findings.into_inner().unwrap(), &[]);
        return ctx.finish(0);
    }

    let corpus = harvest_corpus(ctx);
    ctx.count_n("corpus_entries_from_repo", corpus.from_repo as u64);
    ctx.count_n("corpus_entries_total", corpus.entries.len() as u64);
    if corpus.from_repo < 100 {
        ctx.inconclusive(&format!(
            "only {} corpus entries could be harvested from the repository docs/config (root {:?})",
            corpus.from_repo,
            repo_root()
        ));
    }

    let batches: u64 = tier.pick(64, 1280);
    let batch_size: usize = tier.pick(700, 2500);
    // CPU milliseconds of the parse thread.
    let case_watchdog_ms: u64 = tier.pick(3_000, 15_000);
    let sweep_watchdog_ms: u64 = tier.pick(5_000, 60_000);
    let max_depth = tier.pick(16_384, 100_000);

    // Development aid: VERIF_C36_ONLY=sweeps|batches
    let only = std::env::var("VERIF_C36_ONLY").unwrap_or_default();
    let mut jobs: Vec<C36Job> = vec![];
    if only != "batches" {
        jobs.extend((0..SWEEP_CLASSES.len()).map(C36Job::Sweep));
    }
    if only != "sweeps" {
        jobs.extend((0..batches).map(C36Job::Batch));
    }
    // Corpus entries verbatim, every parser (deterministic part).
    let verbatim: Vec<ParseCase> = corpus
        .entries
        .iter()
        .flat_map(|e| {
            PARSERS
                .iter()
                .map(move |p| ParseCase::new(p, e.clone(), "corpus_verbatim"))
        })
        .collect();
    let verbatim_chunks: Vec<&[ParseCase]> = verbatim.chunks(1000).collect();

    let next = std::sync::atomic::AtomicUsize::new(0);
    let total_jobs = jobs.len() + verbatim_chunks.len();
    let sweep_results: Mutex<Vec<SweepResult>> = Mutex::new(vec![]);
    std::thread::scope(|scope| {
        for _ in 0..threads().min(total_jobs).max(1) {
            scope.spawn(|| {
                loop {
                    let j = next.fetch_add(1, std::sync::atomic::Ordering::SeqCst);
                    if j >= total_jobs {
                        break;
                    }
                    if j >= jobs.len() {
                        let chunk = verbatim_chunks[j - jobs.len()];
                        let outcomes = run_in_workers(ctx, chunk, case_watchdog_ms);
                        for (case, outcome) in chunk.iter().zip(&outcomes) {
                            digest_outcome(ctx, &findings, case, outcome);
                        }
                        continue;
                    }
                    match jobs[j] {
                        C36Job::Sweep(k) => {
                            let result = run_sweep(
                                ctx,
                                &SWEEP_CLASSES[k],
                                max_depth,
                                sweep_watchdog_ms,
                                tier == Tier::Thorough,
                            );
                            sweep_results.lock().unwrap().push(result);
                        }
                        C36Job::Batch(b) => {
                            let mut rng = Rng::new(case_seed(ctx.seed(), "C36", b));
                            let cases: Vec<ParseCase> =
                                (0..batch_size).map(|_| gen_parse_case(&mut rng, &corpus)).collect();
                            let outcomes = run_in_workers(ctx, &cases, case_watchdog_ms);
                            for (case, outcome) in cases.iter().zip(&outcomes) {
                                digest_outcome(ctx, &findings, case, outcome);
                                if matches!(outcome, Outcome::Ok { .. }) && case.origin.contains("mutation") {
                                    ctx.sample(|| case.describe());
                                }
                            }
                        }
                    }
                }
            });
        }
    });
    let mut sweep_results = sweep_results.into_inner().unwrap();
    sweep_results.sort_by_key(|r| (r.class.parser, r.class.construct, r.class.variant));
    report_c36(ctx, findings.into_inner().unwrap(), &sweep_results);
    ctx.finish(tier.pick(5_000, 100_000))
}

fn report_c36(ctx: &Ctx, findings: C36Findings, sweeps: &[SweepResult]) {
    // Panics and other crashes first (so that they get replay files).
    for (signature, (message, witness, _)) in &findings.panics {
        ctx.violation(signature, message, witness.clone());
    }
    for sweep in sweeps {
        for (depth, outcome) in &sweep.other_failures {
            let case = sweep_case(&sweep.class, *depth);
            match outcome {
                Outcome::Panic {
                    location,
                    message,
                    harness: false,
                } => ctx.violation(
                    &panic_signature_for(sweep.class.parser, message),
                    &format!(
                        "{} parser panicked at {location} on {} at depth {depth}: {message}",
                        sweep.class.parser, sweep.class.variant
                    ),
                    json!({"case": case.to_json(), "describe": case.describe(), "depth": depth}),
                ),
                Outcome::Panic { location, message, .. } => {
                    ctx.inconclusive(&format!(
                        "harness panic in worker at {location}: {}",
                        truncate(message, 200)
                    ));
                }
                Outcome::Died { detail } => ctx.violation(
                    &format!(
                        "crash.{}|{}",
                        sweep.class.parser,
                        truncate(detail.lines().last().unwrap_or(""), 80)
                    ),
                    &format!("worker died parsing {} at depth {depth}: {detail}", sweep.class.variant),
                    json!({"case": case.to_json(), "describe": case.describe(), "depth": depth}),
                ),
                _ => {}
            }
        }
    }
    // Stack-overflow classes: one violation per signature, variants listed.
    let mut classes: BTreeMap<String, Vec<Value>> = BTreeMap::new();
    let mut sweep_evidence = vec![];
    for sweep in sweeps {
        let key = format!(
            "{}.{} [{}]",
            sweep.class.parser, sweep.class.construct, sweep.class.variant
        );
        sweep_evidence.push(json!({
            "class": key,
            "probes": sweep.probes.iter().map(|(d, o)| format!("{d}:{o}")).collect::<Vec<_>>(),
            "largest_non_overflowing_depth": sweep.largest_non_overflowing.as_ref().map(|(d, _)| *d),
            "largest_non_overflowing_outcome": sweep.largest_non_overflowing.as_ref().map(|(_, o)| o.clone()),
            "smallest_overflowing_depth": sweep.smallest_overflowing,
        }));
        if let Some(depth) = sweep.smallest_overflowing {
            let signature = format!("stack_overflow.{}.{}", sweep.class.parser, sweep.class.construct);
            let example = sweep_case(&sweep.class, depth);
            classes.entry(signature).or_default().push(json!({
                "variant": sweep.class.variant,
                "smallest_overflowing_depth": depth,
                "largest_non_overflowing_depth": sweep.largest_non_overflowing.as_ref().map(|(d, _)| *d),
                "largest_non_overflowing_outcome": sweep.largest_non_overflowing.as_ref().map(|(_, o)| o.clone()),
                "input_shape": truncate(&example.text, 60),
                "alias_count": example.aliases.len(),
                "worker": sweep.overflow_detail,
                "replay_case": if example.text.len() + example.aliases.len() * 16 <= 300_000 { example.to_json() } else { Value::Null },
            }));
        }
    }
    for (signature, witness) in &findings.random_overflows {
        if signature.starts_with("panic.") {
            ctx.violation(
                signature,
                &format!("stack overflow while parsing a small input: {}", witness["describe"]),
                witness.clone(),
            );
        } else {
            classes
                .entry(signature.clone())
                .or_default()
                .push(json!({"variant": "random input", "witness": witness}));
        }
    }
    ctx.set_extra("nesting_sweeps", json!(sweep_evidence));
    let classes_evidence: BTreeMap<&String, Vec<Value>> = classes
        .iter()
        .map(|(k, variants)| {
            let slim = variants
                .iter()
                .map(|v| {
                    let mut v = v.clone();
                    if let Some(map) = v.as_object_mut() {
                        map.remove("replay_case");
                    }
                    v
                })
                .collect();
            (k, slim)
        })
        .collect();
    ctx.set_extra("stack_overflow_classes", json!(classes_evidence));
    for (signature, variants) in &classes {
        let summary: Vec<String> = variants
            .iter()
            .map(|v| {
                format!(
                    "{}: overflows at depth {} (largest non-overflowing depth {} [{}])",
                    v["variant"].as_str().unwrap_or("?"),
                    v["smallest_overflowing_depth"],
                    v["largest_non_overflowing_depth"],
                    v["largest_non_overflowing_outcome"].as_str().unwrap_or("?")
                )
            })
            .collect();
        // The replay case of the first variant (if small enough) makes the file replayable.
        let case = variants
            .iter()
            .map(|v| &v["replay_case"])
            .find(|c| !c.is_null())
            .cloned()
            .or_else(|| {
                variants
                    .iter()
                    .map(|v| v["witness"]["case"].clone())
                    .find(|c| !c.is_null())
            })
            .unwrap_or(Value::Null);
        let slim: Vec<Value> = variants
            .iter()
            .map(|v| {
                let mut v = v.clone();
                if let Some(map) = v.as_object_mut() {
                    map.remove("replay_case");
                }
                v
            })
            .collect();
        ctx.violation(
            signature,
            &format!(
                "the parser has no recursion limit: thread with an 8 MiB stack overflowed ({})",
                summary.join("; ")
            ),
            json!({"case": case, "variants": slim}),
        );
    }
}
