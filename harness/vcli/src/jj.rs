//! The real `jj` CLI, built with the verification hooks compiled in.
use jj_cli::cli_util::CliRunner;

fn main() -> std::process::ExitCode {
    CliRunner::init().version("0.0.0-verif").run().into()
}
