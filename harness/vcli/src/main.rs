fn dispatch(ctx: &vlib::common::Ctx) -> Option<i32> {
    // Engines that need jj-cli as a library live here; everything else
    // (including the CLI-driver engines, which only need the `jj` binary that
    // is built together with this one) is served by vlib.
    vlib::dispatch(ctx)
}

fn main() {
    vlib::main_with(dispatch)
}
