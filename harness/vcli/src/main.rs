fn dispatch(_ctx: &vlib::common::Ctx) -> Option<i32> {
    None
}

fn main() {
    vlib::main_with(dispatch)
}
