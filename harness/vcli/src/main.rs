mod p_parsers;

fn dispatch(ctx: &vlib::common::Ctx) -> Option<i32> {
    // Engines that need jj-cli as a library live here; everything else
    // (including the CLI-driver engines, which only need the `jj` binary that
    // is built together with this one) is served by vlib.
    match ctx.prop() {
        "C35" => Some(p_parsers::run_c35(ctx)),
        "C36" => Some(p_parsers::run_c36(ctx)),
        "C44" => Some(p_parsers::run_c44(ctx)),
        _ => vlib::dispatch(ctx),
    }
}

fn main() {
    vlib::main_with(dispatch)
}
