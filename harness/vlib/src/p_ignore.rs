//! C28 (ignore rules behave like Git's) and C43 (per-repo configuration
//! cannot be injected by a copied repository).
//!
//! # C28
//! Reference: `git check-ignore --no-index --stdin -z -v -n`, ONE invocation
//! per generated tree (git 2.39), on paths that all exist on disk (git decides
//! "is a directory" by lstat; a trailing slash would make git treat a *file* as
//! a directory, so paths are passed without one). The work tree's `.git` is
//! what `git init` creates minus templates/config (saves a process per tree).
//! jj's answer is computed exactly the way the snapshot walker uses
//! `GitIgnoreFile`: base chain = core.excludesFile then `.git/info/exclude`
//! (the CLI's order), `chain_with_file(dir, dir/.gitignore)` per directory; a
//! path is ignored if an ancestor directory is matched by `matches_dir` on the
//! chain of *its* parent (then nothing below is looked at), otherwise by
//! `matches_file` / `matches_dir` on the path itself. A tenth of the cases also
//! snapshot the same tree in a real `TestWorkspace` and compare the tracked
//! files with `git ls-files -o --exclude-standard`.
//!
//! Every disagreement is minimised: each applicable ignore line alone, then
//! each ordered pair of lines anchored at one directory, is put into a fresh
//! work tree as the only `.gitignore` and asked of git and jj again. The clause
//! signature is `git_differs.<form>` where `<form>` is the most specific
//! exotic pattern form (list `EXOTIC`) of the witness lines, or
//! `git_differs.plain_patterns`; a disagreement without such a witness is
//! `git_differs.stack` (this is what a defect in jj's own chaining shows as),
//! except that it may be attributed to one of the two forms with an
//! established witness (`ATTRIBUTABLE`) when blanking the lines of that form
//! makes it disappear. A snapshot that differs from git where the API agreed
//! is `snapshot.tracks_exactly_unignored_files`.
//!
//! Known on the unchanged tree (matcher = `gix-ignore` 0.22 / `gix-glob` 0.27):
//! * `git_differs.negated_dollar`: a line starting with `!$` is dropped by
//!   gix-ignore ("precious" syntax reservation), git negates the pattern `$…`.
//!   Witness: `*` + `!$v`, file `$v`: git not ignored, jj ignored.
//! * `git_differs.literal_prefix_globstar_slash`: `<literal>**/rest` where the
//!   `**` is the first wildcard and is glued to a literal. git 2.39 compares
//!   the literal prefix separately and hands `**/rest` to wildmatch, where the
//!   now leading `**/` also matches "nothing"; gix treats `a**` as `a*`.
//!   Witness: `/a**/**`, directory `ab` (or file `a`): git ignored, jj not.
//!
//! # C43
//! Model of repo directories (create / cp -r / rename / delete / read-only
//! copy) and of config ownership; an independent walk of the whole scratch
//! tree before and after every load. Enforced (see `check_c43_case`):
//! * a returned config file is lexically `<root>/<20 hex digits>/config.toml`;
//! * a load writes nothing outside the config root and the loaded repo dir;
//! * a writable copy whose original still sits where it last loaded its config
//!   gets a fresh config dir with the same content, the original's dir is
//!   untouched;
//! * the holder of a config that was moved keeps its dir; same repo, same dir;
//! * no two live writable repos resolve to the same config file.
//! Weaker than DESIGN on purpose: a malformed id file is only required never to
//! select an *existing* config (an error or a fresh config both satisfy
//! "chosen only by a well-formed id"); a copy loaded after its original moved
//! away is indistinguishable from a move and is not judged; a read-only copy
//! (loaded under an unprivileged fsuid, since the harness runs as root) is
//! only observed, the statement is about writable copies.

use std::collections::BTreeMap;
use std::collections::BTreeSet;
use std::collections::HashMap;
use std::io::Read as _;
use std::path::Component;
use std::path::Path;
use std::path::PathBuf;
use std::process::Command;
use std::process::Stdio;
use std::sync::Arc;
use std::time::Duration;
use std::time::Instant;

use jj_lib::gitignore::GitIgnoreFile;
use jj_lib::repo_path::RepoPath;
use jj_lib::repo_path::RepoPathBuf;
use jj_lib::secure_config::SecureConfig;
use jj_lib::working_copy::SnapshotOptions;
use rand_chacha::ChaCha20Rng;
use rand_chacha::rand_core::SeedableRng as _;
use serde_json::Value;
use serde_json::json;
use testutils::TestWorkspace;

use crate::common::*;
use crate::ensure;

// ===========================================================================
// C28
// ===========================================================================

/// Path components. Small pool so that patterns derived from one path also hit
/// others; includes every character that is special in an ignore file.
/// (No leading ':' – that is pathspec magic for `git check-ignore`.)
const NAMES: &[&str] = &[
    "a", "b", "ab", "ba", "abc", "o", "a.o", "b.o", "foo", "bar", "foo.txt", "x y", "z ", " lead",
    "#h", "!n", "$v", "st*r", "q?", "[x]", "b\\s", "A", "é", ".hid", "a]", "-", "~t", "a.b.o",
];

#[derive(Clone, Debug, Default, Hash)]
struct IgnoreTree {
    /// Directories (workspace relative, no trailing slash), all materialised.
    dirs: BTreeSet<String>,
    files: BTreeSet<String>,
    /// Content of the global excludes file (core.excludesFile), if any.
    global: Option<Vec<u8>>,
    /// Content of `.git/info/exclude`, if any.
    info: Option<Vec<u8>>,
    /// directory ("" = root) -> content of its `.gitignore`.
    ignores: BTreeMap<String, Vec<u8>>,
}

fn join(dir: &str, name: &str) -> String {
    if dir.is_empty() { name.to_owned() } else { format!("{dir}/{name}") }
}

fn parent_of(path: &str) -> &str {
    path.rsplit_once('/').map_or("", |(p, _)| p)
}

fn gen_dir(rng: &mut Rng, t: &mut IgnoreTree, dir: &str, depth: usize, budget: &mut usize) {
    let n = if depth == 0 { rng.range(3, 7) } else { rng.range(1, 4) };
    let mut used: BTreeSet<&str> = BTreeSet::new();
    for _ in 0..n {
        if *budget == 0 {
            return;
        }
        let name = *rng.pick(NAMES);
        if !used.insert(name) {
            continue;
        }
        *budget -= 1;
        let path = join(dir, name);
        if depth < 3 && rng.chance(2, 5) {
            t.dirs.insert(path.clone());
            gen_dir(rng, t, &path, depth + 1, budget);
        } else {
            t.files.insert(path);
        }
    }
}

/// Characters that are special somewhere in an ignore line.
fn is_special(c: char) -> bool {
    matches!(c, '*' | '?' | '[' | ']' | '\\' | '!' | '#' | ' ' | '$')
}

fn globify_component(rng: &mut Rng, comp: &str) -> String {
    let chars: Vec<char> = comp.chars().collect();
    let escape_specials = rng.bool();
    let lit = |c: char| -> String {
        if is_special(c) && escape_specials { format!("\\{c}") } else { c.to_string() }
    };
    match rng.below(14) {
        0 => "*".to_owned(),
        1 => {
            // `*.ext` / `*suffix`
            let cut = comp
                .rfind('.')
                .unwrap_or_else(|| comp.char_indices().last().map_or(0, |(i, _)| i));
            format!("*{}", comp[cut..].chars().map(lit).collect::<String>())
        }
        2 => {
            // `prefix*`
            let k = rng.range(0, chars.len());
            format!("{}*", chars[..k].iter().map(|c| lit(*c)).collect::<String>())
        }
        3 | 4 | 5 => {
            // replace one char by `?`, a bracket expression or an escape
            let k = rng.below(chars.len());
            let c = chars[k];
            let repl = match rng.below(10) {
                0 | 1 => "?".to_owned(),
                2 => format!("[{}]", if c == ']' || c == '\\' { format!("\\{c}") } else { c.to_string() }),
                3 => format!("[{}z]", if c == ']' || c == '\\' || c == '!' || c == '^' { format!("\\{c}") } else { c.to_string() }),
                4 => "[!z]".to_owned(),
                5 => "[^z]".to_owned(),
                6 if c.is_ascii_lowercase() => "[a-z]".to_owned(),
                6 => "[!a-z]".to_owned(),
                7 if c.is_ascii_alphabetic() => "[[:alpha:]]".to_owned(),
                7 => "[[:punct:][:space:]]".to_owned(),
                8 => format!("\\{c}"),
                _ => "[]-z]".to_owned(),
            };
            let mut s = String::new();
            for (i, ch) in chars.iter().enumerate() {
                if i == k {
                    s.push_str(&repl);
                } else {
                    s.push_str(&lit(*ch));
                }
            }
            s
        }
        6 => {
            // `a**b` – two stars that are not a whole component
            let k = rng.range(0, chars.len());
            format!(
                "{}**{}",
                chars[..k].iter().map(|c| lit(*c)).collect::<String>(),
                chars[k..].iter().skip(1).map(|c| lit(*c)).collect::<String>()
            )
        }
        _ => chars.iter().map(|c| lit(*c)).collect(),
    }
}

const WEIRD: &[&str] = &[
    "\\", "foo\\", "!", "/", "//", "**", "*", "/*", "!/*", "a//b", "***", "a**b", "[", "[a", "[]", "[]a]",
    "[a-]", "[z-a]", "!*", "*/", "**/", "/**", "!!a", "\\!n", "\\#h", " ", "\\ ", "a/", "./a", "../a",
    "a/./b", "a/../b", "?", "??", "*.*", ".*", "[[:alpha:]]", "[[:digit:]]*", "[[:bogus:]]", "[a-c]b",
    "foo/**/bar", "**/foo/**", "foo/*/", "*/foo", "!$v", "\\$v", "$v", "!\\$v", "a/**", "**/a", "/**/a",
    "a/**/", "*o", "*.o", "!*.o", "/a", "a", "!a", "/*/", "*/*", "!*/", "\\a", "a\\", "!#h", "# c", "\t",
    "a\t", "[!a]", "[^a]*", "[a-z]*", "?*", "*?", "[\\]]", "a\\]", "a]", "é", "[é]", "\\é", "x\\ y", "z\\ ",
    "z ", "z  ", "z\\  ", " lead", "**o", "a**", "**/", "/**/", "a/**/b/**/o", "**/**", "**/**/a",
];

/// One line of an ignore file. `targets` are existing paths relative to the
/// directory of the ignore file.
fn gen_line(rng: &mut Rng, targets: &[String]) -> String {
    match rng.weighted(&[1, 1, 4, 14]) {
        0 => "# comment *".to_owned(),
        1 => String::new(),
        2 => (*rng.pick(WEIRD)).to_owned(),
        _ => {
            let target = if targets.is_empty() || rng.chance(1, 8) {
                let n = rng.range(1, 3);
                (0..n).map(|_| *rng.pick(NAMES)).collect::<Vec<_>>().join("/")
            } else {
                rng.pick(targets).clone()
            };
            let comps: Vec<&str> = target.split('/').collect();
            // which components of the target the pattern names
            let (lo, hi) = match rng.below(6) {
                0 | 1 => (comps.len() - 1, comps.len()),
                2 => (0, comps.len()),
                3 => (comps.len().saturating_sub(2), comps.len()),
                4 => (0, 1),
                _ => {
                    let lo = rng.below(comps.len());
                    (lo, rng.range(lo + 1, comps.len()))
                }
            };
            let mut out: Vec<String> = vec![];
            for c in &comps[lo..hi] {
                if rng.chance(1, 2) {
                    out.push(globify_component(rng, c));
                } else {
                    // Literal, specials escaped half of the time.
                    let esc = rng.bool();
                    out.push(
                        c.chars()
                            .map(|ch| if is_special(ch) && esc { format!("\\{ch}") } else { ch.to_string() })
                            .collect(),
                    );
                }
            }
            if out.len() > 1 && rng.chance(1, 6) {
                let k = rng.below(out.len());
                out[k] = "**".to_owned();
            }
            let mut s = out.join("/");
            match rng.below(12) {
                0 | 1 | 2 => s = format!("/{s}"),
                3 => s = format!("**/{s}"),
                4 if lo > 0 => s = format!("{}/{s}", comps[..lo].join("/")),
                _ => {}
            }
            match rng.below(14) {
                0 | 1 | 2 => s.push('/'),
                3 => s.push_str("/**"),
                4 => s.push_str("/*"),
                _ => {}
            }
            if rng.chance(1, 5) {
                s = format!("!{s}");
            }
            match rng.below(30) {
                0 | 1 => s.push_str("  "),
                2 => s.push_str("\\ "),
                3 => s.push('\t'),
                4 => s.push_str(" \\ "),
                _ => {}
            }
            s
        }
    }
}

fn gen_ignore_file(rng: &mut Rng, t: &IgnoreTree, dir: &str, max_lines: usize) -> Vec<u8> {
    let prefix = if dir.is_empty() { String::new() } else { format!("{dir}/") };
    let targets: Vec<String> = t
        .files
        .iter()
        .chain(t.dirs.iter())
        .filter_map(|p| p.strip_prefix(&prefix).map(|s| s.to_owned()))
        .filter(|p| !p.is_empty())
        .collect();
    let n = rng.range(1, max_lines);
    let mut lines: Vec<String> = (0..n).map(|_| gen_line(rng, &targets)).collect();
    // Ignore-everything followed by re-includes is the classic negation stack.
    if rng.chance(1, 8) {
        lines.insert(0, (*rng.pick(&["*", "/*", "*/", "**", "/**"])).to_owned());
    }
    let eol = if rng.chance(1, 15) { "\r\n" } else { "\n" };
    let mut text = lines.join(eol);
    if rng.chance(5, 6) {
        text.push_str(eol);
    }
    let mut bytes = vec![];
    if rng.chance(1, 25) {
        bytes.extend_from_slice(b"\xef\xbb\xbf");
    }
    bytes.extend_from_slice(text.as_bytes());
    bytes
}

fn gen_ignore_tree(rng: &mut Rng, single: bool) -> IgnoreTree {
    let mut t = IgnoreTree::default();
    let mut budget = if single { 14 } else { 36 };
    gen_dir(rng, &mut t, "", 0, &mut budget);
    if single {
        // One short root .gitignore: witnesses are minimal by construction.
        let content = gen_ignore_file(rng, &t, "", 2);
        t.ignores.insert(String::new(), content);
        return t;
    }
    if rng.chance(1, 2) {
        t.global = Some(gen_ignore_file(rng, &t, "", 4));
    }
    if rng.chance(1, 3) {
        t.info = Some(gen_ignore_file(rng, &t, "", 3));
    }
    if rng.chance(5, 6) {
        let content = gen_ignore_file(rng, &t, "", 6);
        t.ignores.insert(String::new(), content);
    }
    let dirs: Vec<String> = t.dirs.iter().cloned().collect();
    for d in dirs {
        if rng.chance(1, 3) {
            let content = gen_ignore_file(rng, &t, &d, 4);
            t.ignores.insert(d, content);
        }
    }
    t
}

fn describe_tree(t: &IgnoreTree) -> Value {
    let s = |b: &Vec<u8>| String::from_utf8_lossy(b).into_owned();
    json!({
        "dirs": t.dirs, "files": t.files,
        "global_excludes": t.global.as_ref().map(s),
        "info_exclude": t.info.as_ref().map(s),
        "gitignores": t.ignores.iter().map(|(d, c)| (d.clone(), json!(s(c)))).collect::<serde_json::Map<_, _>>(),
    })
}

// ---------------------------------------------------------------------------
// git side

struct GitOut {
    code: Option<i32>,
    stdout: Vec<u8>,
    stderr: String,
    timed_out: bool,
}

fn run_git(cwd: &Path, args: &[&str], stdin: &[u8], home: &Path) -> GitOut {
    let stdin_path = home.join(format!("stdin-{}", args.len()));
    std::fs::write(&stdin_path, stdin).unwrap();
    let mut cmd = Command::new("git");
    cmd.current_dir(cwd)
        .args(args)
        .env("HOME", home)
        .env("XDG_CONFIG_HOME", home.join("xdg-none"))
        .env_remove("GIT_DIR")
        .env_remove("GIT_WORK_TREE")
        .stdin(Stdio::from(std::fs::File::open(&stdin_path).unwrap()))
        .stdout(Stdio::piped())
        .stderr(Stdio::piped());
    let mut child = match cmd.spawn() {
        Ok(c) => c,
        Err(e) => {
            return GitOut { code: None, stdout: vec![], stderr: format!("spawn failed: {e}"), timed_out: false };
        }
    };
    let mut so = child.stdout.take().unwrap();
    let mut se = child.stderr.take().unwrap();
    let t1 = std::thread::spawn(move || {
        let mut b = vec![];
        so.read_to_end(&mut b).ok();
        b
    });
    let t2 = std::thread::spawn(move || {
        let mut b = vec![];
        se.read_to_end(&mut b).ok();
        b
    });
    let start = Instant::now();
    let mut timed_out = false;
    let status = loop {
        match child.try_wait() {
            Ok(Some(s)) => break Some(s),
            Ok(None) => {}
            Err(_) => break None,
        }
        if start.elapsed() > Duration::from_secs(120) {
            timed_out = true;
            child.kill().ok();
            break child.wait().ok();
        }
        std::thread::sleep(Duration::from_millis(1));
    };
    GitOut {
        code: status.and_then(|s| s.code()),
        stdout: t1.join().unwrap_or_default(),
        stderr: String::from_utf8_lossy(&t2.join().unwrap_or_default()).into_owned(),
        timed_out,
    }
}

/// What `git init` creates, minus templates, hooks and config (none of which
/// influence ignore rules): saves one process per tree. `.git/info/exclude`
/// does not exist unless the case writes it.
fn init_git_dir(root: &Path) -> Result<(), String> {
    let git = root.join(".git");
    for d in ["objects", "refs/heads", "info"] {
        std::fs::create_dir_all(git.join(d)).map_err(|e| format!("creating .git/{d}: {e}"))?;
    }
    std::fs::write(git.join("HEAD"), b"ref: refs/heads/master\n").map_err(|e| format!("writing .git/HEAD: {e}"))
}

/// Writes the tree below `root` (which exists) and initialises a git repo.
/// Returns the path of the global excludes file (may not exist).
fn materialise(t: &IgnoreTree, root: &Path, home: &Path) -> Result<PathBuf, String> {
    for d in &t.dirs {
        std::fs::create_dir_all(root.join(d)).map_err(|e| format!("mkdir {d:?}: {e}"))?;
    }
    for f in &t.files {
        std::fs::write(root.join(f), b"x\n").map_err(|e| format!("write {f:?}: {e}"))?;
    }
    for (d, content) in &t.ignores {
        std::fs::write(root.join(d).join(".gitignore"), content).map_err(|e| format!("write ignore in {d:?}: {e}"))?;
    }
    init_git_dir(root)?;
    let info = root.join(".git").join("info");
    match &t.info {
        Some(content) => std::fs::write(info.join("exclude"), content).map_err(|e| e.to_string())?,
        None => {
            std::fs::remove_file(info.join("exclude")).ok();
        }
    }
    let excludes = home.join("global-excludes");
    if let Some(content) = &t.global {
        std::fs::write(&excludes, content).map_err(|e| e.to_string())?;
    }
    Ok(excludes)
}

#[derive(Clone, Debug)]
struct GitVerdict {
    ignored: bool,
    /// `source:line:pattern` of the deciding pattern ("" if none).
    by: String,
    pattern: String,
}

/// `git check-ignore --no-index --stdin -z -v -n` over `paths`.
fn git_check_ignore(root: &Path, home: &Path, excludes: &Path, paths: &[String]) -> Result<HashMap<String, GitVerdict>, String> {
    let mut stdin = vec![];
    for p in paths {
        stdin.extend_from_slice(p.as_bytes());
        stdin.push(0);
    }
    let cfg = format!("core.excludesFile={}", excludes.display());
    let out = run_git(
        root,
        &["-c", &cfg, "-c", "core.ignoreCase=false", "check-ignore", "--no-index", "--stdin", "-z", "-v", "-n"],
        &stdin,
        home,
    );
    if out.timed_out || !matches!(out.code, Some(0) | Some(1)) {
        return Err(format!("git check-ignore failed: code={:?} timed_out={} stderr={}", out.code, out.timed_out, truncate(&out.stderr, 300)));
    }
    let mut fields: Vec<&[u8]> = out.stdout.split(|b| *b == 0).collect();
    if fields.last().is_some_and(|f| f.is_empty()) {
        fields.pop();
    }
    if fields.len() != paths.len() * 4 {
        return Err(format!("git check-ignore printed {} fields for {} paths", fields.len(), paths.len()));
    }
    let mut map = HashMap::new();
    for rec in fields.chunks(4) {
        let s = |b: &[u8]| String::from_utf8_lossy(b).into_owned();
        let pattern = s(rec[2]);
        let path = s(rec[3]);
        // check-ignore.c prints `!` + pattern + (`/` if directory-only); a
        // non-negative pattern can never start with `!` (an escaped `\!`
        // keeps its backslash), so this decides the polarity.
        let ignored = !pattern.is_empty() && !pattern.starts_with('!');
        let by = if pattern.is_empty() { String::new() } else { format!("{}:{}:{}", s(rec[0]), s(rec[1]), pattern) };
        map.insert(path, GitVerdict { ignored, by, pattern });
    }
    if map.len() != paths.iter().collect::<BTreeSet<_>>().len() {
        return Err("git check-ignore output does not cover the input paths".to_owned());
    }
    Ok(map)
}

/// Plain `git check-ignore --no-index --stdin -z`: the set of ignored paths.
fn git_check_ignore_plain(root: &Path, home: &Path, excludes: &Path, paths: &[String]) -> Result<BTreeSet<String>, String> {
    let mut stdin = vec![];
    for p in paths {
        stdin.extend_from_slice(p.as_bytes());
        stdin.push(0);
    }
    let cfg = format!("core.excludesFile={}", excludes.display());
    let out = run_git(root, &["-c", &cfg, "-c", "core.ignoreCase=false", "check-ignore", "--no-index", "--stdin", "-z"], &stdin, home);
    if out.timed_out || !matches!(out.code, Some(0) | Some(1)) {
        return Err(format!("git check-ignore (plain) failed: code={:?} stderr={}", out.code, truncate(&out.stderr, 300)));
    }
    Ok(out
        .stdout
        .split(|b| *b == 0)
        .filter(|f| !f.is_empty())
        .map(|f| String::from_utf8_lossy(f).into_owned())
        .collect())
}

// ---------------------------------------------------------------------------
// jj side: exactly the walker's use of the API.

fn rp(s: &str) -> RepoPathBuf {
    RepoPathBuf::from_internal_string(s).unwrap()
}

struct JjIgnores {
    /// dir -> chain including that directory's own `.gitignore`; `None` when
    /// the directory (or an ancestor) is ignored as a directory.
    chains: HashMap<String, Option<Arc<GitIgnoreFile>>>,
}

impl JjIgnores {
    fn build(base: Arc<GitIgnoreFile>, root: &Path, dirs: &BTreeSet<String>) -> Result<Self, String> {
        let mut chains: HashMap<String, Option<Arc<GitIgnoreFile>>> = HashMap::new();
        let root_chain = base
            .chain_with_file(RepoPath::root(), root.join(".gitignore"))
            .map_err(|e| format!("chain_with_file(root): {e}"))?;
        chains.insert(String::new(), Some(root_chain));
        // BTreeSet order puts a parent before its children.
        for d in dirs {
            let parent = parent_of(d);
            let chain = match chains.get(parent).cloned().flatten() {
                None => None,
                Some(pc) => {
                    let path = rp(d);
                    if pc.matches_dir(&path) {
                        None
                    } else {
                        Some(
                            pc.chain_with_file(&path, root.join(d).join(".gitignore"))
                                .map_err(|e| format!("chain_with_file({d:?}): {e}"))?,
                        )
                    }
                }
            };
            chains.insert(d.clone(), chain);
        }
        Ok(Self { chains })
    }

    fn ignored(&self, path: &str, is_dir: bool) -> bool {
        match self.chains.get(parent_of(path)).cloned().flatten() {
            None => true,
            Some(chain) => {
                if is_dir { chain.matches_dir(&rp(path)) } else { chain.matches_file(&rp(path)) }
            }
        }
    }
}

fn base_ignores(excludes: &Path, root: &Path) -> Result<Arc<GitIgnoreFile>, String> {
    // Same order as the CLI: core.excludesFile, then .git/info/exclude.
    GitIgnoreFile::empty()
        .chain_with_file(RepoPath::root(), excludes.to_owned())
        .and_then(|c| c.chain_with_file(RepoPath::root(), root.join(".git").join("info").join("exclude")))
        .map_err(|e| format!("base ignores: {e}"))
}

// ---------------------------------------------------------------------------
// Pattern features (evidence counters and divergence classes)

fn line_features(line: &str) -> Vec<&'static str> {
    let mut f = vec![];
    let mut s = line;
    if let Some(rest) = s.strip_prefix('\u{feff}') {
        f.push("bom");
        s = rest;
    }
    if let Some(rest) = s.strip_suffix('\r') {
        f.push("cr");
        s = rest;
    }
    if s.is_empty() {
        return vec!["blank"];
    }
    if s.starts_with('#') {
        return vec!["comment"];
    }
    // trailing spaces
    let trimmed = s.trim_end_matches(' ');
    if trimmed.len() != s.len() {
        let backslashes = trimmed.len() - trimmed.trim_end_matches('\\').len();
        if backslashes % 2 == 1 {
            f.push("escaped_trailing_space");
            if s.len() - trimmed.len() > 1 {
                f.push("trailing_space");
            }
            s = &s[..trimmed.len() + 1];
        } else {
            f.push("trailing_space");
            s = trimmed;
        }
    }
    if let Some(rest) = s.strip_prefix('!') {
        f.push("negation");
        s = rest;
        if s.starts_with('$') {
            f.push("negated_dollar");
        }
    }
    if s.is_empty() || s == "/" {
        f.push("empty_pattern");
        return f;
    }
    if s.starts_with("\\!") || s.starts_with("\\#") {
        f.push("escaped_leading_bang_or_hash");
    }
    if s.starts_with('/') {
        f.push("anchored");
    }
    if s.ends_with('/') {
        f.push("dir_only");
    }
    let body = s.trim_start_matches('/').trim_end_matches('/');
    if body.contains("//") || s.starts_with("//") || s.ends_with("//") {
        f.push("double_slash");
    }
    if body.contains('/') {
        f.push("inner_slash");
    }
    if body.split('/').any(|c| c == "." || c == "..") {
        f.push("dot_component");
    }
    // backslashes
    {
        let b = body.as_bytes();
        let mut i = 0;
        let mut esc = false;
        let mut trailing = false;
        while i < b.len() {
            if b[i] == b'\\' {
                if i + 1 == b.len() {
                    trailing = true;
                } else {
                    esc = true;
                }
                i += 2;
            } else {
                i += 1;
            }
        }
        if trailing {
            f.push("trailing_backslash");
        }
        if esc {
            f.push("escape");
        }
    }
    // brackets
    if let Some(open) = body.find('[') {
        let rest = &body[open + 1..];
        let after_neg = rest.strip_prefix(['!', '^']).unwrap_or(rest);
        if after_neg.len() != rest.len() {
            f.push("bracket_negated");
        }
        // a `]` right after `[` / `[!` is literal
        let search_from = if after_neg.starts_with(']') { 1 } else { 0 };
        match after_neg[search_from..].find(']') {
            None => f.push("bracket_unclosed"),
            Some(_) => f.push("bracket"),
        }
        if rest.contains("[:") {
            f.push("posix_class");
        }
        if after_neg.chars().skip(1).any(|c| c == '-') {
            f.push("bracket_range");
        }
    } else if body.contains(']') {
        f.push("stray_rbracket");
    }
    // stars
    if let Some(pos) = body.find(['*', '?', '[', '\\'])
        && pos > 0
        && !body[..pos].ends_with('/')
    {
        // first wildcard is a run of two or more stars glued to a literal
        // prefix and followed by a slash: `ab**/x`, `ab***/x`
        let stars = body[pos..].bytes().take_while(|b| *b == b'*').count();
        if stars >= 2 && body[pos + stars..].starts_with('/') {
            f.push("literal_prefix_globstar_slash");
        }
    }
    if body.contains("**") {
        let whole = body.split('/').all(|c| !c.contains("**") || c == "**");
        f.push(if whole { "globstar" } else { "globstar_inner" });
    }
    if body.replace("**", "").contains('*') || body.split('/').any(|c| c == "*") {
        f.push("star");
    }
    if body.contains('?') {
        f.push("question");
    }
    if body.contains('\t') {
        f.push("tab");
    }
    if !body.is_ascii() {
        f.push("non_ascii");
    }
    if body.contains('$') {
        f.push("dollar");
    }
    if !body.contains(['*', '?', '[', '\\']) {
        f.push("literal");
    }
    f
}

/// Pattern forms whose handling lives entirely in the matcher library; a
/// divergence reproduced by ONE line of this form in isolation gets its own
/// signature. Ordered: the first present feature names the class.
const EXOTIC: &[&str] = &[
    "negated_dollar",
    "literal_prefix_globstar_slash",
    "trailing_backslash",
    "bracket_unclosed",
    "posix_class",
    "bracket_negated",
    "bracket_range",
    "bracket",
    "stray_rbracket",
    "globstar_inner",
    "double_slash",
    "dot_component",
    "empty_pattern",
    "escaped_trailing_space",
    "tab",
    "trailing_space",
    "cr",
    "bom",
    "escaped_leading_bang_or_hash",
    "escape",
    "globstar",
];

/// Forms for which a one-/two-line witness against git 2.39 has been
/// established (see the engine report); only these may absorb a stack-level
/// disagreement through `attribute_by_knock_out`. Everything else that cannot
/// be reproduced in isolation stays `git_differs.stack`.
const ATTRIBUTABLE: &[&str] = &["negated_dollar", "literal_prefix_globstar_slash"];

fn divergence_class(lines: &[&str]) -> String {
    let f: Vec<&'static str> = lines.iter().flat_map(|l| line_features(l)).collect();
    for e in EXOTIC {
        if f.contains(e) {
            return format!("git_differs.{e}");
        }
    }
    "git_differs.plain_patterns".to_owned()
}

/// jj's cumulative answer for `rel` under a single root ignore file `content`.
fn jj_single(content: &[u8], rel: &str, is_dir: bool) -> bool {
    let Ok(chain) = GitIgnoreFile::empty().chain(RepoPath::root(), Path::new(".gitignore"), content) else {
        return false;
    };
    let comps: Vec<&str> = rel.split('/').collect();
    for k in 1..comps.len() {
        if chain.matches_dir(&rp(&comps[..k].join("/"))) {
            return true;
        }
    }
    if is_dir { chain.matches_dir(&rp(rel)) } else { chain.matches_file(&rp(rel)) }
}

#[derive(Debug)]
struct Minimal {
    class: String,
    /// One or two ignore lines (one `.gitignore`, in this order).
    lines: Vec<String>,
    path: String,
    is_dir: bool,
    git: bool,
    jj: bool,
}

/// Splits ignore file content into its non-blank lines (BOM / CR kept).
fn content_lines(content: &[u8]) -> Vec<Vec<u8>> {
    content
        .split(|b| *b == b'\n')
        .enumerate()
        .filter(|(n, raw)| !(raw.is_empty() || *raw == b"\r" || (*n > 0 && raw.starts_with(b"\xef\xbb\xbf"))))
        .map(|(_, raw)| raw.to_vec())
        .collect()
}

/// Tries to reproduce the disagreement on `path` in isolation: a fresh git
/// work tree whose only ignore file is a `.gitignore` made of ONE line of an
/// applicable ignore file (path taken relative to that file), or failing that
/// of TWO lines (in precedence order) of the ignore files of one directory.
fn minimise(t: &IgnoreTree, path: &str, is_dir: bool, scratch: &Path) -> Result<Option<Minimal>, String> {
    // directory -> lines of all sources anchored there, lowest precedence first
    let mut groups: Vec<(String, Vec<Vec<u8>>)> = vec![];
    let mut root_lines: Vec<Vec<u8>> = vec![];
    for c in t.global.iter().chain(t.info.iter()).chain(t.ignores.get("").into_iter()) {
        // A BOM is only special at the start of a file; keep it only there.
        root_lines.extend(content_lines(c));
    }
    groups.push((String::new(), root_lines));
    let comps: Vec<&str> = path.split('/').collect();
    let mut dir = String::new();
    for c in &comps[..comps.len() - 1] {
        dir = join(&dir, c);
        if let Some(content) = t.ignores.get(&dir) {
            groups.push((dir.clone(), content_lines(content)));
        }
    }
    struct Mini {
        content: Vec<u8>,
        lines: Vec<String>,
        rel: String,
    }
    let text = |b: &[u8]| String::from_utf8_lossy(b).into_owned();
    let mut minis: Vec<Mini> = vec![];
    for (d, lines) in &groups {
        let rel = if d.is_empty() { path.to_owned() } else { path[d.len() + 1..].to_owned() };
        for l in lines {
            let mut content = l.clone();
            content.push(b'\n');
            minis.push(Mini { content, lines: vec![text(l)], rel: rel.clone() });
        }
    }
    for (d, lines) in &groups {
        let rel = if d.is_empty() { path.to_owned() } else { path[d.len() + 1..].to_owned() };
        for i in 0..lines.len() {
            for j in i + 1..lines.len() {
                // A BOM that started its own file is consumed there; it must not
                // become part of a pattern in the middle of the combined file.
                let second = lines[j].strip_prefix(b"\xef\xbb\xbf".as_slice()).unwrap_or(&lines[j]);
                let mut content = lines[i].clone();
                content.push(b'\n');
                content.extend_from_slice(second);
                content.push(b'\n');
                minis.push(Mini { content, lines: vec![text(&lines[i]), text(second)], rel: rel.clone() });
            }
        }
    }
    if minis.is_empty() {
        return Ok(None);
    }
    let mini_dir = tempfile::Builder::new().prefix("mini-").tempdir_in(scratch).map_err(|e| e.to_string())?;
    let root = mini_dir.path().join("wt");
    let home = mini_dir.path().join("home");
    std::fs::create_dir_all(&root).map_err(|e| e.to_string())?;
    std::fs::create_dir_all(&home).map_err(|e| e.to_string())?;
    let mut queries: Vec<String> = vec![];
    for (i, m) in minis.iter().enumerate() {
        let base = root.join(format!("m{i}"));
        let full = base.join(&m.rel);
        if is_dir {
            std::fs::create_dir_all(&full).map_err(|e| e.to_string())?;
        } else {
            std::fs::create_dir_all(full.parent().unwrap()).map_err(|e| e.to_string())?;
            std::fs::write(&full, b"x").map_err(|e| e.to_string())?;
        }
        std::fs::write(base.join(".gitignore"), &m.content).map_err(|e| e.to_string())?;
        let comps: Vec<&str> = m.rel.split('/').collect();
        for k in 1..=comps.len() {
            queries.push(format!("m{i}/{}", comps[..k].join("/")));
        }
    }
    init_git_dir(&root)?;
    let ignored = git_check_ignore_plain(&root, &home, &home.join("no-excludes"), &queries)?;
    // Singles come first, so a one-line witness wins over a two-line one.
    for (i, m) in minis.iter().enumerate() {
        let comps: Vec<&str> = m.rel.split('/').collect();
        for k in 1..=comps.len() {
            let q = comps[..k].join("/");
            let q_is_dir = k < comps.len() || is_dir;
            let git = ignored.contains(&format!("m{i}/{q}"));
            let jj = jj_single(&m.content, &q, q_is_dir);
            if git != jj {
                let refs: Vec<&str> = m.lines.iter().map(|l| l.as_str()).collect();
                return Ok(Some(Minimal {
                    class: divergence_class(&refs),
                    lines: m.lines.clone(),
                    path: q,
                    is_dir: q_is_dir,
                    git,
                    jj,
                }));
            }
        }
    }
    Ok(None)
}

/// Blanks every line with feature `feature` in an ignore file (line numbers
/// and the other lines stay as they are).
fn knock_out(content: &[u8], feature: &str) -> (Vec<u8>, usize) {
    let mut removed = 0;
    let lines: Vec<Vec<u8>> = content
        .split(|b| *b == b'\n')
        .map(|raw| {
            let text = String::from_utf8_lossy(raw);
            if line_features(&text).contains(&feature) {
                removed += 1;
                // keep a BOM / CR so that the rest of the file parses as before
                let mut keep = vec![];
                if raw.starts_with(b"\xef\xbb\xbf") {
                    keep.extend_from_slice(b"\xef\xbb\xbf");
                }
                if raw.ends_with(b"\r") {
                    keep.push(b'\r');
                }
                keep
            } else {
                raw.to_vec()
            }
        })
        .collect();
    (lines.join(&b'\n'), removed)
}

/// Last resort attribution when no one- or two-line witness exists: if the
/// disagreement on `path` disappears when all lines of ONE exotic pattern form
/// are blanked in the whole stack, that form is necessary for it. Returns the
/// form and the lines that were blanked.
fn attribute_by_knock_out(t: &IgnoreTree, path: &str, is_dir: bool, scratch: &Path) -> Result<Option<(&'static str, Vec<String>)>, String> {
    for feature in ATTRIBUTABLE {
        let mut t2 = t.clone();
        let mut removed = 0;
        let mut blanked: Vec<String> = vec![];
        let mut apply = |c: &mut Vec<u8>| {
            for l in String::from_utf8_lossy(c).split('\n') {
                if line_features(l).contains(feature) {
                    blanked.push(l.to_owned());
                }
            }
            let (nc, n) = knock_out(c, feature);
            *c = nc;
            removed += n;
        };
        if let Some(c) = t2.global.as_mut() {
            apply(c);
        }
        if let Some(c) = t2.info.as_mut() {
            apply(c);
        }
        for c in t2.ignores.values_mut() {
            apply(c);
        }
        if removed == 0 {
            continue;
        }
        let dir = tempfile::Builder::new().prefix("ko-").tempdir_in(scratch).map_err(|e| e.to_string())?;
        let root = dir.path().join("wt");
        let home = dir.path().join("home");
        std::fs::create_dir_all(&root).map_err(|e| e.to_string())?;
        std::fs::create_dir_all(&home).map_err(|e| e.to_string())?;
        let excludes = materialise(&t2, &root, &home)?;
        let git = git_check_ignore_plain(&root, &home, &excludes, &[path.to_owned()])?.contains(path);
        let jj = JjIgnores::build(base_ignores(&excludes, &root)?, &root, &t2.dirs)?.ignored(path, is_dir);
        if git == jj {
            return Ok(Some((feature, blanked)));
        }
    }
    Ok(None)
}

/// End to end: a real snapshot of the same tree tracks exactly the files
/// `git ls-files -o --exclude-standard` lists.
fn snapshot_tracked(ws: &mut TestWorkspace, base: Arc<GitIgnoreFile>) -> Result<BTreeSet<String>, String> {
    let options = SnapshotOptions { base_ignores: base, ..testutils::empty_snapshot_options() };
    let (tree, _stats) = ws.snapshot_with_options(&options).map_err(|e| format!("snapshot failed: {e}"))?;
    let mut tracked = BTreeSet::new();
    for (path, _value) in tree.entries() {
        tracked.insert(path.as_internal_file_string().to_owned());
    }
    Ok(tracked)
}

fn git_untracked_unignored(root: &Path, home: &Path, excludes: &Path) -> Result<BTreeSet<String>, String> {
    let cfg = format!("core.excludesFile={}", excludes.display());
    let out = run_git(
        root,
        &["-c", &cfg, "-c", "core.ignoreCase=false", "-c", "core.quotePath=false", "ls-files", "-o", "--exclude-standard", "-z"],
        b"",
        home,
    );
    if out.timed_out || out.code != Some(0) {
        return Err(format!("git ls-files failed: code={:?} stderr={}", out.code, truncate(&out.stderr, 300)));
    }
    Ok(out
        .stdout
        .split(|b| *b == 0)
        .filter(|f| !f.is_empty())
        .map(|f| String::from_utf8_lossy(f).into_owned())
        .filter(|p| !p.starts_with(".jj/"))
        .collect())
}

/// `VERIF_C28_EXPLORE=1`: count divergence classes and print the first
/// witnesses instead of reporting violations (debugging aid).
fn explore() -> bool {
    std::env::var_os("VERIF_C28_EXPLORE").is_some()
}

#[derive(Default)]
struct C28Stats {
    paths: u64,
    git_ignored: u64,
    git_not_ignored: u64,
    mismatches: u64,
    decided_by: Vec<&'static str>,
    e2e_files: u64,
}

fn check_c28_case(ctx: &Ctx, index: u64, cs: u64, t: &IgnoreTree, e2e: bool, stats: &mut C28Stats) -> Result<(), String> {
    let t_start = Instant::now();
    let scratch = tempfile::Builder::new().prefix("c28-").tempdir().map_err(|e| e.to_string())?;
    let home = scratch.path().join("home");
    std::fs::create_dir_all(&home).map_err(|e| e.to_string())?;
    let mut ws = if e2e { Some(TestWorkspace::init()) } else { None };
    let root: PathBuf = match &ws {
        Some(ws) => ws.workspace.workspace_root().to_owned(),
        None => {
            let r = scratch.path().join("wt");
            std::fs::create_dir_all(&r).map_err(|e| e.to_string())?;
            r
        }
    };
    let t0 = Instant::now();
    let excludes = materialise(t, &root, &home)?;
    let mut paths: Vec<String> = t.files.iter().cloned().collect();
    paths.extend(t.dirs.iter().cloned());
    let t1 = Instant::now();
    let git = git_check_ignore(&root, &home, &excludes, &paths)?;
    let t2 = Instant::now();
    let base = base_ignores(&excludes, &root)?;
    let jj = JjIgnores::build(base.clone(), &root, &t.dirs)?;
    ctx.count_n("wall_us_setup", (t0 - t_start).as_micros() as u64);
    ctx.count_n("wall_us_materialise", (t1 - t0).as_micros() as u64);
    ctx.count_n("wall_us_git_check_ignore", (t2 - t1).as_micros() as u64);
    ctx.count_n("wall_us_jj_chain_build", t2.elapsed().as_micros() as u64);

    let mut reported: BTreeSet<String> = BTreeSet::new();
    let mut api_mismatch: BTreeSet<String> = BTreeSet::new();
    for p in &paths {
        let is_dir = t.dirs.contains(p);
        let g = git.get(p).ok_or_else(|| format!("git printed no record for {p:?}"))?;
        let j = jj.ignored(p, is_dir);
        stats.paths += 1;
        if g.ignored {
            stats.git_ignored += 1;
        } else {
            stats.git_not_ignored += 1;
        }
        if !g.pattern.is_empty() {
            stats.decided_by.extend(line_features(&g.pattern));
        }
        if g.ignored == j {
            continue;
        }
        stats.mismatches += 1;
        api_mismatch.insert(p.clone());
        if reported.len() >= 4 {
            continue;
        }
        // Confirm git's verdict with the plain output mode before reporting.
        let plain = git_check_ignore_plain(&root, &home, &excludes, std::slice::from_ref(p))?;
        if plain.contains(p) != g.ignored {
            return Err(format!("git check-ignore -v and plain mode disagree on {p:?}"));
        }
        let mini = minimise(t, p, is_dir, scratch.path())?;
        let knocked = if mini.is_none() { attribute_by_knock_out(t, p, is_dir, scratch.path())? } else { None };
        let (signature, message, witness) = match &mini {
            Some(m) => (
                m.class.clone(),
                format!(
                    ".gitignore lines {:?}, {} {:?}: git ignored={} jj ignored={} (seen in a stack at {:?}, git decided by {:?})",
                    m.lines,
                    if m.is_dir { "directory" } else { "file" },
                    m.path,
                    m.git,
                    m.jj,
                    p,
                    g.by
                ),
                json!({"gitignore_lines": m.lines, "path": m.path, "is_dir": m.is_dir, "git_ignored": m.git, "jj_ignored": m.jj}),
            ),
            None if knocked.is_some() => {
                let (feature, blanked) = knocked.as_ref().unwrap();
                (
                    format!("git_differs.{feature}"),
                    format!(
                        "{} {:?}: git ignored={} (by {:?}) jj ignored={}; no one- or two-line witness, but the difference disappears when the {} line(s) {:?} are blanked",
                        if is_dir { "directory" } else { "file" },
                        p,
                        g.ignored,
                        g.by,
                        j,
                        feature,
                        blanked
                    ),
                    json!({"path": p, "is_dir": is_dir, "git_ignored": g.ignored, "git_by": g.by, "jj_ignored": j, "necessary_lines": blanked}),
                )
            }
            None => (
                "git_differs.stack".to_owned(),
                format!(
                    "{} {:?}: git ignored={} (by {:?}) jj ignored={}; not reproducible with one or two lines in isolation",
                    if is_dir { "directory" } else { "file" },
                    p,
                    g.ignored,
                    g.by,
                    j
                ),
                json!({"path": p, "is_dir": is_dir, "git_ignored": g.ignored, "git_by": g.by, "jj_ignored": j}),
            ),
        };
        if explore() {
            ctx.count(&format!("explore_{signature}"));
            if reported.insert(signature.clone()) && ctx.counter(&format!("explore_{signature}")) <= 6 {
                println!("EXPLORE {signature}: {message}");
            }
            continue;
        }
        if reported.insert(signature.clone()) {
            ctx.violation(
                &signature,
                &format!("clause {signature}: {message}"),
                json!({"case_index": index, "case_seed": cs, "minimal": witness, "case": describe_tree(t)}),
            );
        }
    }

    if let Some(ws) = ws.as_mut() {
        let tracked = snapshot_tracked(ws, base)?;
        let reference = git_untracked_unignored(&root, &home, &excludes)?;
        stats.e2e_files += reference.len() as u64;
        for p in tracked.symmetric_difference(&reference) {
            // A path on which the API already disagrees with git (itself or an
            // ancestor directory) has been reported above under its own class.
            let explained = api_mismatch.iter().any(|m| p == m || p.starts_with(&format!("{m}/")));
            if explained {
                continue;
            }
            // `git ls-files` and `git check-ignore` are both git; if they
            // disagree with each other the reference is ambiguous (counted).
            let check_ignore_says = git.get(p).map(|g| g.ignored);
            let ls_files_says_ignored = !reference.contains(p);
            if check_ignore_says.is_some_and(|c| c != ls_files_says_ignored) {
                ctx.count("e2e_git_status_vs_check_ignore_disagree");
                continue;
            }
            let signature = "snapshot.tracks_exactly_unignored_files";
            if reported.insert(signature.to_owned()) {
                ctx.violation(
                    signature,
                    &format!(
                        "clause {signature}: {p:?} tracked by snapshot={} listed by git ls-files -o --exclude-standard={}",
                        tracked.contains(p),
                        reference.contains(p)
                    ),
                    json!({"case_index": index, "case_seed": cs, "path": p, "case": describe_tree(t)}),
                );
            }
        }
    }
    Ok(())
}

pub fn run_c28(ctx: &Ctx) -> i32 {
    ctx.set_rule(
        "random trees (<=36 entries, depth<=4, names from a 28-name pool containing every character that \
         is special in an ignore file) with random ignore stacks: core.excludesFile, .git/info/exclude, root \
         and nested .gitignore; lines derived from existing paths (basename / full / partial path; *, ?, \
         [set], [!set], [a-z], [[:class:]], **, a**b, escapes; leading /, **/; trailing /, /**, /*; !; \
         trailing/escaped spaces, tab) plus a fixed list of 90 odd lines, comments, blanks, CRLF, BOM, \
         missing final newline. 1/3 of the cases are 'single' (one root .gitignore of <=2 lines). Every \
         file and directory is materialised and asked of `git check-ignore --no-index --stdin -z -v -n` \
         (one invocation per tree) and of GitIgnoreFile used like the snapshot walker. 1/10 of the cases \
         also snapshot the tree in a real workspace and compare with `git ls-files -o --exclude-standard`. \
         Non-trivial: git ignores at least one path and does not ignore at least one. Distinct: by tree + \
         ignore file contents.",
    );
    ctx.assume("reference is git 2.39 `check-ignore --no-index` on paths that exist on disk (directories are recognised by lstat)");
    ctx.assume("path names never start with ':' (pathspec magic of check-ignore) and are valid UTF-8; no symlinks, no nested repositories");
    ctx.assume("core.ignoreCase=false");
    let n = ctx.tier().pick(600, 120_000);
    par_cases(ctx, n, threads(), |i, cs, rng| {
        let single = rng.chance(1, 3);
        let e2e = rng.chance(1, 10);
        let t = gen_ignore_tree(rng, single);
        let mut stats = C28Stats::default();
        let mut harness_error: Option<String> = None;
        run_case(ctx, i, cs, || describe_tree(&t), || {
            if let Err(e) = check_c28_case(ctx, i, cs, &t, e2e, &mut stats) {
                harness_error = Some(e);
            }
            Ok(())
        });
        if let Some(e) = harness_error {
            ctx.inconclusive(&format!("case {i} (seed {cs}): {e}"));
            return;
        }
        let nontrivial = stats.git_ignored > 0 && stats.git_not_ignored > 0;
        ctx.case(stable_hash(&t), nontrivial);
        ctx.count_n("paths_compared", stats.paths);
        ctx.count_n("paths_git_ignored", stats.git_ignored);
        ctx.count_n("paths_git_not_ignored", stats.git_not_ignored);
        ctx.count_n("paths_differing", stats.mismatches);
        ctx.count(if single { "cases_single" } else { "cases_stack" });
        if e2e {
            ctx.count("cases_end_to_end_snapshot");
            ctx.count_n("end_to_end_files_tracked_reference", stats.e2e_files);
        }
        if t.global.is_some() {
            ctx.count("stack_has_global_excludes");
        }
        if t.info.is_some() {
            ctx.count("stack_has_info_exclude");
        }
        if t.ignores.keys().any(|d| !d.is_empty()) {
            ctx.count("stack_has_nested_gitignore");
        }
        for f in &stats.decided_by {
            ctx.count(&format!("decided_by_{f}"));
        }
        for content in t.ignores.values().chain(t.global.iter()).chain(t.info.iter()) {
            for line in String::from_utf8_lossy(content).split('\n') {
                for f in line_features(line) {
                    ctx.count(&format!("line_{f}"));
                }
            }
        }
        if nontrivial && !single {
            ctx.sample(|| json!({"tree": describe_tree(&t), "git_ignored": stats.git_ignored, "git_not_ignored": stats.git_not_ignored}));
        }
    });
    ctx.finish(150)
}

// ===========================================================================
// C43
// ===========================================================================

#[derive(Clone, Debug, Hash)]
enum IdContent {
    /// A fresh well-formed id nobody has a config for.
    FreshValid(String),
    /// The id of a config that currently exists (index into the known ids, modulo).
    Existing(usize),
    Raw(Vec<u8>),
}

#[derive(Clone, Debug, Hash)]
enum Op {
    Create,
    WriteId { repo: usize, content: IdContent },
    WriteLegacy { repo: usize, content: String },
    RemoveId { repo: usize },
    Copy { repo: usize, read_only: bool },
    Move { repo: usize },
    Delete { repo: usize },
    /// Writes distinctive content to the config file last returned for the repo.
    EditConfig { repo: usize },
    /// Deletes the per-repo config directory last returned for the repo.
    DropConfigDir { repo: usize },
    Load { repo: usize, maybe: bool, twice: bool },
}

fn gen_bad_id(rng: &mut Rng, valid: &str) -> Vec<u8> {
    let fixed: &[&[u8]] = &[
        b"../../../../../../ab",  // 20 bytes, climbs out of the config root
        b"../xxxxxxxxxxxxxxxxx",  // 20 bytes
        b"aaaaaaaaaaaaaaaaa/..",  // 20 bytes
        b"./aaaaaaaaaaaaaaaaaa",  // 20 bytes
        b"/proc/verif-c43/xxxx",  // 20 bytes, absolute
        b"/proc/verif-c43",
        b"../../../../../../outside",
        b"..",
        b".",
        b"",
        b"\n",
        b"gggggggggggggggggggg",
        b"0123456789abcdef012g",
        b"0123456789abcdef01 2",
        b"0123456789abcdef012",
        b"0123456789abcdef01234",
        b"0123456789abcdef0123456789abcdef01234567",
        b"\0\0\0\0\0\0\0\0\0\0\0\0\0\0\0\0\0\0\0\0",
        b"0123456789abcdef01\xc3\xa9", // 20 bytes, one non-ASCII char
        b"\xff\xfe0123456789abcdef01",   // not UTF-8
        b"0123456789/bcdef0123",
        b"0123456789\\bcdef0123",
        b"+123456789abcdef0123",
        b"0x123456789abcdef012",
    ];
    match rng.below(10) {
        0 => format!("{valid}\n").into_bytes(),
        1 => format!("{valid}\0").into_bytes(),
        2 => format!(" {valid}").into_bytes(),
        3 => format!("{valid}/../{valid}").into_bytes(),
        4 => format!("../{}", &valid[3..]).into_bytes(),
        5 => {
            let mut b = valid.as_bytes().to_vec();
            let k = rng.below(b.len());
            b[k] = *rng.pick(b"/.gG\\ \0~-_");
            b
        }
        _ => rng.pick(fixed).to_vec(),
    }
}

fn gen_hex_id(rng: &mut Rng) -> String {
    let upper = rng.chance(1, 6);
    (0..20)
        .map(|_| {
            let c = *rng.pick(b"0123456789abcdef") as char;
            if upper { c.to_ascii_uppercase() } else { c }
        })
        .collect()
}

fn gen_ops(rng: &mut Rng) -> Vec<Op> {
    let n = rng.range(4, 12);
    let mut ops = vec![Op::Create];
    // `repo` indices are resolved modulo the number of live repos at run time.
    for _ in 0..n {
        let repo = rng.below(8);
        let op = match rng.weighted(&[2, 4, 2, 1, 5, 3, 2, 3, 1, 12]) {
            0 => Op::Create,
            1 => {
                let content = match rng.below(8) {
                    0 => IdContent::FreshValid(gen_hex_id(rng)),
                    1 | 2 => IdContent::Existing(rng.below(8)),
                    _ => {
                        let valid = gen_hex_id(rng);
                        IdContent::Raw(gen_bad_id(rng, &valid))
                    }
                };
                Op::WriteId { repo, content }
            }
            2 => Op::WriteLegacy { repo, content: format!("legacy = {}\n", rng.below(1000)) },
            3 => Op::RemoveId { repo },
            4 => Op::Copy { repo, read_only: rng.chance(1, 4) },
            5 => Op::Move { repo },
            6 => Op::Delete { repo },
            7 => Op::EditConfig { repo },
            8 => Op::DropConfigDir { repo },
            _ => Op::Load { repo, maybe: rng.chance(1, 3), twice: rng.chance(1, 5) },
        };
        ops.push(op);
    }
    // Always end with loads of every live repo (two rounds: second must be stable).
    for r in 0..4 {
        ops.push(Op::Load { repo: r, maybe: false, twice: false });
    }
    for r in 0..4 {
        ops.push(Op::Load { repo: r, maybe: true, twice: false });
    }
    ops
}

/// Independent walk: path -> description of the entry (type + bytes).
fn walk_all(root: &Path, skip: &[&Path]) -> BTreeMap<PathBuf, String> {
    fn rec(dir: &Path, skip: &[&Path], out: &mut BTreeMap<PathBuf, String>) {
        let Ok(rd) = std::fs::read_dir(dir) else { return };
        for e in rd.flatten() {
            let path = e.path();
            if skip.iter().any(|s| path == **s) {
                continue;
            }
            let Ok(meta) = std::fs::symlink_metadata(&path) else { continue };
            if meta.file_type().is_symlink() {
                let target = std::fs::read_link(&path).unwrap_or_default();
                out.insert(path, format!("symlink -> {}", target.display()));
            } else if meta.is_dir() {
                out.insert(path.clone(), "dir".to_owned());
                rec(&path, skip, out);
            } else {
                let bytes = std::fs::read(&path).unwrap_or_default();
                out.insert(path, format!("file {:?}", String::from_utf8_lossy(&bytes)));
            }
        }
    }
    let mut out = BTreeMap::new();
    rec(root, skip, &mut out);
    out
}

fn is_well_formed_id(s: &str) -> bool {
    s.len() == 20 && s.bytes().all(|b| b.is_ascii_hexdigit())
}

/// `Some(id)` iff `file` is lexically `<root>/<20 hex>/config.toml`.
fn confined_id(root: &Path, file: &Path) -> Option<String> {
    let rest = file.strip_prefix(root).ok()?;
    let comps: Vec<Component> = rest.components().collect();
    if comps.len() != 2 {
        return None;
    }
    let (Component::Normal(id), Component::Normal(name)) = (comps[0], comps[1]) else {
        return None;
    };
    let id = id.to_str()?;
    if name.to_str()? != "config.toml" || !is_well_formed_id(id) {
        return None;
    }
    // `Path::components` silently drops `.` and trailing separators; insist on
    // the exact spelling as well.
    if file != root.join(id).join("config.toml") || file.as_os_str().as_encoded_bytes() != root.join(id).join("config.toml").as_os_str().as_encoded_bytes() {
        return None;
    }
    Some(id.to_owned())
}

/// Thread-local switch of the file-system uid, so that a read-only copy is
/// really read-only although the harness runs as root. Restored on drop.
struct FsUidGuard {
    previous: libc::uid_t,
    previous_gid: libc::gid_t,
}

impl FsUidGuard {
    fn enter(uid: libc::uid_t) -> Option<Self> {
        // SAFETY: setfsuid/setfsgid only change credentials of the calling thread.
        unsafe {
            let previous_gid = libc::setfsgid(uid) as libc::gid_t;
            let previous = libc::setfsuid(uid) as libc::uid_t;
            // setfsuid returns the previous value; call again to read the current one.
            let now = libc::setfsuid(uid) as libc::uid_t;
            let guard = Self { previous, previous_gid };
            if now != uid {
                drop(guard);
                return None;
            }
            Some(guard)
        }
    }
}

impl Drop for FsUidGuard {
    fn drop(&mut self) {
        // SAFETY: see `enter`.
        unsafe {
            libc::setfsuid(self.previous);
            libc::setfsgid(self.previous_gid);
        }
    }
}

/// `cp -r`: directories and files are copied, symlinks are recreated.
fn copy_dir(from: &Path, to: &Path) {
    std::fs::create_dir(to).unwrap();
    for e in std::fs::read_dir(from).unwrap().flatten() {
        let src = e.path();
        let dst = to.join(e.file_name());
        let meta = std::fs::symlink_metadata(&src).unwrap();
        if meta.file_type().is_symlink() {
            std::os::unix::fs::symlink(std::fs::read_link(&src).unwrap(), &dst).unwrap();
        } else if meta.is_dir() {
            copy_dir(&src, &dst);
        } else {
            std::fs::copy(&src, &dst).unwrap();
        }
    }
}

/// `chmod -R` with one mode for directories and one for files (symlinks untouched).
fn chmod_tree(root: &Path, dir_mode: u32, file_mode: u32) {
    use std::os::unix::fs::PermissionsExt as _;
    let Ok(meta) = std::fs::symlink_metadata(root) else { return };
    if meta.file_type().is_symlink() {
        return;
    }
    if meta.is_dir() {
        std::fs::set_permissions(root, std::fs::Permissions::from_mode(dir_mode)).ok();
        if let Ok(rd) = std::fs::read_dir(root) {
            for e in rd.flatten() {
                chmod_tree(&e.path(), dir_mode, file_mode);
            }
        }
    } else {
        std::fs::set_permissions(root, std::fs::Permissions::from_mode(file_mode)).ok();
    }
}

fn can_create_file_in(dir: &Path) -> bool {
    let probe = dir.join(".verif-probe");
    let ok = std::fs::write(&probe, b"").is_ok();
    if ok {
        std::fs::remove_file(&probe).ok();
    }
    ok
}

#[derive(Clone, Debug)]
struct RepoState {
    path: PathBuf,
    read_only: bool,
    /// Config id this directory is the holder of (travels with a move, is
    /// not duplicated by a copy).
    holds: Option<String>,
    /// Result of the last load, valid while nothing touched the repo since.
    current: Option<PathBuf>,
    /// Whether the repo directory was writable for that load.
    current_writable: bool,
}

#[derive(Default)]
struct C43Stats {
    loads: u64,
    loads_ok: u64,
    events: Vec<&'static str>,
}

fn check_c43_case(ops: &[Op], workspace_kind: bool, seed: u64, stats: &mut C43Stats) -> Result<(), Fail> {
    let td = tempfile::Builder::new().prefix("c43-").tempdir().unwrap();
    // Everybody may traverse/read (needed for the read-only loads under another fsuid).
    {
        use std::os::unix::fs::PermissionsExt as _;
        std::fs::set_permissions(td.path(), std::fs::Permissions::from_mode(0o755)).ok();
    }
    let top = td.path().canonicalize().unwrap();
    let cfg_root = top.join("c/o/n/f/i/g/repos");
    std::fs::create_dir_all(&cfg_root).unwrap();
    let work = top.join("w");
    std::fs::create_dir_all(&work).unwrap();
    std::fs::create_dir_all(top.join("outside")).unwrap();
    std::fs::write(top.join("outside/sentinel"), b"sentinel").unwrap();
    let (id_name, legacy_name) =
        if workspace_kind { ("workspace-config-id", "workspace-config.toml") } else { ("config-id", "config.toml") };
    let make = |dir: &Path| {
        if workspace_kind { SecureConfig::new_workspace(dir.to_owned()) } else { SecureConfig::new_repo(dir.to_owned()) }
    };
    let mut jj_rng = ChaCha20Rng::seed_from_u64(seed);
    let mut repos: Vec<RepoState> = vec![];
    let mut next_name = 0usize;
    let mut fresh_path = |work: &Path| {
        next_name += 1;
        // Names are never reused: a path that stopped existing stays gone.
        work.join(format!("r{next_name}"))
    };
    // config id -> path of the repo the config belongs to (where it was last loaded)
    let mut owner: HashMap<String, PathBuf> = HashMap::new();
    let mut edit_counter = 0usize;

    for (step, op) in ops.iter().enumerate() {
        let pick = |repo: &usize, repos: &Vec<RepoState>| -> Option<usize> {
            if repos.is_empty() { None } else { Some(repo % repos.len()) }
        };
        match op {
            Op::Create => {
                let path = fresh_path(&work);
                std::fs::create_dir(&path).unwrap();
                repos.push(RepoState { path, read_only: false, holds: None, current: None, current_writable: false });
            }
            Op::WriteId { repo, content } => {
                let Some(r) = pick(repo, &repos) else { continue };
                if repos[r].read_only {
                    continue;
                }
                let bytes: Vec<u8> = match content {
                    IdContent::FreshValid(id) => id.clone().into_bytes(),
                    IdContent::Existing(k) => {
                        let mut ids: Vec<&String> = owner.keys().collect();
                        ids.sort();
                        if ids.is_empty() {
                            continue;
                        }
                        ids[k % ids.len()].clone().into_bytes()
                    }
                    IdContent::Raw(b) => b.clone(),
                };
                std::fs::write(repos[r].path.join(id_name), &bytes).unwrap();
                repos[r].current = None;
                repos[r].holds = None;
                stats.events.push("write_id");
            }
            Op::WriteLegacy { repo, content } => {
                let Some(r) = pick(repo, &repos) else { continue };
                let p = repos[r].path.join(legacy_name);
                if repos[r].read_only || std::fs::symlink_metadata(&p).is_ok() {
                    continue;
                }
                std::fs::write(&p, content).unwrap();
                repos[r].current = None;
                stats.events.push("write_legacy");
            }
            Op::RemoveId { repo } => {
                let Some(r) = pick(repo, &repos) else { continue };
                if repos[r].read_only {
                    continue;
                }
                std::fs::remove_file(repos[r].path.join(id_name)).ok();
                repos[r].current = None;
                repos[r].holds = None;
            }
            Op::Copy { repo, read_only } => {
                let Some(r) = pick(repo, &repos) else { continue };
                let dst = fresh_path(&work);
                if step % 8 == 0 {
                    // the real tool, now and then
                    let ok = Command::new("cp").arg("-r").arg(&repos[r].path).arg(&dst).status().is_ok_and(|s| s.success());
                    assert!(ok, "harness: cp -r failed");
                } else {
                    copy_dir(&repos[r].path, &dst);
                }
                if *read_only {
                    chmod_tree(&dst, 0o555, 0o444);
                }
                repos.push(RepoState { path: dst, read_only: *read_only, holds: None, current: None, current_writable: false });
                stats.events.push(if *read_only { "copy_read_only" } else { "copy" });
            }
            Op::Move { repo } => {
                let Some(r) = pick(repo, &repos) else { continue };
                let dst = fresh_path(&work);
                std::fs::rename(&repos[r].path, &dst).unwrap();
                repos[r].path = dst;
                repos[r].current = None;
                stats.events.push("move");
            }
            Op::Delete { repo } => {
                let Some(r) = pick(repo, &repos) else { continue };
                if repos[r].read_only {
                    chmod_tree(&repos[r].path, 0o755, 0o644);
                }
                std::fs::remove_dir_all(&repos[r].path).unwrap();
                repos.remove(r);
                stats.events.push("delete");
            }
            Op::EditConfig { repo } => {
                let Some(r) = pick(repo, &repos) else { continue };
                let Some(p) = repos[r].current.clone() else { continue };
                if repos[r].read_only || !p.parent().is_some_and(|d| d.is_dir()) {
                    continue;
                }
                edit_counter += 1;
                std::fs::write(&p, format!("edited = {edit_counter}\n")).unwrap();
                stats.events.push("edit_config");
            }
            Op::DropConfigDir { repo } => {
                let Some(r) = pick(repo, &repos) else { continue };
                let Some(p) = repos[r].current.clone() else { continue };
                let dir = p.parent().unwrap();
                if dir.starts_with(&cfg_root) && dir != cfg_root {
                    std::fs::remove_dir_all(dir).ok();
                    let id = dir.file_name().unwrap().to_string_lossy().into_owned();
                    owner.remove(&id);
                    for other in repos.iter_mut() {
                        if other.current.as_deref() == Some(p.as_path()) {
                            other.current = None;
                        }
                    }
                    stats.events.push("drop_config_dir");
                }
            }
            Op::Load { repo, maybe, twice } => {
                let Some(r) = pick(repo, &repos) else { continue };
                let repo_dir = repos[r].path.clone();
                // ---- pre-state, read by the harness itself
                let id_bytes = std::fs::read(repo_dir.join(id_name)).ok();
                let id_text = id_bytes.as_ref().and_then(|b| String::from_utf8(b.clone()).ok());
                let id_ok = id_text.as_deref().is_some_and(is_well_formed_id);
                let existing_ids: BTreeSet<String> = std::fs::read_dir(&cfg_root)
                    .map(|rd| rd.flatten().map(|e| e.file_name().to_string_lossy().into_owned()).collect())
                    .unwrap_or_default();
                let before_outside = walk_all(&top, &[cfg_root.as_path(), repo_dir.as_path()]);
                let before_cfg = walk_all(&cfg_root, &[]);
                // Everything must be readable for the unprivileged read-only load.
                let guard = if repos[r].read_only {
                    chmod_tree(&top.join("c"), 0o755, 0o644);
                    match FsUidGuard::enter(65_534) {
                        Some(g) if !can_create_file_in(&repo_dir) && std::fs::read_dir(&repo_dir).is_ok() => {
                            stats.events.push("load_read_only_enforced");
                            Some(g)
                        }
                        // Not root, or the scratch directory is not reachable for the
                        // unprivileged uid: load with our own credentials instead.
                        _ => {
                            stats.events.push("load_read_only_not_enforceable");
                            None
                        }
                    }
                } else {
                    None
                };
                let writable = can_create_file_in(&repo_dir);
                // ---- the real code
                let sc = make(&repo_dir);
                let result = if *maybe { sc.maybe_load_config(&mut jj_rng, &cfg_root) } else { sc.load_config(&mut jj_rng, &cfg_root) };
                let second = if *twice { Some(sc.load_config(&mut jj_rng, &cfg_root)) } else { None };
                drop(guard);
                stats.loads += 1;
                let after_outside = walk_all(&top, &[cfg_root.as_path(), repo_dir.as_path()]);
                let after_cfg = walk_all(&cfg_root, &[]);

                // ---- clause: nothing outside the config root and the repo dir is written
                if before_outside != after_outside {
                    let changed: Vec<String> = after_outside
                        .iter()
                        .filter(|(k, v)| before_outside.get(*k) != Some(*v))
                        .map(|(k, v)| format!("{} = {}", k.display(), truncate(v, 60)))
                        .chain(before_outside.keys().filter(|k| !after_outside.contains_key(*k)).map(|k| format!("{} removed", k.display())))
                        .take(4)
                        .collect();
                    return fail(
                        "writes.confined_to_config_root_and_repo_dir",
                        format!("step {step}: load of {} with id file {:?} changed {:?}", repo_dir.display(), id_bytes.as_ref().map(|b| String::from_utf8_lossy(b).into_owned()), changed),
                    )
                    .map(|_| ());
                }
                let loaded = match result {
                    Err(_) => {
                        stats.events.push(if id_bytes.is_some() && !id_ok { "load_err_malformed_id" } else { "load_err_other" });
                        repos[r].current = None;
                        continue;
                    }
                    Ok(l) => l,
                };
                stats.loads_ok += 1;
                let Some(file) = loaded.config_file.clone() else {
                    stats.events.push("load_ok_no_config");
                    if let Some(Ok(l2)) = &second {
                        if let Some(f2) = &l2.config_file {
                            ensure!(confined_id(&cfg_root, f2).is_some(), "config_path.confined_well_formed_id", "step {}: second load returned {:?}", step, f2);
                            let id2 = confined_id(&cfg_root, f2).unwrap();
                            owner.insert(id2.clone(), repo_dir.clone());
                            repos[r].holds = Some(id2);
                            repos[r].current_writable = writable;
                            repos[r].current = Some(f2.clone());
                        }
                    }
                    continue;
                };
                // ---- clause: the path is <config root>/<20 hex>/config.toml
                let Some(id) = confined_id(&cfg_root, &file) else {
                    return fail(
                        "config_path.confined_well_formed_id",
                        format!(
                            "step {step}: load of {} with id file {:?} returned {:?}, which is not <root>/<20 hex>/config.toml under {}",
                            repo_dir.display(),
                            id_bytes.as_ref().map(|b| String::from_utf8_lossy(b).into_owned()),
                            file,
                            cfg_root.display()
                        ),
                    );
                };
                // ---- clause: a malformed id file never selects an existing config.
                // (The statement says the config is "chosen only by a well-formed
                // config id"; regenerating a fresh config would still satisfy it, so
                // only the selection of an already existing config is refuted.)
                if id_bytes.is_some() && !id_ok && existing_ids.contains(&id) {
                    return fail(
                        "config_id.malformed_never_selects",
                        format!(
                            "step {step}: id file {:?} is not 20 hex digits but the load selected the existing {:?}",
                            id_bytes.as_ref().map(|b| String::from_utf8_lossy(b).into_owned()),
                            file
                        ),
                    );
                }
                if let Some(Ok(l2)) = &second {
                    ensure!(
                        l2.config_file.as_deref() == Some(file.as_path()),
                        "load.repeat_on_same_object_is_stable",
                        "step {}: {:?} then {:?}",
                        step,
                        file,
                        l2.config_file
                    );
                }
                // X: the well-formed id in the id file whose config dir existed and
                // whose owner (place of its last load) the model knows.
                let known: Option<(String, PathBuf)> = id_text
                    .clone()
                    .filter(|x| id_ok && existing_ids.contains(x))
                    .and_then(|x| owner.get(&x).cloned().map(|o| (x, o)));
                match known {
                    Some((x, o)) if o == repo_dir => {
                        stats.events.push("load_same_repo");
                        ensure!(
                            id == x,
                            "same_repo.keeps_config_dir",
                            "step {}: {} owns config {} but the load returned {:?}",
                            step,
                            repo_dir.display(),
                            x,
                            file
                        );
                        repos[r].holds = Some(id.clone());
                    }
                    Some((x, o)) if o.is_dir() && writable => {
                        // ---- a writable copy whose original still exists
                        stats.events.push("load_copy_with_original_present");
                        ensure!(
                            id != x,
                            "copy.gets_different_config_dir",
                            "step {}: {} is a writable copy (id {}), the original {} still exists, but the load returned the original's {:?}",
                            step,
                            repo_dir.display(),
                            x,
                            o.display(),
                            file
                        );
                        ensure!(
                            !existing_ids.contains(&id),
                            "copy.gets_fresh_config_dir",
                            "step {}: copy was given the already existing config dir {}",
                            step,
                            id
                        );
                        let old_file = cfg_root.join(&x).join("config.toml");
                        let old_content = before_cfg.get(&old_file);
                        let new_content = after_cfg.get(&file);
                        ensure!(
                            old_content == new_content,
                            "copy.content_copied",
                            "step {}: original config {:?}, copy's config {:?}",
                            step,
                            old_content,
                            new_content
                        );
                        // the original keeps its own, untouched
                        for (k, v) in before_cfg.iter().filter(|(k, _)| k.starts_with(cfg_root.join(&x))) {
                            ensure!(
                                after_cfg.get(k) == Some(v),
                                "copy.original_config_untouched",
                                "step {}: {} changed from {:?} to {:?}",
                                step,
                                k.display(),
                                v,
                                after_cfg.get(k)
                            );
                        }
                        owner.insert(id.clone(), repo_dir.clone());
                        repos[r].holds = Some(id.clone());
                    }
                    Some((_x, o)) if o.is_dir() => {
                        // Read-only copy with the original present: the statement is
                        // about writable copies only; observed, not judged.
                        stats.events.push("load_read_only_copy");
                        if before_cfg == after_cfg {
                            stats.events.push("load_read_only_copy_wrote_nothing");
                        }
                    }
                    Some((x, o)) if !o.exists() && repos[r].holds.as_deref() == Some(x.as_str()) => {
                        // ---- the holder itself was moved
                        stats.events.push("load_moved_repo");
                        ensure!(
                            id == x,
                            "move.keeps_config_dir",
                            "step {}: {} was moved from {} (config {}) but the load returned {:?}",
                            step,
                            repo_dir.display(),
                            o.display(),
                            x,
                            file
                        );
                        if writable {
                            owner.insert(id.clone(), repo_dir.clone());
                        }
                    }
                    Some(_) => {
                        // A copy whose original is gone from the place where it last
                        // loaded its config (moved elsewhere or deleted):
                        // indistinguishable from a move, not decided either way.
                        stats.events.push("load_copy_original_gone_ambiguous");
                        if writable {
                            owner.insert(id.clone(), repo_dir.clone());
                            repos[r].holds = Some(id.clone());
                        }
                    }
                    None => {
                        // no id file / unknown id / config dir missing: a (new) config for this repo
                        stats.events.push(if id_bytes.is_none() { "load_generates_or_migrates" } else { "load_unknown_id" });
                        if id_bytes.is_none() {
                            ensure!(
                                !existing_ids.contains(&id),
                                "new_config.gets_fresh_config_dir",
                                "step {}: repo without config id was given the already existing config dir {}",
                                step,
                                id
                            );
                        }
                        if writable {
                            owner.insert(id.clone(), repo_dir.clone());
                            repos[r].holds = Some(id.clone());
                        }
                    }
                }
                repos[r].current = Some(file.clone());
                repos[r].current_writable = writable;
                // ---- invariant: no two live writable repos resolve to the same config
                if writable {
                    for (k, other) in repos.iter().enumerate() {
                        if k != r && other.current_writable && other.path.is_dir() {
                            ensure!(
                                other.current.as_deref() != Some(file.as_path()),
                                "no_two_live_repos_share_a_config",
                                "step {}: {} and {} both load {:?}",
                                step,
                                repo_dir.display(),
                                other.path.display(),
                                file
                            );
                        }
                    }
                }
            }
        }
    }
    Ok(())
}

fn describe_ops(ops: &[Op], workspace_kind: bool) -> Value {
    json!({
        "kind": if workspace_kind { "workspace" } else { "repo" },
        "ops": ops.iter().map(|o| match o {
            Op::WriteId { repo, content: IdContent::Raw(b) } => format!("WriteId {{ repo: {repo}, raw: {:?} }}", String::from_utf8_lossy(b)),
            other => format!("{other:?}"),
        }).collect::<Vec<_>>(),
    })
}

pub fn run_c43(ctx: &Ctx) -> i32 {
    ctx.set_rule(
        "random sequences (5-20 ops) over repo/workspace directories with never-reused names: create, write \
         config-id (fresh valid, id of an existing config, or malformed: wrong length, ../, absolute, non-hex, \
         NUL, newline, non-UTF-8, 20-byte traversal strings), write legacy config, remove id, cp -r (original \
         kept), read-only cp -r (loaded under an unprivileged fsuid), rename, delete, edit the returned config, \
         delete the config dir, load_config / maybe_load_config (fresh SecureConfig per load; sometimes twice on \
         one object); every sequence ends with two rounds of loads of all live repos. Non-trivial: at least one \
         load succeeded and the sequence contains a copy, a move or a malformed id. Distinct: by op sequence.",
    );
    ctx.assume("the 'original' of a copy is identified by the place where it last loaded its config; a copy loaded after its original moved away is not decided either way (counted as load_copy_original_gone_ambiguous)");
    ctx.assume("repo directory names are never reused within a sequence; no symlink aliases of repo directories");
    let n = ctx.tier().pick(4000, 150_000);
    par_cases(ctx, n, threads(), |i, cs, rng| {
        let workspace_kind = rng.chance(1, 3);
        let ops = gen_ops(rng);
        let seed = rng.next_u64();
        let mut stats = C43Stats::default();
        run_case(ctx, i, cs, || describe_ops(&ops, workspace_kind), || check_c43_case(&ops, workspace_kind, seed, &mut stats));
        let interesting = stats.events.iter().any(|e| {
            matches!(*e, "load_copy_with_original_present" | "load_moved_repo" | "load_err_malformed_id" | "load_read_only_copy")
        });
        ctx.case(stable_hash(&(&ops, workspace_kind)), stats.loads_ok > 0 && interesting);
        ctx.count_n("loads", stats.loads);
        ctx.count_n("loads_ok", stats.loads_ok);
        for e in &stats.events {
            ctx.count(e);
        }
        if interesting {
            ctx.sample(|| describe_ops(&ops, workspace_kind));
        }
    });
    ctx.finish(300)
}
