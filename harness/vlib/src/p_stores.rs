//! C16 (operations and views round-trip and are content-addressed) and
//! C17 (commit backends return on read exactly what write reported).

use std::cell::RefCell;
use std::collections::BTreeMap;
use std::collections::HashMap;
use std::collections::HashSet;
use std::path::Path;
use std::path::PathBuf;
use std::sync::Arc;
use std::sync::Mutex;

use blake2::Blake2b512;
use digest::Digest as _;
use futures::AsyncReadExt as _;
use jj_lib::backend;
use jj_lib::backend::ChangeId;
use jj_lib::backend::CommitId;
use jj_lib::backend::CopyId;
use jj_lib::backend::MillisSinceEpoch;
use jj_lib::backend::Signature;
use jj_lib::backend::Timestamp;
use jj_lib::backend::TreeId;
use jj_lib::backend::TreeValue;
use jj_lib::config::ConfigLayer;
use jj_lib::config::ConfigSource;
use jj_lib::conflict_labels::ConflictLabels;
use jj_lib::content_hash::ContentHash;
use jj_lib::content_hash::DigestUpdate;
use jj_lib::git_backend::GitBackend;
use jj_lib::merge::Merge;
use jj_lib::merge::SameChange;
use jj_lib::object_id::ObjectId as _;
use jj_lib::op_store;
use jj_lib::op_store::OpStore as _;
use jj_lib::op_store::Operation;
use jj_lib::op_store::OperationId;
use jj_lib::op_store::OperationMetadata;
use jj_lib::op_store::RefTarget;
use jj_lib::op_store::RemoteRef;
use jj_lib::op_store::RemoteRefState;
use jj_lib::op_store::RemoteView;
use jj_lib::op_store::RootOperationData;
use jj_lib::op_store::TimestampRange;
use jj_lib::op_store::ViewId;
use jj_lib::ref_name::GitRefName;
use jj_lib::ref_name::GitRefNameBuf;
use jj_lib::ref_name::RefName;
use jj_lib::ref_name::RefNameBuf;
use jj_lib::ref_name::RemoteName;
use jj_lib::ref_name::RemoteNameBuf;
use jj_lib::ref_name::WorkspaceName;
use jj_lib::ref_name::WorkspaceNameBuf;
use jj_lib::repo_path::RepoPath;
use jj_lib::repo_path::RepoPathComponentBuf;
use jj_lib::settings::UserSettings;
use jj_lib::signing::Signer;
use jj_lib::simple_backend::SimpleBackend;
use jj_lib::simple_op_store::SimpleOpStore;
use jj_lib::store::Store;
use jj_lib::tree_merge::MergeOptions;
use jj_lib::view::View as RepoView;
use pollster::FutureExt as _;
use serde_json::Value;
use serde_json::json;

use crate::common::*;
use crate::ensure;
use crate::model::Entry;
use crate::model::TreeModel;
use crate::model::tree_insert;
use crate::model::tree_json;

// ===========================================================================
// Recording hasher sink and independent decoder of the documented encoding
// ===========================================================================

/// `DigestUpdate` sink that records the bytes `ContentHash::hash` feeds to the
/// hasher.
struct Recorder(Vec<u8>);

impl DigestUpdate for Recorder {
    fn update(&mut self, data: &[u8]) {
        self.0.extend_from_slice(data);
    }
}

fn encode<T: ContentHash + ?Sized>(value: &T) -> Vec<u8> {
    let mut r = Recorder(vec![]);
    value.hash(&mut r);
    r.0
}

/// BLAKE2b-512 computed by the harness (not by `content_hash::blake2b_hash`).
fn blake2b(bytes: &[u8]) -> Vec<u8> {
    Blake2b512::digest(bytes).to_vec()
}

type DRes<T> = Result<T, String>;

fn failure<T>(clause: &str, message: impl Into<String>) -> Result<T, Fail> {
    Err(Fail { clause: clause.to_owned(), message: message.into() })
}

/// Decoder written from the scheme documented on `ContentHash`: integers are
/// fixed-width little endian, sequences/strings/maps carry a u64 length,
/// `Option`/enums carry a u32 ordinal, maps and sets are emitted in ascending
/// key order, struct fields in declaration order.
struct Dec<'a> {
    buf: &'a [u8],
    pos: usize,
}

impl<'a> Dec<'a> {
    fn new(buf: &'a [u8]) -> Self {
        Self { buf, pos: 0 }
    }
    fn take(&mut self, n: usize) -> DRes<&'a [u8]> {
        if self.buf.len() - self.pos < n {
            return Err(format!("need {n} bytes at offset {}, only {} left", self.pos, self.buf.len() - self.pos));
        }
        let s = &self.buf[self.pos..self.pos + n];
        self.pos += n;
        Ok(s)
    }
    fn u8(&mut self) -> DRes<u8> {
        Ok(self.take(1)?[0])
    }
    fn u32(&mut self) -> DRes<u32> {
        Ok(u32::from_le_bytes(self.take(4)?.try_into().unwrap()))
    }
    fn i32(&mut self) -> DRes<i32> {
        Ok(i32::from_le_bytes(self.take(4)?.try_into().unwrap()))
    }
    fn u64(&mut self) -> DRes<u64> {
        Ok(u64::from_le_bytes(self.take(8)?.try_into().unwrap()))
    }
    fn i64(&mut self) -> DRes<i64> {
        Ok(i64::from_le_bytes(self.take(8)?.try_into().unwrap()))
    }
    fn len(&mut self) -> DRes<usize> {
        let at = self.pos;
        let n = self.u64()?;
        // Every element type used here occupies at least one byte.
        if n > (self.buf.len() - self.pos) as u64 {
            return Err(format!("length {n} at offset {at} exceeds the remaining {} bytes", self.buf.len() - self.pos));
        }
        Ok(n as usize)
    }
    fn bytes(&mut self) -> DRes<Vec<u8>> {
        let n = self.len()?;
        Ok(self.take(n)?.to_vec())
    }
    fn string(&mut self) -> DRes<String> {
        let at = self.pos;
        String::from_utf8(self.bytes()?).map_err(|e| format!("string at offset {at} is not UTF-8: {e}"))
    }
    fn boolean(&mut self) -> DRes<bool> {
        let at = self.pos;
        match self.u8()? {
            0 => Ok(false),
            1 => Ok(true),
            b => Err(format!("bool byte {b} at offset {at}")),
        }
    }
    fn option<T>(&mut self, f: impl FnOnce(&mut Self) -> DRes<T>) -> DRes<Option<T>> {
        let at = self.pos;
        match self.u32()? {
            0 => Ok(None),
            1 => Ok(Some(f(self)?)),
            n => Err(format!("Option ordinal {n} at offset {at}")),
        }
    }
    fn seq<T>(&mut self, mut f: impl FnMut(&mut Self) -> DRes<T>) -> DRes<Vec<T>> {
        let n = self.len()?;
        let mut out = Vec::with_capacity(n);
        for _ in 0..n {
            out.push(f(self)?);
        }
        Ok(out)
    }
    /// Map (or set with `V = ()`) whose keys must be strictly ascending.
    fn sorted_map<K: Ord + std::fmt::Debug, V>(
        &mut self,
        what: &str,
        mut fk: impl FnMut(&mut Self) -> DRes<K>,
        mut fv: impl FnMut(&mut Self) -> DRes<V>,
    ) -> DRes<Vec<(K, V)>> {
        let n = self.len()?;
        let mut out: Vec<(K, V)> = Vec::with_capacity(n);
        for _ in 0..n {
            let k = fk(self)?;
            if let Some((prev, _)) = out.last()
                && *prev >= k
            {
                return Err(format!("{what}: keys not strictly ascending: {prev:?} then {k:?}"));
            }
            let v = fv(self)?;
            out.push((k, v));
        }
        Ok(out)
    }
    fn finish(&self) -> DRes<()> {
        if self.pos == self.buf.len() {
            Ok(())
        } else {
            Err(format!("{} trailing bytes after the value", self.buf.len() - self.pos))
        }
    }
}

fn dec_ref_target(d: &mut Dec) -> DRes<RefTarget> {
    let at = d.pos;
    let terms = d.seq(|d| d.option(|d| d.bytes().map(CommitId::new)))?;
    if terms.len() % 2 == 0 {
        return Err(format!("ref target at offset {at} has {} terms", terms.len()));
    }
    Ok(RefTarget::from_merge(Merge::from_vec(terms)))
}

fn dec_remote_ref(d: &mut Dec) -> DRes<RemoteRef> {
    let target = dec_ref_target(d)?;
    let at = d.pos;
    let state = match d.u32()? {
        0 => RemoteRefState::New,
        1 => RemoteRefState::Tracked,
        n => return Err(format!("RemoteRefState ordinal {n} at offset {at}")),
    };
    Ok(RemoteRef { target, state })
}

fn dec_view(buf: &[u8]) -> DRes<op_store::View> {
    let mut d = Dec::new(buf);
    let head_ids: HashSet<CommitId> = d
        .sorted_map("head_ids", |d| d.bytes(), |_| Ok(()))?
        .into_iter()
        .map(|(k, ())| CommitId::new(k))
        .collect();
    let local_bookmarks = d
        .sorted_map("local_bookmarks", |d| d.string(), dec_ref_target)?
        .into_iter()
        .map(|(k, v)| (RefNameBuf::from(k), v))
        .collect();
    let local_tags = d
        .sorted_map("local_tags", |d| d.string(), dec_ref_target)?
        .into_iter()
        .map(|(k, v)| (RefNameBuf::from(k), v))
        .collect();
    let remote_views = d
        .sorted_map(
            "remote_views",
            |d| d.string(),
            |d| {
                let bookmarks = d
                    .sorted_map("remote bookmarks", |d| d.string(), dec_remote_ref)?
                    .into_iter()
                    .map(|(k, v)| (RefNameBuf::from(k), v))
                    .collect();
                let tags = d
                    .sorted_map("remote tags", |d| d.string(), dec_remote_ref)?
                    .into_iter()
                    .map(|(k, v)| (RefNameBuf::from(k), v))
                    .collect();
                Ok(RemoteView { bookmarks, tags })
            },
        )?
        .into_iter()
        .map(|(k, v)| (RemoteNameBuf::from(k), v))
        .collect();
    let git_refs = d
        .sorted_map("git_refs", |d| d.string(), dec_ref_target)?
        .into_iter()
        .map(|(k, v)| (GitRefNameBuf::from(k), v))
        .collect();
    let git_heads = d
        .sorted_map("git_heads", |d| d.string(), dec_ref_target)?
        .into_iter()
        .map(|(k, v)| (WorkspaceNameBuf::from(k), v))
        .collect();
    let wc_commit_ids = d
        .sorted_map("wc_commit_ids", |d| d.string(), |d| d.bytes().map(CommitId::new))?
        .into_iter()
        .map(|(k, v)| (WorkspaceNameBuf::from(k), v))
        .collect();
    d.finish()?;
    Ok(op_store::View {
        head_ids,
        local_bookmarks,
        local_tags,
        remote_views,
        git_refs,
        git_heads,
        wc_commit_ids,
    })
}

fn dec_timestamp(d: &mut Dec) -> DRes<Timestamp> {
    let ms = d.i64()?;
    let tz = d.i32()?;
    Ok(Timestamp { timestamp: MillisSinceEpoch(ms), tz_offset: tz })
}

fn dec_operation(buf: &[u8]) -> DRes<Operation> {
    let mut d = Dec::new(buf);
    let view_id = ViewId::new(d.bytes()?);
    let parents = d.seq(|d| d.bytes().map(OperationId::new))?;
    let start = dec_timestamp(&mut d)?;
    let end = dec_timestamp(&mut d)?;
    let description = d.string()?;
    let hostname = d.string()?;
    let username = d.string()?;
    let is_snapshot = d.boolean()?;
    let workspace_name = d.option(|d| d.string())?.map(WorkspaceNameBuf::from);
    let attributes = d
        .sorted_map("attributes", |d| d.string(), |d| d.string())?
        .into_iter()
        .collect();
    let commit_predecessors = d.option(|d| {
        Ok(d.sorted_map("commit_predecessors", |d| d.bytes(), |d| d.seq(|d| d.bytes().map(CommitId::new)))?
            .into_iter()
            .map(|(k, v)| (CommitId::new(k), v))
            .collect::<BTreeMap<_, _>>())
    })?;
    d.finish()?;
    Ok(Operation {
        view_id,
        parents,
        metadata: OperationMetadata {
            time: TimestampRange { start, end },
            description,
            hostname,
            username,
            is_snapshot,
            workspace_name,
            attributes,
        },
        commit_predecessors,
    })
}

// ===========================================================================
// C16 generators
// ===========================================================================

const REF_NAMES: &[&str] = &["main", "dev", "a", "ab", "b", "abc", "feature/x", "ünï-日本", "x y", "v1.0"];
const REMOTE_NAMES: &[&str] = &["origin", "git", "upstream", "o", "or"];
const WS_NAMES: &[&str] = &["default", "second", "ws-ü", "d"];
const GIT_REF_NAMES: &[&str] = &[
    "refs/heads/main",
    "refs/heads/a",
    "refs/tags/v1.0",
    "refs/remotes/origin/main",
    "default",
];

fn rand_bytes(rng: &mut Rng, n: usize) -> Vec<u8> {
    let mut v = Vec::with_capacity(n);
    while v.len() < n {
        let x = rng.next_u64().to_le_bytes();
        let take = (n - v.len()).min(8);
        v.extend_from_slice(&x[..take]);
    }
    v
}

/// A small pool of commit ids so that terms collide. One case in four uses
/// tiny ids over the alphabet "abc" (the repository's own unit tests use
/// 3-byte ids) so that length prefixes are what separates neighbouring fields.
fn gen_id_pool(rng: &mut Rng) -> Vec<CommitId> {
    let n = rng.range(3, 7);
    let tiny = rng.chance(1, 4);
    let mut pool: Vec<CommitId> = vec![];
    while pool.len() < n {
        let id = if tiny {
            let len = rng.range(1, 3);
            CommitId::new((0..len).map(|_| *rng.pick(b"abc")).collect())
        } else {
            let mut b = rand_bytes(rng, 20);
            if rng.chance(1, 3) && !pool.is_empty() {
                // shared prefix with an earlier id
                let other = pool[rng.below(pool.len())].as_bytes().to_vec();
                if other.len() == 20 {
                    b[..19].copy_from_slice(&other[..19]);
                }
            }
            CommitId::new(b)
        };
        if !pool.contains(&id) {
            pool.push(id);
        }
    }
    pool
}

/// The form `merge_ref_targets` leaves behind: simplified, trivially
/// resolvable conflicts resolved.
fn canonical_target(m: Merge<Option<CommitId>>) -> RefTarget {
    let s = m.simplify();
    if let Some(r) = s.resolve_trivial(SameChange::Accept) {
        RefTarget::resolved(r.clone())
    } else {
        RefTarget::from_merge(s)
    }
}

fn gen_target(rng: &mut Rng, pool: &[CommitId]) -> RefTarget {
    match rng.weighted(&[2, 6, 5, 1]) {
        0 => RefTarget::absent(),
        1 => RefTarget::normal(rng.pick(pool).clone()),
        2 => {
            let n = *rng.pick(&[3usize, 3, 5]);
            let terms: Vec<Option<CommitId>> = (0..n)
                .map(|_| if rng.chance(1, 4) { None } else { Some(rng.pick(pool).clone()) })
                .collect();
            canonical_target(Merge::from_vec(terms))
        }
        _ => {
            let removes: Vec<CommitId> = (0..rng.below(3)).map(|_| rng.pick(pool).clone()).collect();
            let adds: Vec<CommitId> = (0..rng.below(4)).map(|_| rng.pick(pool).clone()).collect();
            RefTarget::from_legacy_form(removes, adds)
        }
    }
}

fn gen_state(rng: &mut Rng) -> RemoteRefState {
    if rng.bool() { RemoteRefState::New } else { RemoteRefState::Tracked }
}

fn apply_random_setter(rng: &mut Rng, view: &mut RepoView, pool: &[CommitId]) {
    match rng.below(15) {
        0 => view.add_head(rng.pick(pool)),
        1 => {
            if view.store_view().head_ids.len() > 1 {
                view.remove_head(rng.pick(pool));
            }
        }
        2 | 3 => {
            let name = *rng.pick(REF_NAMES);
            view.set_local_bookmark_target(RefName::new(name), gen_target(rng, pool));
        }
        4 | 5 | 6 => {
            let name = *rng.pick(REF_NAMES);
            let remote = *rng.pick(REMOTE_NAMES);
            let remote_ref = RemoteRef { target: gen_target(rng, pool), state: gen_state(rng) };
            view.set_remote_bookmark(RefName::new(name).to_remote_symbol(RemoteName::new(remote)), remote_ref);
        }
        7 => {
            let name = *rng.pick(REF_NAMES);
            view.set_local_tag_target(RefName::new(name), gen_target(rng, pool));
        }
        8 | 9 => {
            let name = *rng.pick(REF_NAMES);
            let remote = *rng.pick(REMOTE_NAMES);
            let remote_ref = RemoteRef { target: gen_target(rng, pool), state: gen_state(rng) };
            view.set_remote_tag(RefName::new(name).to_remote_symbol(RemoteName::new(remote)), remote_ref);
        }
        10 => {
            let name = *rng.pick(GIT_REF_NAMES);
            view.set_git_ref_target(GitRefName::new(name), gen_target(rng, pool));
        }
        11 => {
            let ws = *rng.pick(WS_NAMES);
            view.set_git_head_target(WorkspaceName::new(ws), gen_target(rng, pool));
        }
        12 => {
            let ws = *rng.pick(WS_NAMES);
            view.set_wc_commit(WorkspaceNameBuf::from(ws), rng.pick(pool).clone());
        }
        13 => {
            let ws = *rng.pick(WS_NAMES);
            if rng.bool() {
                view.remove_workspace(WorkspaceName::new(ws));
            } else {
                let new = *rng.pick(WS_NAMES);
                view.rename_workspace(WorkspaceName::new(ws), WorkspaceNameBuf::from(new)).ok();
            }
        }
        _ => {
            let remote = *rng.pick(REMOTE_NAMES);
            if rng.chance(1, 3) {
                view.remove_remote(RemoteName::new(remote));
            } else if rng.bool() {
                let new = *rng.pick(REMOTE_NAMES);
                if !view.store_view().remote_views.contains_key(RemoteName::new(new)) {
                    view.rename_remote(RemoteName::new(remote), RemoteName::new(new));
                }
            }
        }
    }
}

/// Builds a view exclusively through `jj_lib::view::View` setters, so that it
/// is a value jj itself can hold (absent local targets are dropped, absent
/// remote refs survive only when tracked with a present local ref, ...).
fn gen_view(rng: &mut Rng, pool: &[CommitId]) -> op_store::View {
    let mut view = RepoView::new(op_store::View::make_root(pool[0].clone()), false);
    for _ in 0..rng.below(4) {
        view.add_head(rng.pick(pool));
    }
    if rng.chance(1, 4) && view.store_view().head_ids.len() > 1 {
        view.remove_head(&pool[0]);
    }
    for _ in 0..rng.below(16) {
        apply_random_setter(rng, &mut view, pool);
    }
    // Plant the rarer shapes.
    if rng.chance(1, 3) {
        // tracked remote ref that is absent while the local ref exists
        let name = *rng.pick(REF_NAMES);
        let remote = *rng.pick(REMOTE_NAMES);
        let as_tag = rng.chance(1, 3);
        let local = RefTarget::normal(rng.pick(pool).clone());
        let absent = RemoteRef { target: RefTarget::absent(), state: RemoteRefState::Tracked };
        let symbol = RefName::new(name).to_remote_symbol(RemoteName::new(remote));
        if as_tag {
            view.set_local_tag_target(RefName::new(name), local);
            view.set_remote_tag(symbol, absent);
        } else {
            view.set_local_bookmark_target(RefName::new(name), local);
            view.set_remote_bookmark(symbol, absent);
        }
    }
    if rng.chance(1, 6) {
        // remote whose last ref was deleted: an empty RemoteView stays behind
        let remote = *rng.pick(REMOTE_NAMES);
        let symbol = RefName::new("gone").to_remote_symbol(RemoteName::new(remote));
        let r = RemoteRef { target: RefTarget::normal(pool[0].clone()), state: RemoteRefState::New };
        view.set_remote_bookmark(symbol, r);
        view.set_remote_bookmark(symbol, RemoteRef::absent());
    }
    view.store_view().clone()
}

/// Invariants of every view reachable through the setters (used to filter the
/// near-miss variants, which are edited structurally).
fn holdable(v: &op_store::View) -> bool {
    if v.head_ids.is_empty() {
        return false;
    }
    fn present<'a>(mut m: impl Iterator<Item = &'a RefTarget>) -> bool {
        m.all(|t| t.is_present())
    }
    if !present(v.local_bookmarks.values())
        || !present(v.local_tags.values())
        || !present(v.git_refs.values())
        || !present(v.git_heads.values())
    {
        return false;
    }
    for rv in v.remote_views.values() {
        for (name, r) in &rv.bookmarks {
            if r.is_absent() && !(r.is_tracked() && v.local_bookmarks.contains_key(name)) {
                return false;
            }
        }
        for (name, r) in &rv.tags {
            if r.is_absent() && !(r.is_tracked() && v.local_tags.contains_key(name)) {
                return false;
            }
        }
    }
    true
}

fn pick_key<K: Clone + Ord, V>(rng: &mut Rng, m: &BTreeMap<K, V>) -> Option<K> {
    if m.is_empty() {
        return None;
    }
    m.keys().nth(rng.below(m.len())).cloned()
}

/// One small structural edit; the label names the kind for the evidence.
fn mutate_view(rng: &mut Rng, base: &op_store::View, pool: &[CommitId]) -> Option<(&'static str, op_store::View)> {
    let mut v = base.clone();
    let kind: &'static str = match rng.below(13) {
        0 => {
            // tracking state flip
            let remote = pick_key(rng, &v.remote_views)?;
            let rv = v.remote_views.get_mut(&remote)?;
            let map = if rng.bool() { &mut rv.bookmarks } else { &mut rv.tags };
            let name = pick_key(rng, map)?;
            let r = map.get_mut(&name)?;
            r.state = if r.state == RemoteRefState::New { RemoteRefState::Tracked } else { RemoteRefState::New };
            "state_flip"
        }
        1 => {
            // move a term between adds and removes
            let name = pick_key(rng, &v.local_bookmarks)?;
            let t = v.local_bookmarks.get(&name)?.clone();
            if !t.has_conflict() {
                return None;
            }
            let mut terms: Vec<Option<CommitId>> = t.as_merge().iter().cloned().collect();
            let i = rng.below(terms.len() - 1);
            terms.swap(i, i + 1);
            v.local_bookmarks.insert(name, canonical_target(Merge::from_vec(terms)));
            "term_moved_between_adds_and_removes"
        }
        2 => {
            let name = pick_key(rng, &v.local_bookmarks)?;
            if v.local_tags.contains_key(&name) {
                return None;
            }
            let t = v.local_bookmarks.remove(&name)?;
            v.local_tags.insert(name, t);
            "bookmark_becomes_tag"
        }
        3 => {
            // git_refs <-> git_heads under the same key string
            if rng.bool() {
                let name = pick_key(rng, &v.git_refs)?;
                let t = v.git_refs.remove(&name)?;
                let ws = WorkspaceNameBuf::from(name.as_str());
                if v.git_heads.contains_key(&ws) {
                    return None;
                }
                v.git_heads.insert(ws, t);
            } else {
                let ws = pick_key(rng, &v.git_heads)?;
                let t = v.git_heads.remove(&ws)?;
                let name = GitRefNameBuf::from(ws.as_str());
                if v.git_refs.contains_key(&name) {
                    return None;
                }
                v.git_refs.insert(name, t);
            }
            "git_ref_vs_git_head"
        }
        4 => {
            // "ab","c" vs "a","bc": last name byte moves to the front of the id
            let name = pick_key(rng, &v.local_bookmarks)?;
            let t = v.local_bookmarks.get(&name)?.clone();
            let id = t.as_normal()?.clone();
            let s = name.as_str();
            let last = *s.as_bytes().last()?;
            if !last.is_ascii() || s.len() < 2 {
                return None;
            }
            let new_name = RefNameBuf::from(&s[..s.len() - 1]);
            if v.local_bookmarks.contains_key(&new_name) {
                return None;
            }
            let mut bytes = vec![last];
            bytes.extend_from_slice(id.as_bytes());
            v.local_bookmarks.remove(&name);
            v.local_bookmarks.insert(new_name, RefTarget::normal(CommitId::new(bytes)));
            "name_id_boundary_shift"
        }
        5 => {
            // empty remote view vs no remote
            let empty: Vec<RemoteNameBuf> = v
                .remote_views
                .iter()
                .filter(|(_, rv)| rv.bookmarks.is_empty() && rv.tags.is_empty())
                .map(|(k, _)| k.clone())
                .collect();
            if let Some(k) = empty.first() {
                v.remote_views.remove(k);
            } else {
                let remote = RemoteNameBuf::from(*rng.pick(REMOTE_NAMES));
                if v.remote_views.contains_key(&remote) {
                    return None;
                }
                v.remote_views.insert(remote, RemoteView::default());
            }
            "empty_remote_vs_missing"
        }
        6 => {
            let id = rng.pick(pool).clone();
            if v.head_ids.contains(&id) {
                v.head_ids.remove(&id);
            } else {
                v.head_ids.insert(id);
            }
            "head_toggled"
        }
        7 => {
            let ws = pick_key(rng, &v.wc_commit_ids)?;
            let mut bytes = v.wc_commit_ids.get(&ws)?.to_bytes();
            let i = rng.below(bytes.len());
            bytes[i] ^= 1 << rng.below(8);
            v.wc_commit_ids.insert(ws, CommitId::new(bytes));
            "wc_id_bit_flip"
        }
        8 => {
            let remote = pick_key(rng, &v.remote_views)?;
            let rv = v.remote_views.get_mut(&remote)?;
            let name = pick_key(rng, &rv.bookmarks)?;
            if rv.tags.contains_key(&name) {
                return None;
            }
            let r = rv.bookmarks.remove(&name)?;
            rv.tags.insert(name, r);
            "remote_bookmark_becomes_remote_tag"
        }
        9 => {
            let remote = pick_key(rng, &v.remote_views)?;
            let new = RemoteNameBuf::from(*rng.pick(REMOTE_NAMES));
            if v.remote_views.contains_key(&new) {
                return None;
            }
            let rv = v.remote_views.remove(&remote)?;
            v.remote_views.insert(new, rv);
            "remote_renamed"
        }
        10 => {
            // wc commit of a workspace vs git head of the same workspace
            let ws = pick_key(rng, &v.wc_commit_ids)?;
            if v.git_heads.contains_key(&ws) {
                return None;
            }
            let id = v.wc_commit_ids.remove(&ws)?;
            v.git_heads.insert(ws, RefTarget::normal(id));
            "wc_commit_vs_git_head"
        }
        11 => {
            // conflict replaced by one of its sides
            let remote = pick_key(rng, &v.remote_views)?;
            let rv = v.remote_views.get_mut(&remote)?;
            let name = pick_key(rng, &rv.bookmarks)?;
            let r = rv.bookmarks.get_mut(&name)?;
            if !r.target.has_conflict() {
                return None;
            }
            let side = r.target.added_ids().next()?.clone();
            r.target = RefTarget::normal(side);
            "conflict_vs_side"
        }
        _ => {
            // absent term vs present term inside a conflict
            let name = pick_key(rng, &v.local_tags).or_else(|| pick_key(rng, &v.local_bookmarks))?;
            let map = if v.local_tags.contains_key(&name) { &mut v.local_tags } else { &mut v.local_bookmarks };
            let t = map.get(&name)?.clone();
            if !t.has_conflict() {
                return None;
            }
            let mut terms: Vec<Option<CommitId>> = t.as_merge().iter().cloned().collect();
            let i = rng.below(terms.len());
            terms[i] = if terms[i].is_some() { None } else { Some(rng.pick(pool).clone()) };
            map.insert(name, canonical_target(Merge::from_vec(terms)));
            "absent_vs_present_term"
        }
    };
    if v == *base || !holdable(&v) {
        return None;
    }
    Some((kind, v))
}

const OP_STRINGS: &[&str] = &[
    "",
    "a",
    "ab",
    "abc",
    "b",
    "bc",
    "c",
    "snapshot working copy",
    "ünï 日本 🎉",
    "line1\nline2\n",
    "args: jj log -r 'a|b' --config=x=\"y\"",
    " padded ",
    "nul\0inside",
    "host.example.com",
];

const TS_MILLIS: &[i64] = &[
    0,
    1,
    -1,
    999,
    1000,
    -1000,
    -1500,
    -2000,
    1_234_567,
    1_234_567_000,
    1_700_000_000_123,
    32_503_680_000_000,
    253_402_300_799_000,
    -62_135_596_800_000,
];
const TZ_MINS: &[i32] = &[0, 0, 60, -60, 330, -480, 765, 1, -1, 1439, -1439, 1440, -1440];

fn gen_timestamp(rng: &mut Rng) -> Timestamp {
    let ms = if rng.chance(2, 3) {
        *rng.pick(TS_MILLIS)
    } else {
        rng.range_i64(-4_000_000_000_000, 4_000_000_000_000)
    };
    let tz = if rng.chance(2, 3) { *rng.pick(TZ_MINS) } else { rng.range_i64(-1440, 1440) as i32 };
    Timestamp { timestamp: MillisSinceEpoch(ms), tz_offset: tz }
}

fn gen_op_id(rng: &mut Rng) -> OperationId {
    OperationId::new(rand_bytes(rng, 64))
}

fn gen_operation(rng: &mut Rng, view_id: &ViewId, pool: &[CommitId]) -> Operation {
    let n_parents = *rng.pick(&[1usize, 1, 1, 2, 2, 3]);
    let parents = (0..n_parents).map(|_| gen_op_id(rng)).collect();
    let s = |rng: &mut Rng| (*rng.pick(OP_STRINGS)).to_owned();
    let mut attributes = BTreeMap::new();
    for _ in 0..*rng.pick(&[0usize, 0, 1, 2, 3]) {
        attributes.insert(s(rng), s(rng));
    }
    let workspace_name = match rng.below(4) {
        0 => None,
        1 => Some(WorkspaceNameBuf::from("")),
        _ => Some(WorkspaceNameBuf::from(*rng.pick(WS_NAMES))),
    };
    let commit_predecessors = match rng.below(5) {
        0 => None,
        1 => Some(BTreeMap::new()),
        _ => {
            let mut m = BTreeMap::new();
            for _ in 0..rng.range(1, 3) {
                let preds: Vec<CommitId> = (0..rng.below(3)).map(|_| rng.pick(pool).clone()).collect();
                m.insert(rng.pick(pool).clone(), preds);
            }
            Some(m)
        }
    };
    let view_id = if rng.chance(1, 3) { ViewId::new(rand_bytes(rng, 64)) } else { view_id.clone() };
    Operation {
        view_id,
        parents,
        metadata: OperationMetadata {
            time: TimestampRange { start: gen_timestamp(rng), end: gen_timestamp(rng) },
            description: s(rng),
            hostname: s(rng),
            username: s(rng),
            is_snapshot: rng.bool(),
            workspace_name,
            attributes,
        },
        commit_predecessors,
    }
}

/// Moves the last char of `a` to the front of `b`.
fn shift_boundary(a: &mut String, b: &mut String) -> bool {
    match a.pop() {
        Some(c) => {
            b.insert(0, c);
            true
        }
        None => false,
    }
}

fn mutate_operation(rng: &mut Rng, base: &Operation, pool: &[CommitId]) -> Option<(&'static str, Operation)> {
    let mut o = base.clone();
    let kind: &'static str = match rng.below(12) {
        0 => {
            let m = &mut o.metadata;
            let ok = match rng.below(3) {
                0 => shift_boundary(&mut m.description, &mut m.hostname),
                1 => shift_boundary(&mut m.hostname, &mut m.username),
                _ => {
                    // hostname "" / username "x"  vs  hostname "x" / username ""
                    std::mem::swap(&mut m.hostname, &mut m.username);
                    true
                }
            };
            if !ok {
                return None;
            }
            "string_boundary_shift"
        }
        1 => {
            o.commit_predecessors = match &o.commit_predecessors {
                None => Some(BTreeMap::new()),
                Some(m) if m.is_empty() => None,
                Some(m) => {
                    let mut m = m.clone();
                    let k = pick_key(rng, &m)?;
                    m.remove(&k);
                    Some(m)
                }
            };
            "predecessors_none_empty_some"
        }
        2 => {
            o.metadata.workspace_name = match &o.metadata.workspace_name {
                None => Some(WorkspaceNameBuf::from("")),
                Some(n) if n.as_str().is_empty() => None,
                Some(_) => None,
            };
            "workspace_none_vs_empty"
        }
        3 => {
            if o.parents.len() >= 2 {
                if rng.bool() {
                    o.parents.swap(0, 1);
                } else {
                    o.parents.pop();
                }
            } else {
                o.parents.push(gen_op_id(rng));
            }
            "parents_changed"
        }
        4 => {
            let t = &mut o.metadata.time;
            match rng.below(4) {
                0 => std::mem::swap(&mut t.start, &mut t.end),
                1 => t.start.tz_offset += 1,
                2 => t.end.timestamp.0 += 1,
                _ => {
                    // ms and tz are adjacent: move one unit across
                    t.start.timestamp.0 = t.start.timestamp.0.wrapping_add(1 << 32);
                }
            }
            "time_changed"
        }
        5 => {
            o.metadata.is_snapshot = !o.metadata.is_snapshot;
            "snapshot_flag"
        }
        6 => {
            let a = &mut o.metadata.attributes;
            if let Some(k) = pick_key(rng, a) {
                let v = a.remove(&k)?;
                match rng.below(3) {
                    0 => {
                        a.insert(format!("{k}{v}"), String::new());
                    }
                    1 => {
                        a.insert(v, k);
                    }
                    _ => {}
                }
            } else {
                a.insert(String::new(), String::new());
            }
            "attributes_changed"
        }
        7 => {
            let mut b = o.view_id.to_bytes();
            let i = rng.below(b.len());
            b[i] ^= 1 << rng.below(8);
            o.view_id = ViewId::new(b);
            "view_id_bit_flip"
        }
        8 => {
            // {A: [B]}  vs  {A: [], B: []}
            let m = o.commit_predecessors.as_mut()?;
            let k = pick_key(rng, m)?;
            let preds = m.get_mut(&k)?;
            let p = preds.pop()?;
            m.entry(p).or_default();
            "predecessor_becomes_key"
        }
        9 => {
            // description moves into an attribute
            let d = std::mem::take(&mut o.metadata.description);
            if d.is_empty() || o.metadata.attributes.contains_key(&d) {
                return None;
            }
            o.metadata.attributes.insert(d, String::new());
            "description_becomes_attribute"
        }
        10 => {
            let m = o.commit_predecessors.as_mut()?;
            let k = pick_key(rng, m)?;
            m.get_mut(&k)?.push(rng.pick(pool).clone());
            "predecessor_added"
        }
        _ => {
            // view id and first parent are adjacent 64-byte strings
            let first = o.parents.first()?.to_bytes();
            let old_view = o.view_id.to_bytes();
            o.view_id = ViewId::new(first);
            o.parents[0] = OperationId::new(old_view);
            "view_id_swapped_with_parent"
        }
    };
    if o == *base {
        return None;
    }
    Some((kind, o))
}

// ---------------------------------------------------------------------------
// JSON rendering (stable, used for replay files and case dedup)

fn hex(bytes: &[u8]) -> String {
    bytes.iter().map(|b| format!("{b:02x}")).collect()
}

fn target_str(t: &RefTarget) -> String {
    if t.is_absent() {
        return "absent".into();
    }
    if let Some(id) = t.as_normal() {
        return id.hex();
    }
    let terms: Vec<String> = t
        .as_merge()
        .iter()
        .enumerate()
        .map(|(i, term)| {
            format!("{}{}", if i % 2 == 0 { "+" } else { "-" }, term.as_ref().map_or("absent".to_owned(), |id| id.hex()))
        })
        .collect();
    format!("conflict[{}]", terms.join(" "))
}

fn remote_ref_str(r: &RemoteRef) -> String {
    format!("{}@{:?}", target_str(&r.target), r.state)
}

fn view_json(v: &op_store::View) -> Value {
    let mut heads: Vec<String> = v.head_ids.iter().map(|h| h.hex()).collect();
    heads.sort();
    let tmap = |m: &mut dyn Iterator<Item = (String, &RefTarget)>| -> Value {
        Value::Object(m.map(|(k, t)| (k, json!(target_str(t)))).collect())
    };
    let rmap = |m: &BTreeMap<RefNameBuf, RemoteRef>| -> Value {
        Value::Object(m.iter().map(|(k, r)| (k.as_str().to_owned(), json!(remote_ref_str(r)))).collect())
    };
    json!({
        "heads": heads,
        "local_bookmarks": tmap(&mut v.local_bookmarks.iter().map(|(k, t)| (k.as_str().to_owned(), t))),
        "local_tags": tmap(&mut v.local_tags.iter().map(|(k, t)| (k.as_str().to_owned(), t))),
        "remote_views": Value::Object(v.remote_views.iter().map(|(k, rv)| {
            (k.as_str().to_owned(), json!({"bookmarks": rmap(&rv.bookmarks), "tags": rmap(&rv.tags)}))
        }).collect()),
        "git_refs": tmap(&mut v.git_refs.iter().map(|(k, t)| (k.as_str().to_owned(), t))),
        "git_heads": tmap(&mut v.git_heads.iter().map(|(k, t)| (k.as_str().to_owned(), t))),
        "wc_commit_ids": Value::Object(v.wc_commit_ids.iter().map(|(k, id)| (k.as_str().to_owned(), json!(id.hex()))).collect()),
    })
}

fn ts_json(t: &Timestamp) -> Value {
    json!({"ms": t.timestamp.0, "tz": t.tz_offset})
}

fn op_json(o: &Operation) -> Value {
    json!({
        "view_id": o.view_id.hex(),
        "parents": o.parents.iter().map(|p| p.hex()).collect::<Vec<_>>(),
        "start": ts_json(&o.metadata.time.start),
        "end": ts_json(&o.metadata.time.end),
        "description": o.metadata.description,
        "hostname": o.metadata.hostname,
        "username": o.metadata.username,
        "is_snapshot": o.metadata.is_snapshot,
        "workspace_name": o.metadata.workspace_name.as_ref().map(|n| n.as_str().to_owned()),
        "attributes": o.metadata.attributes,
        "commit_predecessors": o.commit_predecessors.as_ref().map(|m| {
            Value::Object(m.iter().map(|(k, v)| (k.hex(), json!(v.iter().map(|p| p.hex()).collect::<Vec<_>>()))).collect())
        }),
    })
}

fn view_diff(a: &op_store::View, b: &op_store::View) -> String {
    let mut out = vec![];
    macro_rules! field {
        ($f:ident) => {
            if a.$f != b.$f {
                out.push(format!("{}: {:?} != {:?}", stringify!($f), a.$f, b.$f));
            }
        };
    }
    field!(head_ids);
    field!(local_bookmarks);
    field!(local_tags);
    field!(remote_views);
    field!(git_refs);
    field!(git_heads);
    field!(wc_commit_ids);
    truncate(&out.join("; "), 1500)
}

/// Equal value rebuilt from scratch: new collections, new `RandomState`,
/// shuffled insertion order.
fn rebuild_view(rng: &mut Rng, v: &op_store::View) -> op_store::View {
    let mut heads: Vec<CommitId> = v.head_ids.iter().cloned().collect();
    rng.shuffle(&mut heads);
    let mut head_ids = HashSet::new();
    for h in heads {
        head_ids.insert(CommitId::new(h.to_bytes()));
    }
    fn rebuild_map<K: Ord + Clone, V: Clone>(rng: &mut Rng, m: &BTreeMap<K, V>) -> BTreeMap<K, V> {
        let mut items: Vec<(K, V)> = m.iter().map(|(k, v)| (k.clone(), v.clone())).collect();
        rng.shuffle(&mut items);
        items.into_iter().collect()
    }
    let remote_views: BTreeMap<RemoteNameBuf, RemoteView> = rebuild_map(rng, &v.remote_views)
        .into_iter()
        .map(|(k, rv)| {
            (k, RemoteView { bookmarks: rebuild_map(rng, &rv.bookmarks), tags: rebuild_map(rng, &rv.tags) })
        })
        .collect();
    op_store::View {
        head_ids,
        local_bookmarks: rebuild_map(rng, &v.local_bookmarks),
        local_tags: rebuild_map(rng, &v.local_tags),
        remote_views,
        git_refs: rebuild_map(rng, &v.git_refs),
        git_heads: rebuild_map(rng, &v.git_heads),
        wc_commit_ids: rebuild_map(rng, &v.wc_commit_ids),
    }
}

// ---------------------------------------------------------------------------
// C16 oracle

struct OpStoreFixture {
    _dir: tempfile::TempDir,
    path: PathBuf,
    root: RootOperationData,
    store: SimpleOpStore,
}

fn new_op_store_fixture() -> OpStoreFixture {
    let dir = tempfile::Builder::new().prefix("c16-opstore-").tempdir().expect("harness: tempdir");
    let path = dir.path().to_path_buf();
    let root = RootOperationData { root_commit_id: CommitId::new(vec![0; 20]) };
    let store = SimpleOpStore::init(&path, root.clone()).expect("harness: op store init");
    OpStoreFixture { _dir: dir, path, root, store }
}

thread_local! {
    static OP_STORE: RefCell<Option<OpStoreFixture>> = const { RefCell::new(None) };
}

fn with_op_store<R>(f: impl FnOnce(&OpStoreFixture) -> R) -> R {
    OP_STORE.with(|cell| {
        let mut slot = cell.borrow_mut();
        if slot.is_none() {
            *slot = Some(new_op_store_fixture());
        }
        f(slot.as_ref().unwrap())
    })
}

/// encoding -> value over everything generated in this process.
struct Seen {
    views: Mutex<HashMap<Vec<u8>, op_store::View>>,
    ops: Mutex<HashMap<Vec<u8>, Operation>>,
}

fn check_view(fx: &OpStoreFixture, seen: &Seen, rng: &mut Rng, v: &op_store::View) -> Result<(ViewId, Vec<u8>), Fail> {
    let enc = encode(v);
    let id = fx.store.write_view(v).block_on().unwrap_or_else(|e| panic!("harness: write_view failed: {e}"));
    ensure!(
        id.as_bytes() == blake2b(&enc).as_slice(),
        "view.id_is_blake2b_of_encoding",
        "write_view returned {} but BLAKE2b-512 of the hashed bytes is {}",
        id.hex(),
        hex(&blake2b(&enc))
    );
    // read back on a fresh store instance
    let fresh = SimpleOpStore::load(&fx.path, fx.root.clone());
    let r = match fresh.read_view(&id).block_on() {
        Ok(r) => r,
        Err(e) => return failure("view.read_error", format!("view {} was written but cannot be read: {e:?}", id.hex())),
    };
    ensure!(r == *v, "view.roundtrip", "read_view(write_view(v)) != v: {}", view_diff(v, &r));
    // id depends only on the value
    let v2 = rebuild_view(rng, v);
    assert!(v2 == *v, "harness: rebuilt view differs");
    let enc2 = encode(&v2);
    ensure!(
        enc2 == enc && encode(&r) == enc,
        "view.encoding_depends_only_on_value",
        "equal views (rebuilt with another insertion order / read back) feed different bytes to the hasher"
    );
    let id2 = fresh.write_view(&v2).block_on().unwrap_or_else(|e| panic!("harness: write_view failed: {e}"));
    ensure!(
        id2 == id,
        "view.id_depends_only_on_value",
        "equal views written twice got ids {} and {}",
        id.hex(),
        id2.hex()
    );
    // injectivity by decodability
    match dec_view(&enc) {
        Ok(d) => ensure!(
            d == *v,
            "view.encoding_decodes_to_value",
            "the hashed bytes decode (documented scheme) to a different view: {}",
            view_diff(v, &d)
        ),
        Err(e) => return failure("view.encoding_decodable", format!("hashed bytes do not follow the documented scheme: {e}")),
    }
    let mut map = seen.views.lock().unwrap();
    if let Some(other) = map.get(&enc) {
        ensure!(
            other == v,
            "view.encoding_collision",
            "two different views share one hashed encoding: {}",
            view_diff(v, other)
        );
    } else {
        map.insert(enc.clone(), v.clone());
    }
    Ok((id, enc))
}

fn check_operation(fx: &OpStoreFixture, seen: &Seen, o: &Operation) -> Result<(OperationId, Vec<u8>), Fail> {
    let enc = encode(o);
    let id = fx.store.write_operation(o).block_on().unwrap_or_else(|e| panic!("harness: write_operation failed: {e}"));
    ensure!(
        id.as_bytes() == blake2b(&enc).as_slice(),
        "op.id_is_blake2b_of_encoding",
        "write_operation returned {} but BLAKE2b-512 of the hashed bytes is {}",
        id.hex(),
        hex(&blake2b(&enc))
    );
    let fresh = SimpleOpStore::load(&fx.path, fx.root.clone());
    let r = match fresh.read_operation(&id).block_on() {
        Ok(r) => r,
        Err(e) => return failure("op.read_error", format!("operation {} was written but cannot be read: {e:?}", id.hex())),
    };
    ensure!(r == *o, "op.roundtrip", "read_operation(write_operation(o)) != o:\nwritten {:?}\nread    {:?}", o, r);
    // equal value rebuilt through its JSON-free parts (fresh maps)
    let o2 = Operation {
        view_id: ViewId::new(o.view_id.to_bytes()),
        parents: o.parents.iter().map(|p| OperationId::new(p.to_bytes())).collect(),
        metadata: OperationMetadata {
            attributes: o.metadata.attributes.iter().rev().map(|(k, v)| (k.clone(), v.clone())).collect(),
            ..o.metadata.clone()
        },
        commit_predecessors: o
            .commit_predecessors
            .as_ref()
            .map(|m| m.iter().rev().map(|(k, v)| (k.clone(), v.clone())).collect()),
    };
    assert!(o2 == *o, "harness: rebuilt operation differs");
    ensure!(
        encode(&o2) == enc && encode(&r) == enc,
        "op.encoding_depends_only_on_value",
        "equal operations feed different bytes to the hasher"
    );
    let id2 = fresh.write_operation(&o2).block_on().unwrap_or_else(|e| panic!("harness: write_operation failed: {e}"));
    ensure!(id2 == id, "op.id_depends_only_on_value", "equal operations got ids {} and {}", id.hex(), id2.hex());
    match dec_operation(&enc) {
        Ok(d) => ensure!(
            d == *o,
            "op.encoding_decodes_to_value",
            "the hashed bytes decode to a different operation:\noriginal {:?}\ndecoded  {:?}",
            o,
            d
        ),
        Err(e) => return failure("op.encoding_decodable", format!("hashed bytes do not follow the documented scheme: {e}")),
    }
    let mut map = seen.ops.lock().unwrap();
    if let Some(other) = map.get(&enc) {
        ensure!(
            other == o,
            "op.encoding_collision",
            "two different operations share one hashed encoding:\n{:?}\n{:?}",
            o,
            other
        );
    } else {
        map.insert(enc.clone(), o.clone());
    }
    Ok((id, enc))
}

struct C16Case {
    pool: Vec<CommitId>,
    view: op_store::View,
    view_variants: Vec<(&'static str, op_store::View)>,
    /// Seed for the operation part (needs the view id, so it is generated
    /// inside the oracle from this seed).
    op_seed: u64,
    misc_seed: u64,
}

fn gen_c16_case(rng: &mut Rng) -> C16Case {
    let pool = gen_id_pool(rng);
    let view = gen_view(rng, &pool);
    let mut view_variants = vec![];
    for _ in 0..8 {
        if view_variants.len() >= 3 {
            break;
        }
        if let Some((kind, v)) = mutate_view(rng, &view, &pool)
            && !view_variants.iter().any(|(_, w)| *w == v)
        {
            view_variants.push((kind, v));
        }
    }
    C16Case { pool, view, view_variants, op_seed: rng.next_u64(), misc_seed: rng.next_u64() }
}

fn gen_c16_ops(case: &C16Case, view_id: &ViewId) -> (Operation, Vec<(&'static str, Operation)>) {
    let mut rng = Rng::new(case.op_seed);
    let op = gen_operation(&mut rng, view_id, &case.pool);
    let mut variants: Vec<(&'static str, Operation)> = vec![];
    for _ in 0..8 {
        if variants.len() >= 3 {
            break;
        }
        if let Some((kind, o)) = mutate_operation(&mut rng, &op, &case.pool)
            && !variants.iter().any(|(_, w)| *w == o)
        {
            variants.push((kind, o));
        }
    }
    (op, variants)
}

struct C16Outcome {
    view_id: String,
    op_id: String,
    op: Operation,
    op_variants: Vec<&'static str>,
}

fn run_c16_case(fx: &OpStoreFixture, seen: &Seen, case: &C16Case) -> Result<C16Outcome, Fail> {
    let mut rng = Rng::new(case.misc_seed);
    let (view_id, view_enc) = check_view(fx, seen, &mut rng, &case.view)?;
    for (kind, variant) in &case.view_variants {
        let (vid, venc) = check_view(fx, seen, &mut rng, variant).map_err(|f| Fail {
            clause: f.clause,
            message: format!("(near-miss variant {kind}) {}", f.message),
        })?;
        ensure!(
            venc != view_enc && vid != view_id,
            "view.distinct_values_distinct_ids",
            "near-miss pair ({kind}) differs as values but shares {}: {}",
            if venc == view_enc { "the hashed encoding" } else { "the id" },
            view_diff(&case.view, variant)
        );
    }
    let (op, op_variants) = gen_c16_ops(case, &view_id);
    let (op_id, op_enc) = check_operation(fx, seen, &op)?;
    for (kind, variant) in &op_variants {
        let (oid, oenc) = check_operation(fx, seen, variant).map_err(|f| Fail {
            clause: f.clause,
            message: format!("(near-miss variant {kind}) {}", f.message),
        })?;
        ensure!(
            oenc != op_enc && oid != op_id,
            "op.distinct_values_distinct_ids",
            "near-miss pair ({kind}) differs as values but shares {}:\n{:?}\n{:?}",
            if oenc == op_enc { "the hashed encoding" } else { "the id" },
            op,
            variant
        );
    }
    Ok(C16Outcome {
        view_id: view_id.hex(),
        op_id: op_id.hex(),
        op,
        op_variants: op_variants.iter().map(|(k, _)| *k).collect(),
    })
}

const C16_CHILD_CASES: u64 = 40;

fn c16_child(ctx: &Ctx) -> i32 {
    // Prints the ids this process computes for the first cases of the seed.
    let seen = Seen { views: Mutex::new(HashMap::new()), ops: Mutex::new(HashMap::new()) };
    for i in 0..C16_CHILD_CASES {
        let cs = case_seed(ctx.seed(), "C16", i);
        let mut rng = Rng::new(cs);
        let case = gen_c16_case(&mut rng);
        match with_op_store(|fx| run_c16_case(fx, &seen, &case)) {
            Ok(out) => println!("CHILD-ID {i} {} {}", out.view_id, out.op_id),
            Err(f) => println!("CHILD-FAIL {i} {}", f.clause),
        }
    }
    0
}

fn count_view_features(ctx: &Ctx, v: &op_store::View) {
    let all_targets = v
        .local_bookmarks
        .values()
        .chain(v.local_tags.values())
        .chain(v.git_refs.values())
        .chain(v.git_heads.values());
    let mut conflicted = false;
    let mut with_absent_term = false;
    for t in all_targets {
        if t.has_conflict() {
            conflicted = true;
            if t.as_merge().iter().any(|x| x.is_none()) {
                with_absent_term = true;
            }
        }
    }
    if conflicted {
        ctx.count("view_with_conflicted_local_target");
    }
    if with_absent_term {
        ctx.count("view_with_conflict_containing_absent_term");
    }
    for rv in v.remote_views.values() {
        if rv.bookmarks.is_empty() && rv.tags.is_empty() {
            ctx.count("remote_view_empty");
        }
        for (what, m) in [("bookmark", &rv.bookmarks), ("tag", &rv.tags)] {
            for r in m.values() {
                let shape = if r.is_absent() {
                    "absent"
                } else if r.target.has_conflict() {
                    "conflicted"
                } else {
                    "normal"
                };
                ctx.count(&format!("remote_{what}_{shape}_{:?}", r.state));
            }
        }
    }
    if v.head_ids.len() > 1 {
        ctx.count("view_with_several_heads");
    }
    if !v.git_heads.is_empty() {
        ctx.count("view_with_git_heads");
    }
    if !v.git_refs.is_empty() {
        ctx.count("view_with_git_refs");
    }
    if v.wc_commit_ids.len() > 1 {
        ctx.count("view_with_several_workspaces");
    }
    if !v.local_tags.is_empty() {
        ctx.count("view_with_local_tags");
    }
}

pub fn run_c16(ctx: &Ctx) -> i32 {
    if ctx.args.extra.first().map(String::as_str) == Some("child-ids") {
        return c16_child(ctx);
    }
    ctx.set_rule(
        "A case is one view built only through jj_lib::view::View setters (random sequences of \
         add/remove head, set local/remote bookmark and tag, git ref, git head, wc commit, \
         remove/rename workspace and remote; targets absent/normal/3- and 5-term conflicts with \
         absent terms in merge_ref_targets' canonical form or RefTarget::from_legacy_form; planted \
         absent-but-tracked remote refs and emptied remotes; commit ids from a 3..7 element pool, one \
         case in four with 1..3 byte ids), up to 3 near-miss variants of it (one structural edit \
         each, kept only if still reachable through the setters), one operation (1..3 parents, \
         metadata with unicode/NUL/empty strings, attributes, workspace None/Some(\"\")/Some, \
         predecessors None/empty/map) and up to 3 near-miss variants. Every value is written to a \
         SimpleOpStore, read on a fresh instance, its ContentHash bytes recorded, hashed by the \
         harness, decoded by an independent decoder and entered in a process-wide encoding->value \
         map. Non-trivial: the view has at least one ref entry (any map non-empty). Distinct: by the \
         canonical JSON of (view, variants, operation seed).",
    );
    ctx.assume(
        "op/view ids are 64 bytes (SimpleOpStore rejects other lengths on read); commit ids are \
         non-empty byte strings; views are limited to what View's setters can produce",
    );
    let seen = Seen { views: Mutex::new(HashMap::new()), ops: Mutex::new(HashMap::new()) };
    let parent_ids: Mutex<BTreeMap<u64, (String, String)>> = Mutex::new(BTreeMap::new());
    let n = ctx.tier().pick(24_000, 1_000_000);
    par_cases(ctx, n, threads(), |i, cs, rng| {
        let case = gen_c16_case(rng);
        let describe = || {
            json!({
                "view": view_json(&case.view),
                "view_variants": case.view_variants.iter().map(|(k, v)| json!({"kind": k, "view": view_json(v)})).collect::<Vec<_>>(),
                "op_seed": case.op_seed,
                "note": "the operation and its variants are generated from op_seed and the written view's id",
            })
        };
        let mut outcome = None;
        run_case(ctx, i, cs, describe, || {
            let out = with_op_store(|fx| run_c16_case(fx, &seen, &case))?;
            outcome = Some(out);
            Ok(())
        });
        let v = &case.view;
        let nontrivial = !(v.local_bookmarks.is_empty()
            && v.local_tags.is_empty()
            && v.remote_views.is_empty()
            && v.git_refs.is_empty()
            && v.git_heads.is_empty()
            && v.wc_commit_ids.is_empty());
        ctx.case(stable_hash(&describe().to_string()), nontrivial);
        count_view_features(ctx, v);
        for (kind, _) in &case.view_variants {
            ctx.count(&format!("view_near_miss_{kind}"));
        }
        ctx.count_n("views_checked", 1 + case.view_variants.len() as u64);
        if let Some(out) = outcome {
            ctx.count_n("operations_checked", 1 + out.op_variants.len() as u64);
            for kind in &out.op_variants {
                ctx.count(&format!("op_near_miss_{kind}"));
            }
            ctx.count(&format!("op_parents_{}", out.op.parents.len()));
            ctx.count(match &out.op.commit_predecessors {
                None => "op_predecessors_none",
                Some(m) if m.is_empty() => "op_predecessors_empty",
                Some(_) => "op_predecessors_some",
            });
            if !out.op.metadata.attributes.is_empty() {
                ctx.count("op_with_attributes");
            }
            ctx.count(match &out.op.metadata.workspace_name {
                None => "op_workspace_none",
                Some(n) if n.as_str().is_empty() => "op_workspace_empty_string",
                Some(_) => "op_workspace_some",
            });
            if i < C16_CHILD_CASES {
                parent_ids.lock().unwrap().insert(i, (out.view_id.clone(), out.op_id.clone()));
            }
            if nontrivial {
                ctx.sample(|| json!({"view": view_json(v), "operation": op_json(&out.op)}));
            }
        }
    });
    if ctx.args.replay.is_none() && ctx.violations() == 0 {
        c16_cross_process(ctx, &parent_ids.lock().unwrap());
    }
    ctx.finish(500)
}

/// Same values in another process must get the same ids (new `RandomState`s,
/// new store directory).
fn c16_cross_process(ctx: &Ctx, parent_ids: &BTreeMap<u64, (String, String)>) {
    let exe = match std::env::current_exe() {
        Ok(p) => p,
        Err(e) => {
            ctx.inconclusive(&format!("cannot locate own executable for the cross-process id check: {e}"));
            return;
        }
    };
    let output = std::process::Command::new(exe)
        .args(["C16", ctx.tier().as_str(), "child-ids"])
        .env("VERIF_SEED", (ctx.seed() as i64).to_string())
        .output();
    let output = match output {
        Ok(o) if o.status.success() => o,
        Ok(o) => {
            ctx.inconclusive(&format!("child process for the cross-process id check exited with {}", o.status));
            return;
        }
        Err(e) => {
            ctx.inconclusive(&format!("cannot spawn the child process for the cross-process id check: {e}"));
            return;
        }
    };
    let text = String::from_utf8_lossy(&output.stdout);
    let mut compared = 0u64;
    for line in text.lines() {
        let parts: Vec<&str> = line.split_whitespace().collect();
        if parts.len() == 4 && parts[0] == "CHILD-ID" {
            let Ok(i) = parts[1].parse::<u64>() else { continue };
            if let Some((view_id, op_id)) = parent_ids.get(&i) {
                compared += 1;
                if view_id != parts[2] || op_id != parts[3] {
                    ctx.violation(
                        "id.same_in_other_process",
                        &format!(
                            "clause id.same_in_other_process: case {i}: this process got view {view_id} op {op_id}, \
                             another process got view {} op {}",
                            parts[2], parts[3]
                        ),
                        json!({"case_index": i, "case_seed": case_seed(ctx.seed(), "C16", i)}),
                    );
                }
            }
        }
    }
    ctx.count_n("ids_compared_with_other_process", compared);
    if compared == 0 && !parent_ids.is_empty() {
        ctx.inconclusive("the child process reported no ids for the cross-process id check");
    }
}

// ===========================================================================
// C17: commit backends
// ===========================================================================

#[derive(Clone, Copy, Debug, PartialEq, Eq, Hash)]
enum Kind {
    /// Git backend, default settings (change-id header written).
    Git,
    /// Git backend with `git.write-change-id-header = false`: the change id
    /// and predecessors live only in the extras table, so commits that differ
    /// only there collide on the Git object id and exercise the
    /// committer-timestamp adjustment loop.
    GitNoHeader,
    Simple,
}

impl Kind {
    /// Clause prefix.
    fn p(self) -> &'static str {
        match self {
            Self::Git | Self::GitNoHeader => "git",
            Self::Simple => "simple",
        }
    }
    fn is_git(self) -> bool {
        self != Self::Simple
    }
}

struct BackendFixture {
    kind: Kind,
    _dir: tempfile::TempDir,
    store_path: PathBuf,
    settings: UserSettings,
    store: Arc<Store>,
    /// id -> commit as reported by write, for everything written to this store.
    seen: HashMap<CommitId, backend::Commit>,
}

fn settings_for(kind: Kind) -> UserSettings {
    let mut config = testutils::base_user_config();
    if kind == Kind::GitNoHeader {
        config.add_layer(
            ConfigLayer::parse(ConfigSource::User, "git.write-change-id-header = false").expect("harness: config"),
        );
    }
    UserSettings::from_config(config).expect("harness: settings")
}

fn make_store(kind: Kind, settings: &UserSettings, store_path: &Path, init: bool) -> Arc<Store> {
    let backend: Box<dyn backend::Backend> = match (kind.is_git(), init) {
        (true, true) => Box::new(
            GitBackend::init_internal(settings, store_path, gix::hash::Kind::Sha1).expect("harness: git backend init"),
        ),
        (true, false) => Box::new(GitBackend::load(settings, store_path).expect("harness: git backend load")),
        (false, true) => Box::new(SimpleBackend::init(store_path)),
        (false, false) => Box::new(SimpleBackend::load(store_path)),
    };
    Store::new(
        backend,
        Signer::from_settings(settings).expect("harness: signer"),
        MergeOptions::from_settings(settings).expect("harness: merge options"),
    )
}

fn new_backend_fixture(kind: Kind) -> BackendFixture {
    let dir = tempfile::Builder::new().prefix("c17-store-").tempdir().expect("harness: tempdir");
    let store_path = dir.path().to_path_buf();
    let settings = settings_for(kind);
    let store = make_store(kind, &settings, &store_path, true);
    BackendFixture { kind, _dir: dir, store_path, settings, store, seen: HashMap::new() }
}

impl BackendFixture {
    /// A new `Store` (new backend object, empty caches) on the same directory.
    fn fresh_store(&self) -> Arc<Store> {
        make_store(self.kind, &self.settings, &self.store_path, false)
    }
}

thread_local! {
    static BACKENDS: RefCell<Vec<BackendFixture>> = const { RefCell::new(vec![]) };
}

fn with_backend<R>(kind: Kind, f: impl FnOnce(&mut BackendFixture) -> R) -> R {
    BACKENDS.with(|cell| {
        let mut list = cell.borrow_mut();
        let pos = match list.iter().position(|fx| fx.kind == kind) {
            Some(pos) => pos,
            None => {
                list.push(new_backend_fixture(kind));
                list.len() - 1
            }
        };
        f(&mut list[pos])
    })
}

// ---------------------------------------------------------------------------
// Trees, files, symlinks

/// File names chosen so that Git's tree order (directories sort as "name/")
/// differs from jj's plain name order, plus unicode and spaces.
const TREE_PATHS: &[&str] = &[
    "a", "a/b", "a/b/c", "a-b", "a.b", "a0", "A", "d", "d/e", "d.txt", "f", "k/l", "ünï/日本", "with space", "z",
];
const SYMLINK_TARGETS: &[&str] = &["a", "../x", "nowhere", "d/e", "", "ünï/日本", "/abs/olute", "with space\n"];

fn gen_blob(rng: &mut Rng) -> Vec<u8> {
    match rng.below(12) {
        0 => vec![],
        1 => b"\0".to_vec(),
        2 => vec![0xff, 0xfe, 0x00, 0x80, b'\r', b'\n', 0xc3],
        3 => {
            // around the simple backend's 16 KiB copy buffer
            let n = *rng.pick(&[16_383usize, 16_384, 16_385, 32_768, 40_001]);
            rand_bytes(rng, n)
        }
        4 => b"line\r\nline\r\n".to_vec(),
        5 => "ünï 日本\n".as_bytes().to_vec(),
        _ => {
            let n = rng.range(1, 6);
            let mut v = vec![];
            for _ in 0..n {
                v.extend_from_slice(rng.pick(&["alpha", "beta", "gamma", "x = 1", ""]).as_bytes());
                v.push(b'\n');
            }
            if rng.chance(1, 5) {
                v.pop();
            }
            v
        }
    }
}

fn gen_tree_model(rng: &mut Rng) -> TreeModel {
    let mut model = TreeModel::new();
    for _ in 0..rng.below(7) {
        let path = *rng.pick(TREE_PATHS);
        let entry = if rng.chance(1, 6) {
            Entry::Symlink((*rng.pick(SYMLINK_TARGETS)).to_owned())
        } else {
            Entry::File { content: gen_blob(rng), exec: rng.chance(1, 4) }
        };
        tree_insert(&mut model, path, entry);
    }
    model
}

async fn read_all(reader: &mut (dyn futures::io::AsyncRead + Send + Unpin)) -> std::io::Result<Vec<u8>> {
    let mut buf = vec![];
    reader.read_to_end(&mut buf).await?;
    Ok(buf)
}

/// Writes `model` (paths relative to `dir`) through the low-level store API.
/// `Err` means the backend rejected something (not a violation by itself).
fn write_tree_model(store: &Arc<Store>, dir: &RepoPath, model: &TreeModel) -> Result<TreeId, String> {
    let mut files: BTreeMap<String, &Entry> = BTreeMap::new();
    let mut subdirs: BTreeMap<String, TreeModel> = BTreeMap::new();
    for (path, entry) in model {
        match path.split_once('/') {
            None => {
                files.insert(path.clone(), entry);
            }
            Some((first, rest)) => {
                subdirs.entry(first.to_owned()).or_default().insert(rest.to_owned(), entry.clone());
            }
        }
    }
    let mut entries: BTreeMap<String, TreeValue> = BTreeMap::new();
    for (name, entry) in files {
        let comp = RepoPathComponentBuf::new(name.clone()).expect("harness: component");
        let path = dir.join(&comp);
        let value = match entry {
            Entry::File { content, exec } => {
                let mut reader: &[u8] = content;
                let mut reader = futures::io::AllowStdIo::new(&mut reader);
                let id = store.write_file(&path, &mut reader).block_on().map_err(|e| format!("write_file: {e:?}"))?;
                TreeValue::File { id, executable: *exec, copy_id: CopyId::placeholder() }
            }
            Entry::Symlink(target) => {
                let id = store.write_symlink(&path, target).block_on().map_err(|e| format!("write_symlink: {e:?}"))?;
                TreeValue::Symlink(id)
            }
        };
        entries.insert(name, value);
    }
    for (name, sub) in subdirs {
        let comp = RepoPathComponentBuf::new(name.clone()).expect("harness: component");
        let id = write_tree_model(store, &dir.join(&comp), &sub)?;
        entries.insert(name, TreeValue::Tree(id));
    }
    let tree = backend::Tree::from_sorted_entries(
        entries
            .into_iter()
            .map(|(name, value)| (RepoPathComponentBuf::new(name).expect("harness: component"), value))
            .collect(),
    );
    let written = store.write_tree(dir, tree).block_on().map_err(|e| format!("write_tree: {e:?}"))?;
    Ok(written.id().clone())
}

/// Reads a tree recursively through `store`; `Err((clause suffix, message))`.
fn read_tree_model_checked(store: &Arc<Store>, dir: &RepoPath, id: &TreeId) -> Result<TreeModel, (String, String)> {
    let tree = store
        .get_tree(dir.to_owned(), id)
        .block_on()
        .map_err(|e| ("tree_read_error".to_owned(), format!("tree {} at {dir:?}: {e:?}", id.hex())))?;
    let names: Vec<&str> = tree.data().names().map(|n| n.as_internal_str()).collect();
    if !names.windows(2).all(|w| w[0] < w[1]) {
        return Err(("tree_entries_sorted".to_owned(), format!("tree {} entries not strictly sorted: {names:?}", id.hex())));
    }
    let mut model = TreeModel::new();
    for entry in tree.entries_non_recursive() {
        let name = entry.name().as_internal_str().to_owned();
        let path = dir.join(entry.name());
        match entry.value() {
            TreeValue::File { id, executable, copy_id } => {
                if *copy_id != CopyId::placeholder() {
                    return Err(("tree_roundtrip".to_owned(), format!("{path:?}: unexpected copy id {copy_id:?}")));
                }
                let mut reader = store
                    .read_file(&path, id)
                    .block_on()
                    .map_err(|e| ("file_read_error".to_owned(), format!("{path:?} {}: {e:?}", id.hex())))?;
                let content = read_all(&mut reader)
                    .block_on()
                    .map_err(|e| ("file_read_error".to_owned(), format!("{path:?} {}: {e:?}", id.hex())))?;
                model.insert(name, Entry::File { content, exec: *executable });
            }
            TreeValue::Symlink(id) => {
                let target = store
                    .read_symlink(&path, id)
                    .block_on()
                    .map_err(|e| ("symlink_read_error".to_owned(), format!("{path:?} {}: {e:?}", id.hex())))?;
                model.insert(name, Entry::Symlink(target));
            }
            TreeValue::Tree(id) => {
                let sub = read_tree_model_checked(store, &path, id)?;
                if sub.is_empty() {
                    model.insert(format!("{name}/<empty-tree>"), Entry::Symlink("<empty-tree>".into()));
                }
                for (p, e) in sub {
                    model.insert(format!("{name}/{p}"), e);
                }
            }
            TreeValue::GitSubmodule(id) => {
                model.insert(name, Entry::Symlink(format!("<submodule {}>", id.hex())));
            }
        }
    }
    Ok(model)
}

// ---------------------------------------------------------------------------
// Commits

const PERSON_NAMES: &[&str] = &["", "Test User", "ünï 日本", "a b  c", "O'Brien \"Q\"", "name.with.dots", "ab", "a", "Ünïcode-Only-名前"];
const EMAILS: &[&str] = &["", "test.user@example.com", "ü@例.jp", "no-at-sign", "with space@x", "c", "bc", "a+b@c.d"];
const DESCRIPTIONS: &[&str] = &[
    "",
    "one line",
    "one line\n",
    "subject\n\nbody paragraph\nsecond line\n",
    "ünï 日本 🎉\n",
    "trailing spaces   \n",
    "no final newline\n\nlast",
    "crlf\r\nline\r\n",
    "subject\n\n\n\nmany blank lines\n\n",
    "tree deadbeef\nparent looks like a header\n",
    "a",
    "ab",
    "\ttabbed\n",
    "\nleading newline\n",
    "\n",
    "   ",
    "nul\0inside\n",
];
const LABELS: &[&str] = &[
    "",
    "rebase destination",
    "abc123 \"commit summary\"",
    "side #1",
    "x",
    "parents of rebased revision (no description set)",
    "ünï 日本",
    " leading space",
    "trailing space ",
];

fn gen_signature(rng: &mut Rng) -> Signature {
    Signature {
        name: (*rng.pick(PERSON_NAMES)).to_owned(),
        email: (*rng.pick(EMAILS)).to_owned(),
        timestamp: gen_timestamp(rng),
    }
}

/// Names and e-mails the generator stays within (see the assumption recorded
/// in `run_c17`): Git cannot represent '<', '>', newlines or NUL in an ident
/// and strips surrounding whitespace, and jj reserves one placeholder string
/// for the empty name.
fn valid_person(s: &Signature) -> bool {
    [&s.name, &s.email].into_iter().all(|v| {
        !v.contains(['<', '>', '\n', '\0']) && v.trim() == v.as_str() && v != "JJ_EMPTY_STRING"
    })
}

fn sig_json(s: &Signature) -> Value {
    json!({"name": s.name, "email": s.email, "ms": s.timestamp.timestamp.0, "tz": s.timestamp.tz_offset})
}

fn commit_json(c: &backend::Commit) -> Value {
    json!({
        "parents": c.parents.iter().map(|p| p.hex()).collect::<Vec<_>>(),
        "predecessors": c.predecessors.iter().map(|p| p.hex()).collect::<Vec<_>>(),
        "root_tree": c.root_tree.iter().map(|t| t.hex()).collect::<Vec<_>>(),
        "conflict_labels": c.conflict_labels.iter().collect::<Vec<_>>(),
        "change_id": c.change_id.hex(),
        "description": c.description,
        "author": sig_json(&c.author),
        "committer": sig_json(&c.committer),
    })
}

/// Field-by-field comparison of what write reported (`w`) with what a fresh
/// store read (`r`). Returns (clause, message) per differing field.
fn compare_commits(p: &str, w: &backend::Commit, r: &backend::Commit) -> Vec<(String, String)> {
    let mut out = vec![];
    macro_rules! cmp {
        ($name:expr, $a:expr, $b:expr) => {
            if $a != $b {
                out.push((format!("{p}.{}", $name), format!("{}: write reported {:?}, fresh store read {:?}", $name, $a, $b)));
            }
        };
    }
    cmp!("parents", w.parents, r.parents);
    cmp!("predecessors", w.predecessors, r.predecessors);
    cmp!("root_tree", w.root_tree, r.root_tree);
    cmp!("conflict_labels", w.conflict_labels, r.conflict_labels);
    cmp!("change_id", w.change_id, r.change_id);
    cmp!("description", w.description, r.description);
    cmp!("author_name", w.author.name, r.author.name);
    cmp!("author_email", w.author.email, r.author.email);
    cmp!("author_tz", w.author.timestamp.tz_offset, r.author.timestamp.tz_offset);
    cmp!("committer_name", w.committer.name, r.committer.name);
    cmp!("committer_email", w.committer.email, r.committer.email);
    cmp!("committer_timestamp", w.committer.timestamp.timestamp.0, r.committer.timestamp.timestamp.0);
    cmp!("committer_tz", w.committer.timestamp.tz_offset, r.committer.timestamp.tz_offset);
    cmp!("secure_sig", w.secure_sig, r.secure_sig);
    // Kept last and under its own clause: known defect of the Git backend
    // (author timestamp returned with milliseconds, stored in whole seconds).
    cmp!("author_timestamp_roundtrip", w.author.timestamp.timestamp.0, r.author.timestamp.timestamp.0);
    out
}

/// True if the two reported commits differ only in the sub-second part of
/// the author timestamp (which the Git backend does not record).
fn differ_only_in_author_subsecond(a: &backend::Commit, b: &backend::Commit) -> bool {
    let mut a2 = a.clone();
    a2.author.timestamp.timestamp = b.author.timestamp.timestamp;
    a2 == *b
        && a.author.timestamp.timestamp.0.div_euclid(1000) == b.author.timestamp.timestamp.0.div_euclid(1000)
}

struct Written {
    what: String,
    id: CommitId,
    w: backend::Commit,
}

struct C17Run<'a> {
    ctx: &'a Ctx,
    index: u64,
    case_seed: u64,
    log: &'a RefCell<Vec<Value>>,
    nontrivial: &'a RefCell<bool>,
}

impl C17Run<'_> {
    /// Reports a mismatch of the known-defect clause without ending the case.
    fn report_side_violation(&self, clause: &str, message: &str) {
        self.ctx.violation(
            clause,
            &format!("clause {clause}: {message}"),
            json!({"case_index": self.index, "case_seed": self.case_seed, "case": {"steps": self.log.borrow().clone()},
                   "clause": clause, "detail": message}),
        );
    }
}

/// Writes `c`; `Ok(None)` if the backend rejected it.
fn write_one(run: &C17Run, fx: &mut BackendFixture, what: &str, c: &backend::Commit) -> Result<Option<Written>, Fail> {
    let p = fx.kind.p();
    run.log.borrow_mut().push(json!({"write": what, "commit": commit_json(c)}));
    let written = match fx.store.write_commit(c.clone(), None).block_on() {
        Ok(w) => w,
        Err(e) => {
            run.ctx.count(&format!("{p}_write_rejected"));
            run.log.borrow_mut().push(json!({"rejected": format!("{e:?}")}));
            return Ok(None);
        }
    };
    let id = written.id().clone();
    let w: backend::Commit = (**written.store_commit()).clone();
    run.log.borrow_mut().push(json!({"id": id.hex()}));
    if w != *c {
        run.ctx.count(&format!("{p}_write_reported_normalised_commit"));
    }
    // The commit cached by the writing store is the one write returned.
    match fx.store.get_commit(&id) {
        Ok(cached) => ensure!(
            **cached.store_commit() == w,
            format!("{p}.cache_is_write_result"),
            "{what}: get_commit in the writing store gives {:?}, write returned {:?}",
            cached.store_commit(),
            w
        ),
        Err(e) => return failure(&format!("{p}.read_error"), format!("{what}: writing store cannot read {}: {e:?}", id.hex())),
    }
    // Different recorded values must not share an id (within this store).
    if let Some(old) = fx.seen.get(&id) {
        if *old != w {
            if fx.kind.is_git() && differ_only_in_author_subsecond(old, &w) {
                run.report_side_violation(
                    "git.author_timestamp_roundtrip",
                    &format!(
                        "{what}: id {} was returned for two commits whose reported author timestamps differ \
                         only below one second ({} vs {} ms)",
                        id.hex(),
                        old.author.timestamp.timestamp.0,
                        w.author.timestamp.timestamp.0
                    ),
                );
            } else {
                return failure(
                    &format!("{p}.distinct_ids"),
                    format!("{what}: id {} returned for two different commits:\n{:?}\n{:?}", id.hex(), old, w),
                );
            }
        }
    } else {
        fx.seen.insert(id.clone(), w.clone());
    }
    Ok(Some(Written { what: what.to_owned(), id, w }))
}

/// Reads every written commit on one fresh store and compares field by field.
fn read_back_all(run: &C17Run, fx: &BackendFixture, written: &[Written]) -> Check {
    read_back_with(run, fx, written, &fx.fresh_store(), fx.kind.p())
}

/// Same, through the given reader (`p` prefixes the clause names).
fn read_back_with(run: &C17Run, fx: &BackendFixture, written: &[Written], fresh: &Arc<Store>, p: &str) -> Check {
    let _ = fx;
    let mut first_failure: Option<Fail> = None;
    for item in written {
        let r = match fresh.get_commit(&item.id) {
            Ok(c) => (**c.store_commit()).clone(),
            Err(e) => {
                return fail(&format!("{p}.read_error"), format!("{}: fresh store cannot read {}: {e:?}", item.what, item.id.hex()));
            }
        };
        run.ctx.count(&format!("{p}_commits_read_back"));
        let diffs = compare_commits(p, &item.w, &r);
        let all = diffs.iter().map(|(_, m)| m.as_str()).collect::<Vec<_>>().join("; ");
        for (clause, message) in &diffs {
            if clause == "git.author_timestamp_roundtrip" {
                run.report_side_violation(clause, &format!("{} ({}): {message}", item.what, item.id.hex()));
            } else if first_failure.is_none() {
                first_failure = Some(Fail {
                    clause: clause.clone(),
                    message: format!("{} ({}): {message} [all differing fields: {all}]", item.what, item.id.hex()),
                });
            }
        }
        if item.w.author.timestamp.timestamp.0.rem_euclid(1000) != 0 {
            run.ctx.count(&format!("{p}_author_timestamp_subsecond"));
        } else {
            run.ctx.count(&format!("{p}_author_timestamp_whole_second"));
        }
    }
    match first_failure {
        Some(f) => Err(f),
        None => Ok(()),
    }
}

fn gen_change_id(rng: &mut Rng) -> ChangeId {
    ChangeId::new(rand_bytes(rng, 16))
}

/// One single-field edit by an amount every backend records (whole seconds
/// for timestamps); plus sub-second edits that only the simple backend keeps.
fn mutate_commit(rng: &mut Rng, kind: Kind, base: &backend::Commit, others: &[CommitId], trees: &[TreeId]) -> Option<(&'static str, backend::Commit)> {
    let mut c = base.clone();
    let label: &'static str = match rng.below(16) {
        0 => {
            if c.parents.len() >= 2 {
                if rng.bool() { c.parents.swap(0, 1) } else { c.parents.truncate(1) }
                "parents"
            } else {
                let extra = others.iter().find(|id| !c.parents.contains(id))?;
                // Git cannot merge with the root commit.
                c.parents.push(extra.clone());
                "parents"
            }
        }
        1 => {
            if c.predecessors.is_empty() || rng.bool() {
                c.predecessors.push(rng.pick(others).clone());
            } else {
                c.predecessors.pop();
            }
            "predecessors"
        }
        2 => {
            if c.root_tree.is_resolved() {
                let other = trees.iter().find(|t| *t != c.root_tree.first())?;
                c.root_tree = Merge::resolved(other.clone());
            } else {
                let mut terms: Vec<TreeId> = c.root_tree.iter().cloned().collect();
                terms.swap(0, 1);
                c.root_tree = Merge::from_vec(terms);
            }
            "root_tree"
        }
        3 => {
            if c.root_tree.is_resolved() {
                return None;
            }
            let n = c.root_tree.as_slice().len();
            if c.conflict_labels.is_resolved() {
                let labels: Vec<String> = (0..n).map(|i| format!("label {i}")).collect();
                c.conflict_labels = ConflictLabels::from_vec(labels).into_merge();
            } else if rng.bool() {
                c.conflict_labels = ConflictLabels::unlabeled().into_merge();
            } else {
                let mut labels: Vec<String> = c.conflict_labels.iter().cloned().collect();
                let i = rng.below(n);
                labels[i].push('!');
                c.conflict_labels = ConflictLabels::from_vec(labels).into_merge();
            }
            "conflict_labels"
        }
        4 => {
            let mut b = c.change_id.to_bytes();
            let i = rng.below(b.len());
            b[i] ^= 1 << rng.below(8);
            c.change_id = ChangeId::new(b);
            "change_id"
        }
        5 => {
            c.description.push_str(*rng.pick(&["x", "\n", " ", "é"]));
            "description"
        }
        6 => {
            if !shift_boundary(&mut c.author.name, &mut c.author.email) {
                c.author.name.push('n');
            }
            "author_name_email_boundary"
        }
        7 => {
            std::mem::swap(&mut c.author, &mut c.committer);
            "author_committer_swapped"
        }
        8 => {
            c.author.timestamp.timestamp.0 += 1000 * rng.range_i64(1, 3);
            "author_timestamp_seconds"
        }
        9 => {
            c.committer.timestamp.timestamp.0 -= 1000 * rng.range_i64(1, 3);
            "committer_timestamp_seconds"
        }
        10 => {
            c.author.timestamp.tz_offset += if c.author.timestamp.tz_offset >= 1440 { -1 } else { 1 };
            "author_tz"
        }
        11 => {
            c.committer.timestamp.tz_offset += if c.committer.timestamp.tz_offset >= 1440 { -1 } else { 1 };
            "committer_tz"
        }
        12 => {
            if !shift_boundary(&mut c.committer.name, &mut c.committer.email) {
                c.committer.email.push('e');
            }
            "committer_name_email_boundary"
        }
        13 => {
            // description <-> author name
            if !shift_boundary(&mut c.description, &mut c.author.name) {
                c.description.push('d');
            }
            "description_author_boundary"
        }
        14 => {
            // sub-second edits: recorded by the simple backend only
            if rng.bool() {
                c.author.timestamp.timestamp.0 += 1;
            } else {
                c.committer.timestamp.timestamp.0 += 1;
            }
            "timestamp_one_millisecond"
        }
        _ => {
            // empty vs missing: predecessors / parents order with root
            c.committer.email = if c.committer.email.is_empty() { "x".into() } else { String::new() };
            "committer_email_empty_vs_not"
        }
    };
    let _ = kind;
    if c == *base || !valid_person(&c.author) || !valid_person(&c.committer) {
        return None;
    }
    Some((label, c))
}

fn run_c17_case(run: &C17Run, fx: &mut BackendFixture, rng: &mut Rng) -> Check {
    let kind = fx.kind;
    let p = kind.p();
    let ctx = run.ctx;
    // A second store instance opened BEFORE this case's writes and primed by
    // reading an older commit, so that whatever it caches (e.g. the Git
    // backend's extras table) predates the writes: a long-running reader.
    let stale_reader = fx.fresh_store();
    if let Some(old_id) = fx.seen.keys().next().cloned() {
        if stale_reader.get_commit(&old_id).is_ok() {
            ctx.count(&format!("{p}_stale_reader_primed"));
        }
    }
    // --- trees, files, symlinks -------------------------------------------
    let n_trees = rng.range(2, 4);
    let mut models: Vec<TreeModel> = vec![];
    let mut tree_ids: Vec<TreeId> = vec![];
    for k in 0..n_trees {
        let model = if k > 0 && rng.chance(1, 3) {
            // a small edit of the previous tree
            let mut m = models[k - 1].clone();
            tree_insert(&mut m, *rng.pick(TREE_PATHS), Entry::File { content: gen_blob(rng), exec: rng.bool() });
            m
        } else {
            gen_tree_model(rng)
        };
        run.log.borrow_mut().push(json!({"write_tree": tree_json(&model)}));
        match write_tree_model(&fx.store, RepoPath::root(), &model) {
            Ok(id) => {
                models.push(model);
                tree_ids.push(id);
            }
            Err(e) => {
                ctx.count(&format!("{p}_tree_write_rejected"));
                run.log.borrow_mut().push(json!({"rejected": e}));
            }
        }
    }
    if tree_ids.is_empty() {
        return Ok(());
    }
    {
        let fresh = fx.fresh_store();
        for (model, id) in models.iter().zip(&tree_ids) {
            let got = read_tree_model_checked(&fresh, RepoPath::root(), id)
                .map_err(|(clause, message)| Fail { clause: format!("{p}.{clause}"), message })?;
            ensure!(
                got == *model,
                format!("{p}.tree_roundtrip"),
                "tree {} written as {} reads back as {}",
                id.hex(),
                tree_json(model),
                tree_json(&got)
            );
            ctx.count(&format!("{p}_trees_read_back"));
            for e in model.values() {
                match e {
                    Entry::File { content, .. } if content.len() > 16_000 => ctx.count(&format!("{p}_large_files_read_back")),
                    Entry::File { .. } => ctx.count(&format!("{p}_files_read_back")),
                    Entry::Symlink(_) => ctx.count(&format!("{p}_symlinks_read_back")),
                }
            }
            // Distinct trees get distinct ids.
            for (other_model, other_id) in models.iter().zip(&tree_ids) {
                ensure!(
                    other_model == model || other_id != id,
                    format!("{p}.tree_distinct_ids"),
                    "different trees share id {}: {} vs {}",
                    id.hex(),
                    tree_json(model),
                    tree_json(other_model)
                );
            }
        }
    }
    // --- a small DAG of commits -------------------------------------------
    let root_id = fx.store.root_commit_id().clone();
    let empty_tree = fx.store.empty_tree_id().clone();
    let mut all_trees = tree_ids.clone();
    all_trees.push(empty_tree);
    let mut written: Vec<Written> = vec![];
    let mut change_ids: Vec<ChangeId> = vec![];
    let n_commits = rng.range(2, 4);
    let id_len = fx.store.commit_id_length();
    for k in 0..n_commits {
        let prior: Vec<CommitId> = written.iter().map(|w| w.id.clone()).collect();
        let last = k == n_commits - 1;
        // parents
        let mut parents: Vec<CommitId> = vec![];
        let want = if prior.is_empty() { 1 } else { *rng.pick(&[1usize, 1, 2, 2, 3]) };
        let mut candidates = prior.clone();
        rng.shuffle(&mut candidates);
        for id in candidates.into_iter().take(want) {
            parents.push(id);
        }
        if parents.is_empty() || (prior.len() < 2 && rng.chance(1, 4)) {
            parents = vec![root_id.clone()];
        } else if !kind.is_git() && rng.chance(1, 6) {
            // only the simple backend accepts merges with the root commit
            parents.push(root_id.clone());
        }
        // predecessors
        let mut predecessors = vec![];
        for _ in 0..*rng.pick(&[0usize, 0, 1, 2]) {
            if !prior.is_empty() && rng.bool() {
                predecessors.push(rng.pick(&prior).clone());
            } else {
                predecessors.push(CommitId::new(rand_bytes(rng, id_len)));
            }
        }
        // tree
        let conflicted = rng.chance(2, 5) || (last && rng.bool());
        let (root_tree, conflict_labels) = if conflicted {
            let n = *rng.pick(&[3usize, 3, 5]);
            let terms: Vec<TreeId> = (0..n).map(|_| rng.pick(&all_trees).clone()).collect();
            let labels = if rng.chance(2, 3) {
                let labels: Vec<String> = (0..n).map(|_| (*rng.pick(LABELS)).to_owned()).collect();
                ConflictLabels::from_vec(labels).into_merge()
            } else {
                ConflictLabels::unlabeled().into_merge()
            };
            (Merge::from_vec(terms), labels)
        } else {
            (Merge::resolved(rng.pick(&all_trees).clone()), Merge::resolved(String::new()))
        };
        let change_id = if !change_ids.is_empty() && rng.chance(1, 4) {
            rng.pick(&change_ids).clone()
        } else {
            gen_change_id(rng)
        };
        change_ids.push(change_id.clone());
        let author = gen_signature(rng);
        let committer = if rng.chance(1, 4) { author.clone() } else { gen_signature(rng) };
        let commit = backend::Commit {
            parents,
            predecessors,
            root_tree,
            conflict_labels,
            change_id,
            description: (*rng.pick(DESCRIPTIONS)).to_owned(),
            author,
            committer,
            secure_sig: None,
        };
        let Some(item) = write_one(run, fx, &format!("commit {k}"), &commit)? else {
            continue;
        };
        // feature counters
        ctx.count(&format!("{p}_commits_written"));
        ctx.count(&format!("{p}_parents_{}", item.w.parents.len()));
        if !item.w.root_tree.is_resolved() {
            ctx.count(&format!("{p}_conflicted_root_tree_{}_terms", item.w.root_tree.as_slice().len()));
            if !item.w.conflict_labels.is_resolved() {
                ctx.count(&format!("{p}_conflict_labels_present"));
            }
            *run.nontrivial.borrow_mut() = true;
        }
        if item.w.parents.len() > 1 {
            *run.nontrivial.borrow_mut() = true;
        }
        if !item.w.predecessors.is_empty() {
            ctx.count(&format!("{p}_with_predecessors"));
        }
        if item.w.author.name.is_empty() || item.w.author.email.is_empty() || item.w.committer.name.is_empty() || item.w.committer.email.is_empty() {
            ctx.count(&format!("{p}_empty_name_or_email"));
        }
        if item.w.description.is_empty() {
            ctx.count(&format!("{p}_empty_description"));
        }
        if item.w.author.timestamp.timestamp.0 < 0 || item.w.committer.timestamp.timestamp.0 < 0 {
            ctx.count(&format!("{p}_negative_timestamp"));
        }
        if item.w.committer.timestamp.tz_offset < 0 || item.w.author.timestamp.tz_offset < 0 {
            ctx.count(&format!("{p}_negative_tz"));
        }
        // near-miss variants of the last commit of the DAG
        if last {
            let base_request = commit.clone();
            let base_id = item.id.clone();
            let base_w = item.w.clone();
            written.push(item);
            let mut others: Vec<CommitId> = prior.clone();
            others.push(CommitId::new(rand_bytes(rng, id_len)));
            let mut done = 0;
            for _ in 0..10 {
                if done >= 4 {
                    break;
                }
                let Some((label, variant)) = mutate_commit(rng, kind, &base_request, &others, &all_trees) else {
                    continue;
                };
                if variant.parents.len() > 1 && variant.parents.contains(&root_id) && kind.is_git() {
                    continue;
                }
                done += 1;
                let Some(v) = write_one(run, fx, &format!("variant {label}"), &variant)? else {
                    continue;
                };
                ctx.count(&format!("{p}_near_miss_{label}"));
                if v.w != base_w {
                    if v.id == base_id {
                        if kind.is_git() && differ_only_in_author_subsecond(&v.w, &base_w) {
                            // already reported by write_one under the known-defect clause
                        } else {
                            return fail(
                                &format!("{p}.distinct_ids"),
                                format!(
                                    "variant {label}: commits reported as different got the same id {}:\n{:?}\n{:?}",
                                    base_id.hex(),
                                    base_w,
                                    v.w
                                ),
                            );
                        }
                    } else {
                        ctx.count(&format!("{p}_near_miss_distinct_ids"));
                    }
                } else {
                    ctx.count(&format!("{p}_near_miss_same_recorded_value"));
                }
                if v.w.committer.timestamp != variant.committer.timestamp
                    && v.w.committer.timestamp.timestamp.0 != variant.committer.timestamp.timestamp.0.div_euclid(1000) * 1000
                {
                    ctx.count("git_committer_timestamp_adjusted_to_avoid_id_collision");
                }
                written.push(v);
            }
        } else {
            written.push(item);
        }
    }
    // --- read through the reader that was opened before the writes ...
    read_back_with(run, fx, &written, &stale_reader, &format!("{p}.stale_reader"))?;
    // --- ... and everything is read back on one fresh store, after all writes
    read_back_all(run, fx, &written)
}

pub fn run_c17(ctx: &Ctx) -> i32 {
    ctx.set_rule(
        "A case picks a backend (Git, Git with git.write-change-id-header=false, simple; one store of \
         each per worker thread), writes 2..4 trees (15-path universe where Git's and jj's entry order \
         differ; empty/binary/CRLF/unicode/16 KiB-boundary/40 KB files, executables, symlinks incl. empty \
         and unicode targets) through write_file/write_symlink/write_tree, a DAG of 2..4 commits (1..3 \
         parents, root or earlier commits; predecessors; resolved or 3/5-term conflicted root trees with \
         labels via ConflictLabels::from_vec or unlabeled; random 16-byte change ids, sometimes shared; \
         names/emails/descriptions from pools with empty and unicode values; timestamps negative, \
         sub-second, whole-second, far future; tz -1440..1440) and up to 4 single-field near-miss \
         variants of the last commit. Everything is read back on a new Store object opened on the same \
         directory after all writes of the case. Non-trivial: the case wrote a merge commit or a \
         conflicted root tree. Distinct: by case seed (all content is random).",
    );
    ctx.assume(
        "names and e-mails contain no '<', '>', newline or NUL, have no leading/trailing whitespace and are not the \
         literal JJ_EMPTY_STRING placeholder; \
         change ids have the backend's 16 bytes; conflict labels contain no newline and are built by \
         ConflictLabels::from_vec; the Git backend is not asked to merge with the root commit; commits are unsigned",
    );
    let n = ctx.tier().pick(1_500, 60_000);
    par_cases(ctx, n, threads(), |i, cs, rng| {
        let kind = *rng.pick(&[Kind::Git, Kind::Git, Kind::GitNoHeader, Kind::Simple, Kind::Simple]);
        let log: RefCell<Vec<Value>> = RefCell::new(vec![]);
        let nontrivial = RefCell::new(false);
        let run = C17Run { ctx, index: i, case_seed: cs, log: &log, nontrivial: &nontrivial };
        let describe = || json!({"backend": format!("{kind:?}"), "steps": log.borrow().clone()});
        let mut case_rng = rng.clone();
        run_case(ctx, i, cs, describe, || with_backend(kind, |fx| run_c17_case(&run, fx, &mut case_rng)));
        ctx.case(cs, *nontrivial.borrow());
        ctx.count(&format!("cases_{kind:?}"));
        if *nontrivial.borrow() {
            ctx.sample(|| {
                let steps = log.borrow();
                json!({"backend": format!("{kind:?}"), "steps": steps.iter().take(12).cloned().collect::<Vec<_>>()})
            });
        }
    });
    ctx.finish(300)
}
