//! C15: a crash at any durable-write point leaves a loadable repository and
//! loses no committed operation.
//!
//! For each representative command: counting pass (hook trace), then one run
//! per reached hook point with `JJ_VERIF_CRASH_AT=n` (abort without unwinding),
//! from a byte-identical restored pre-state with pinned timestamps and
//! randomness, followed by the oracle.

use std::collections::BTreeMap;
use std::collections::BTreeSet;
use std::path::Path;
use std::path::PathBuf;
use std::sync::Mutex;

use jj_lib::object_id::ObjectId as _;
use jj_lib::op_store::OperationId;
use pollster::FutureExt as _;
use serde_json::json;

use crate::common::*;
use crate::driver::*;
use crate::reader::RepoReader;
use crate::reader::repo_dir_of_workspace;

struct Sandbox {
    env: JjEnv,
    ws: PathBuf,
    ws2: PathBuf,
}

impl Sandbox {
    fn jj(&self, args: &[&str]) -> Output {
        self.env.run(&self.ws, args)
    }
    fn must(&self, args: &[&str]) {
        let out = self.jj(args);
        assert!(out.success(), "setup command {args:?} failed: {}", out.brief());
    }
    fn must_in(&self, cwd: &Path, args: &[&str]) {
        let out = self.env.run(cwd, args);
        assert!(out.success(), "setup command {args:?} failed: {}", out.brief());
    }
    fn write(&self, rel: &str, content: &str) {
        let p = self.ws.join(rel);
        std::fs::create_dir_all(p.parent().unwrap()).unwrap();
        std::fs::write(p, content).unwrap();
    }
}

struct Scenario {
    name: &'static str,
    setup: fn(&Sandbox),
    /// Command under test and whether it runs in the second workspace.
    command: &'static [&'static str],
    in_ws2: bool,
}

fn base_repo(s: &Sandbox) {
    s.must_in(&s.env.root.clone(), &["git", "init", "ws"]);
    s.write("a.txt", "a1\na2\na3\n");
    s.write("dir/b.txt", "b1\nb2\n");
    s.must(&["commit", "-m", "first"]);
    s.write("a.txt", "a1\na2 changed\na3\n");
    s.write("dir/c.txt", "c\n");
    s.must(&["commit", "-m", "second"]);
    s.write("dir/b.txt", "b1\nb2\nb3\n");
    s.must(&["describe", "-m", "third (wc)"]);
}

fn setup_edit_then(s: &Sandbox) {
    base_repo(s);
    // Unsnapshotted edits: the command has to snapshot first.
    s.write("a.txt", "a1\na2 changed\na3\nunsnapshotted\n");
    s.write("new.txt", "brand new\n");
}

fn setup_stack(s: &Sandbox) {
    base_repo(s);
    s.must(&["new", "-m", "fourth"]);
    s.write("e.txt", "e\n");
    s.must(&["bookmark", "create", "bm", "-r", "@-"]);
    s.write("a.txt", "a1\na2 changed\na3\nwc edit\n");
}

fn setup_conflict(s: &Sandbox) {
    base_repo(s);
    // two siblings changing the same line -> `jj new x y` gives a conflicted wc
    s.must(&["new", "@-", "-m", "left"]);
    s.write("a.txt", "left\na2 changed\na3\n");
    s.must(&["new", "@-", "-m", "right"]);
    s.write("a.txt", "right\na2 changed\na3\n");
    s.must(&["bookmark", "create", "right"]);
    s.must(&["new", "-m", "elsewhere", "root()"]);
    s.write("z.txt", "z\n");
}

fn setup_two_workspaces(s: &Sandbox) {
    base_repo(s);
    s.must(&["workspace", "add", "../ws2"]);
    std::fs::write(s.ws2.join("w2.txt"), "second workspace file\n").unwrap();
    s.must_in(&s.ws2, &["describe", "-m", "ws2 wc"]);
}

fn setup_stale_ws2(s: &Sandbox) {
    setup_two_workspaces(s);
    // Rewrite ws2's working-copy commit from the first workspace: ws2 becomes stale.
    s.must(&["describe", "-r", "ws2@", "-m", "rewritten from ws"]);
    std::fs::write(s.ws2.join("w2.txt"), "second workspace file, edited while stale\n").unwrap();
}

fn setup_for_undo(s: &Sandbox) {
    setup_stack(s);
    s.must(&["abandon", "@-"]);
}

fn scenarios() -> Vec<Scenario> {
    vec![
        Scenario { name: "describe_with_snapshot", setup: setup_edit_then, command: &["describe", "-m", "new description"], in_ws2: false },
        Scenario { name: "new", setup: setup_edit_then, command: &["new", "-m", "child"], in_ws2: false },
        Scenario { name: "commit", setup: setup_edit_then, command: &["commit", "-m", "committed"], in_ws2: false },
        Scenario { name: "squash", setup: setup_stack, command: &["squash"], in_ws2: false },
        Scenario { name: "rebase", setup: setup_stack, command: &["rebase", "-s", "@-", "-d", "root()"], in_ws2: false },
        Scenario { name: "abandon", setup: setup_stack, command: &["abandon", "@-"], in_ws2: false },
        Scenario { name: "bookmark_move", setup: setup_stack, command: &["bookmark", "move", "bm", "--to", "@"], in_ws2: false },
        Scenario { name: "undo", setup: setup_for_undo, command: &["undo"], in_ws2: false },
        Scenario { name: "op_restore", setup: setup_for_undo, command: &["op", "restore", "@--"], in_ws2: false },
        Scenario { name: "edit_checkout", setup: setup_stack, command: &["edit", "@--"], in_ws2: false },
        Scenario { name: "new_conflicted_checkout", setup: setup_conflict, command: &["new", "right", "right-"], in_ws2: false },
        Scenario { name: "workspace_add", setup: setup_stack, command: &["workspace", "add", "../ws2"], in_ws2: false },
        Scenario { name: "workspace_update_stale", setup: setup_stale_ws2, command: &["workspace", "update-stale"], in_ws2: true },
        Scenario { name: "sparse_set", setup: setup_stack, command: &["sparse", "set", "--clear", "--add", "dir"], in_ws2: false },
        Scenario { name: "restore_from", setup: setup_stack, command: &["restore", "--from", "@--"], in_ws2: false },
    ]
}

/// Hook label plus the kind of file it is about.
fn point_class(label: &str, detail: &str) -> String {
    let kind = if !detail.contains('/') {
        ""
    } else if detail.contains("/op_store/views/") {
        "view"
    } else if detail.contains("/op_store/operations/") {
        "operation"
    } else if detail.contains("/index/segments/") {
        "index_segment"
    } else if detail.contains("/index/op_links/") || detail.contains("/index/operations/") {
        "index_op_link"
    } else if detail.contains("/index/") {
        "index_other"
    } else if detail.contains("/store/extra") {
        "git_extras_table"
    } else if detail.ends_with("/working_copy/tree_state") {
        "tree_state"
    } else if detail.ends_with("/working_copy/checkout") {
        "checkout"
    } else if detail.contains("/.jj/") {
        "other_jj_file"
    } else {
        "working_copy_file"
    };
    format!("{label}:{kind}")
}

fn crash_worthy(label: &str) -> bool {
    !(label.starts_with("lock.")
        || label.starts_with("opheads.read")
        || label.starts_with("table.read_heads")
        || label == "opheads.lock")
}

#[derive(Debug)]
struct PreState {
    ops: BTreeSet<String>,
    heads: BTreeSet<String>,
    disk: BTreeMap<String, BTreeMap<String, DiskEntry>>,
}

fn op_ids(reader: &RepoReader) -> Result<BTreeSet<String>, String> {
    Ok(reader.all_ops()?.iter().map(|o| o.id().hex()).collect())
}

fn head_ids(reader: &RepoReader) -> Result<BTreeSet<String>, String> {
    Ok(reader.op_heads()?.iter().map(|o| o.hex()).collect())
}

fn workspaces(root: &Path) -> Vec<(String, PathBuf)> {
    let mut out = vec![];
    for (name, dir) in [("default", "ws"), ("ws2", "ws2")] {
        let p = root.join(dir);
        if p.join(".jj").exists() {
            out.push((name.to_owned(), p));
        }
    }
    out
}

/// Every file with an all-hex name in the op store must decode.
fn check_op_store_files(reader: &RepoReader) -> Result<usize, String> {
    let mut n = 0;
    for (sub, is_op) in [("operations", true), ("views", false)] {
        let dir = reader.repo_path.join("op_store").join(sub);
        let Ok(rd) = std::fs::read_dir(&dir) else { continue };
        for e in rd.flatten() {
            let name = e.file_name().to_string_lossy().into_owned();
            if name.len() != 128 || !name.chars().all(|c| c.is_ascii_hexdigit()) {
                continue;
            }
            n += 1;
            if is_op {
                let id = OperationId::try_from_hex(&name).unwrap();
                reader
                    .loader
                    .op_store()
                    .read_operation(&id)
                    .block_on()
                    .map_err(|e| format!("operation file {name} does not decode: {e}"))?;
            } else {
                let id = jj_lib::op_store::ViewId::try_from_hex(&name).unwrap();
                reader
                    .loader
                    .op_store()
                    .read_view(&id)
                    .block_on()
                    .map_err(|e| format!("view file {name} does not decode: {e}"))?;
            }
        }
    }
    Ok(n)
}

/// The oracle after a crash (or after a clean run).
fn check_after(
    env: &JjEnv,
    pre: &PreState,
    allowed_heads: &BTreeSet<String>,
    fsck: bool,
    ctx: &Ctx,
) -> Result<(), Fail> {
    let main_ws = env.root.join("ws");
    let repo_dir = repo_dir_of_workspace(&main_ws);
    // (1)/(4) the repository opens and everything reachable decodes
    let reader = RepoReader::open(&repo_dir).map_err(|e| Fail { clause: "loads.open".into(), message: e })?;
    let ops_now = op_ids(&reader).map_err(|e| Fail { clause: "loads.op_log".into(), message: e })?;
    // (2) no committed operation lost
    if let Some(lost) = pre.ops.iter().find(|o| !ops_now.contains(*o)) {
        return fail("no_committed_operation_lost", format!("operation {} was in the log before the command and is gone", &lost[..12]));
    }
    // (3) the current state is the state before or after the command
    let heads = head_ids(&reader).map_err(|e| Fail { clause: "loads.op_heads".into(), message: e })?;
    if let Some(bad) = heads.iter().find(|h| !allowed_heads.contains(*h)) {
        return fail(
            "state_is_before_or_after",
            format!("op head {} is none of the states the uninterrupted command passes through", &bad[..12]),
        );
    }
    for op in reader.all_ops().map_err(|e| Fail { clause: "loads.op_log".into(), message: e })? {
        reader
            .view_summary(&op)
            .map_err(|e| Fail { clause: "no_truncated_object.view".into(), message: e })?;
    }
    check_op_store_files(&reader).map_err(|e| Fail { clause: "no_truncated_object.op_store_file".into(), message: e })?;
    for h in reader.op_heads().unwrap_or_default() {
        let op = reader.operation(&h).map_err(|e| Fail { clause: "loads.head_operation".into(), message: e })?;
        let n = reader
            .check_commits_readable(&op)
            .map_err(|e| Fail { clause: "no_truncated_object.commit_or_tree".into(), message: e })?;
        ctx.count_n("commits_read_back_after_crash", n as u64);
    }
    let git_dir = repo_dir.join("store").join("git");
    if fsck && git_dir.exists() {
        ctx.count("git_fsck_runs");
        let out = env.git(&git_dir, &["fsck", "--no-dangling", "--connectivity-only"]);
        if !out.success() {
            return fail("no_truncated_object.git_fsck", format!("git fsck failed: {}", out.brief()));
        }
    }
    // (1)/(5) the CLI recovers, if necessary with the documented command
    let out = env.run(&main_ws, &["op", "log", "--ignore-working-copy", "--no-graph", "-T", "id.short() ++ \"\\n\""]);
    if !out.success() {
        return fail("loads.jj_op_log", format!("jj op log failed: {}", out.brief()));
    }
    for (ws_name, ws_path) in workspaces(&env.root) {
        // A workspace directory that the interrupted command itself was in the
        // middle of creating is not "a working copy left behind": only the
        // workspaces that existed before the command must recover.
        if !pre.disk.contains_key(&ws_name) {
            ctx.count("half_created_new_workspace_not_checked");
            continue;
        }
        let mut out = env.run(&ws_path, &["status"]);
        if !out.success() {
            if out.stderr.contains("stale") || out.stderr.contains("update-stale") {
                ctx.count("recovered_with_workspace_update_stale");
                let upd = env.run(&ws_path, &["workspace", "update-stale"]);
                if !upd.success() {
                    return fail(
                        "recovery.workspace_update_stale",
                        format!("workspace {ws_name}: jj workspace update-stale failed: {}", upd.brief()),
                    );
                }
                out = env.run(&ws_path, &["status"]);
            }
            if !out.success() {
                return fail("loads.jj_status", format!("workspace {ws_name}: jj status failed: {}", out.brief()));
            }
        }
        if ws_name == "default" {
            let out = env.run(&ws_path, &["log", "-r", "all()", "--no-graph", "-T", "commit_id.short() ++ \"\\n\""]);
            if !out.success() {
                return fail("loads.jj_log", format!("workspace {ws_name}: jj log failed: {}", out.brief()));
            }
        }
    }
    // (5) no file content that was on disk before the command is lost
    let reader = RepoReader::open(&repo_dir).map_err(|e| Fail { clause: "loads.open_after_recovery".into(), message: e })?;
    let all_ops = reader.all_ops().map_err(|e| Fail { clause: "loads.op_log_after_recovery".into(), message: e })?;
    for (ws_name, before) in &pre.disk {
        let ws_path = env.root.join(if ws_name == "default" { "ws" } else { "ws2" });
        let now = walk_disk(&ws_path);
        let mut recorded: Option<Vec<BTreeMap<String, Vec<Vec<u8>>>>> = None;
        for (path, entry) in before {
            let DiskEntry::File { content, .. } = entry else { continue };
            if matches!(now.get(path), Some(DiskEntry::File { content: c, .. }) if c == content) {
                continue;
            }
            // look it up in every operation's working-copy commit of this workspace
            if recorded.is_none() {
                let mut list = vec![];
                for op in &all_ops {
                    let repo = reader.repo_at(op).map_err(|e| Fail { clause: "loads.repo_at".into(), message: e })?;
                    let Some(id) = repo
                        .view()
                        .wc_commit_ids()
                        .iter()
                        .find(|(n, _)| n.as_str() == ws_name)
                        .map(|(_, id)| id.clone())
                    else {
                        continue;
                    };
                    let commit = reader.commit(&repo, &id).map_err(|e| Fail { clause: "no_truncated_object.wc_commit".into(), message: e })?;
                    list.push(reader.commit_files(&repo, &commit).map_err(|e| Fail { clause: "no_truncated_object.wc_tree".into(), message: e })?);
                }
                recorded = Some(list);
            }
            let found = recorded
                .as_ref()
                .unwrap()
                .iter()
                .any(|files| files.get(path).is_some_and(|versions| versions.iter().any(|v| v == content)));
            if !found {
                return fail(
                    "no_file_lost",
                    format!(
                        "workspace {ws_name}: {path:?} had content {:?} on disk before the command; after the crash and \
                         recovery it is neither on disk nor in any operation's working-copy commit",
                        String::from_utf8_lossy(content)
                    ),
                );
            }
            ctx.count("pre_command_file_found_in_op_log");
        }
    }
    Ok(())
}

fn run_scenario(ctx: &Ctx, sc: &Scenario, base: &Path) {
    let dir = base.join(sc.name);
    std::fs::create_dir_all(&dir).unwrap();
    let env_path = dir.join("env");
    let template = dir.join("template");
    std::fs::create_dir_all(&env_path).unwrap();
    // Build the pre-state once.
    let command_number;
    {
        let env = JjEnv::new(&env_path);
        let sandbox = Sandbox { ws: env.root.join("ws"), ws2: env.root.join("ws2"), env };
        match catch(|| (sc.setup)(&sandbox)) {
            Caught::Ok(()) => {}
            other => {
                ctx.inconclusive(&format!("scenario {}: setup failed: {other:?}", sc.name));
                return;
            }
        }
        command_number = sandbox.env.command_number.get();
    }
    let env_path = env_path.canonicalize().unwrap();
    if !copy_tree(&env_path, &template) {
        ctx.inconclusive(&format!("scenario {}: cannot snapshot the pre-state", sc.name));
        return;
    }
    let restore = || -> JjEnv {
        assert!(copy_tree(&template, &env_path), "restore failed");
        JjEnv::attach(&env_path, command_number)
    };
    let cwd_of = |env: &JjEnv| env.root.join(if sc.in_ws2 { "ws2" } else { "ws" });

    // Pre-state facts.
    let env = restore();
    let repo_dir = repo_dir_of_workspace(&env.root.join("ws"));
    let pre = match RepoReader::open(&repo_dir).and_then(|r| Ok((op_ids(&r)?, head_ids(&r)?))) {
        Ok((ops, heads)) => PreState {
            ops,
            heads,
            disk: workspaces(&env.root).into_iter().map(|(n, p)| (n, walk_disk(&p))).collect(),
        },
        Err(e) => {
            ctx.inconclusive(&format!("scenario {}: cannot read the pre-state: {e}", sc.name));
            return;
        }
    };

    // Reference (uninterrupted) run with the hook trace on.
    let trace_path = dir.join("trace");
    std::fs::remove_file(&trace_path).ok();
    let out = env.run_env(&cwd_of(&env), sc.command, &[("JJ_VERIF_TRACE", trace_path.to_str().unwrap())]);
    if !out.success() {
        ctx.inconclusive(&format!("scenario {}: reference run failed: {}", sc.name, out.brief()));
        return;
    }
    let trace = std::fs::read_to_string(&trace_path).unwrap_or_default();
    let points_full: Vec<(u64, String, String)> = trace
        .lines()
        .filter_map(|l| {
            let mut it = l.splitn(4, ' ');
            let _pid = it.next()?;
            let seq: u64 = it.next()?.parse().ok()?;
            let label = it.next()?.to_owned();
            Some((seq, label, it.next().unwrap_or("").to_owned()))
        })
        .collect();
    let points: Vec<(u64, String)> = points_full.iter().map(|(s, l, _)| (*s, l.clone())).collect();
    let ops_after = match RepoReader::open(&repo_dir).and_then(|r| op_ids(&r)) {
        Ok(o) => o,
        Err(e) => {
            ctx.violation("reference.loads", &format!("scenario {}: repository unreadable after an uninterrupted run: {e}", sc.name), json!({"scenario": sc.name}));
            return;
        }
    };
    let mut allowed: BTreeSet<String> = pre.heads.clone();
    allowed.extend(ops_after.difference(&pre.ops).cloned());
    // The uninterrupted run itself must satisfy the oracle (guards against a broken oracle).
    if let Err(f) = check_after(&env, &pre, &allowed, true, ctx) {
        ctx.violation(
            &format!("uninterrupted.{}", f.clause),
            &format!("scenario {} (no crash): {}", sc.name, f.message),
            json!({"scenario": sc.name, "crash_at": null}),
        );
        return;
    }
    ctx.count_n("hook_points_in_reference_runs", points.len() as u64);

    let thorough = ctx.tier() == Tier::Thorough;
    let mut labels_seen: BTreeSet<String> = BTreeSet::new();
    // quick: one crash per class (hook label x kind of file), the occurrence
    // chosen by the seed; thorough: every reached point.
    let mut by_class: BTreeMap<String, Vec<u64>> = BTreeMap::new();
    for (seq, label, detail) in &points_full {
        if crash_worthy(label) {
            by_class.entry(point_class(label, detail)).or_default().push(*seq);
        }
    }
    let mut chosen: BTreeSet<u64> = BTreeSet::new();
    for (class, seqs) in &by_class {
        if thorough {
            chosen.extend(seqs.iter().copied());
        } else if !class.starts_with("persist.synced") {
            let mut rng = Rng::new(case_seed(ctx.seed(), sc.name, stable_hash(class)));
            chosen.insert(seqs[rng.below(seqs.len())]);
        }
    }
    ctx.count_n("crash_point_classes", by_class.len() as u64);
    for (seq, label) in &points {
        if !chosen.contains(seq) {
            continue;
        }
        if ctx.violations() >= 5 {
            break;
        }
        let env = restore();
        let seq_s = seq.to_string();
        let out = env.run_env(&cwd_of(&env), sc.command, &[("JJ_VERIF_CRASH_AT", &seq_s)]);
        let case = json!({"scenario": sc.name, "command": sc.command, "crash_at": seq, "label": label});
        if out.signal != Some(6) {
            // the point was not reached in this run (should not happen: runs are deterministic)
            ctx.count("crash_point_not_reached");
            ctx.case(stable_hash(&(sc.name, seq)), false);
            continue;
        }
        labels_seen.insert(label.clone());
        ctx.count(&format!("crashed_at.{}", label.split('.').take(2).collect::<Vec<_>>().join(".")));
        ctx.case(stable_hash(&(sc.name, seq)), true);
        let case_for_describe = case.clone();
        run_case(ctx, *seq, 0, move || case_for_describe.clone(), || {
            let fsck = thorough || label.starts_with("git.") || label.starts_with("table.");
            check_after(&env, &pre, &allowed, fsck, ctx).map_err(|f| Fail {
                clause: f.clause,
                message: format!("scenario {} crashed at point {} ({}): {}", sc.name, seq, label, f.message),
            })
        });
        ctx.sample(|| case);
    }
    ctx.count_n(&format!("scenario.{}.points_crashed", sc.name), labels_seen.len() as u64);
    std::fs::remove_dir_all(&dir).ok();
}

pub fn run_c15(ctx: &Ctx) -> i32 {
    ctx.set_rule(
        "commands: describe/new/commit after unsnapshotted edits, squash, rebase -s, abandon, bookmark \
         move, undo, op restore, edit (checkout), new with a conflicted checkout, workspace add, \
         workspace update-stale in a stale second workspace, sparse set, restore; git backend. For each: \
         hook trace of an uninterrupted run, then one run per reached write-side hook point (persist \
         before/synced/after of every op-store / index / table / working-copy state file, op-head and \
         table-head add/remove, transaction steps, git backend steps, working-copy file writes/removals) \
         killed there by abort(), from a byte-identical restored pre-state with pinned timestamps and \
         randomness. Non-trivial: the process really died at that point (SIGABRT). Distinct: by \
         (scenario, hook sequence number). quick skips `persist.synced` points; thorough crashes at \
         every one.",
    );
    ctx.assume("process kill, not power loss: data written before the kill is visible afterwards");
    ctx.assume("hook layer only: crashes inside gix / the git subprocess between two hook points are not enumerated");
    let base = scratch_dir("c15");
    let list = scenarios();
    let selected: Vec<&Scenario> = match ctx.args.extra.iter().position(|a| a == "--scenario") {
        Some(pos) => list.iter().filter(|s| s.name == ctx.args.extra[pos + 1]).collect(),
        None => list.iter().collect(),
    };
    let next = std::sync::atomic::AtomicUsize::new(0);
    let done: Mutex<Vec<&str>> = Mutex::new(vec![]);
    std::thread::scope(|scope| {
        for _ in 0..threads().min(selected.len()) {
            scope.spawn(|| {
                loop {
                    let i = next.fetch_add(1, std::sync::atomic::Ordering::SeqCst);
                    if i >= selected.len() {
                        break;
                    }
                    match catch(|| run_scenario(ctx, selected[i], &base)) {
                        Caught::Ok(()) => done.lock().unwrap().push(selected[i].name),
                        other => ctx.inconclusive(&format!("scenario {} aborted: {other:?}", selected[i].name)),
                    }
                }
            });
        }
    });
    ctx.set_exhaustive(ctx.tier() == Tier::Thorough && ctx.counter("crash_point_not_reached") == 0);
    ctx.set_extra("scenarios_completed", json!(*done.lock().unwrap()));
    std::fs::remove_dir_all(&base).ok();
    ctx.finish(100)
}
