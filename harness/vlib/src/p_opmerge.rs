//! C12: bookmark target merges resolve only when safe (`merge_ref_targets`).
//! C13: concurrent operations are merged without losing work
//!      (`RepoLoader::merge_operations`, `load_at_head`, `MutableRepo::merge`).
//!
//! Both oracles decide ancestry with the harness' own graph search (C12: the
//! recorded `Dag`; C13: a graph loaded commit by commit from the store),
//! never with jj's index or revset engine.

use std::cell::RefCell;
use std::collections::BTreeMap;
use std::collections::BTreeSet;
use std::collections::HashMap;
use std::collections::HashSet;
use std::fmt::Debug;
use std::sync::Arc;

use jj_lib::backend::ChangeId;
use jj_lib::backend::CommitId;
use jj_lib::config::ConfigLayer;
use jj_lib::config::ConfigSource;
use jj_lib::merge::Merge;
use jj_lib::object_id::ObjectId as _;
use jj_lib::op_store::OperationId;
use jj_lib::op_store::RefTarget;
use jj_lib::op_store::RemoteRef;
use jj_lib::op_store::RemoteRefState;
use jj_lib::operation::Operation;
use jj_lib::ref_name::RefName;
use jj_lib::ref_name::RemoteName;
use jj_lib::ref_name::RemoteRefSymbol;
use jj_lib::ref_name::WorkspaceName;
use jj_lib::ref_name::WorkspaceNameBuf;
use jj_lib::refs::merge_ref_targets;
use jj_lib::repo::ReadonlyRepo;
use jj_lib::repo::Repo as _;
use jj_lib::repo::RepoLoader;
use jj_lib::settings::UserSettings;
use jj_lib::store::Store;
use jj_lib::transaction::Transaction;
use pollster::FutureExt as _;
use serde_json::Value;
use serde_json::json;
use testutils::TestRepo;

use crate::common::*;
use crate::dag::Dag;
use crate::dag::add_commit;
use crate::ensure;
use crate::p_merge::Den;
use crate::p_merge::den_add;
use crate::p_merge::den_terms;

// ===========================================================================
// Shared reference for ref-target merges (used by C12 and by C13's
// bookmark/tag clauses). `T` is the harness' name for a commit.

/// Expected outcome of a three-way merge of non-conflicted targets.
#[derive(Debug, PartialEq, Eq)]
enum Simple<T> {
    Resolved(Option<T>),
    /// Unresolved; denotation is {left:+1, right:+1, base:-1}.
    Conflict,
}

/// Clause (2): full specification for three non-conflicted terms.
/// `anc(a, b)`: `a` is an ancestor of, or equal to, `b`.
fn simple_spec<T: Eq + Clone>(
    left: &Option<T>,
    base: &Option<T>,
    right: &Option<T>,
    anc: &mut dyn FnMut(&T, &T) -> bool,
) -> (Simple<T>, &'static str) {
    if left == base {
        return (Simple::Resolved(right.clone()), "left_unchanged");
    }
    if right == base {
        return (Simple::Resolved(left.clone()), "right_unchanged");
    }
    if left == right {
        return (Simple::Resolved(left.clone()), "both_agree");
    }
    if let (Some(l), Some(r)) = (left, right) {
        let base_below = |x: &T, anc: &mut dyn FnMut(&T, &T) -> bool| match base {
            None => true,
            Some(b) => anc(b, x),
        };
        if anc(l, r) && base_below(l, anc) {
            return (Simple::Resolved(right.clone()), "fast_forward_to_right");
        }
        if anc(r, l) && base_below(r, anc) {
            return (Simple::Resolved(left.clone()), "fast_forward_to_left");
        }
        return (Simple::Conflict, "conflict_diverged");
    }
    (Simple::Conflict, "conflict_delete_vs_move")
}

/// Counting rule on a denotation (same rule as `reference_resolve`, which
/// works on term lists).
fn den_resolve<T: Ord + Clone>(d: &Den<T>) -> Option<T> {
    if d.len() == 1 {
        let (v, n) = d.iter().next().unwrap();
        (*n == 1).then(|| v.clone())
    } else if d.len() == 2 && d.values().sum::<i64>() == 1 {
        d.iter().find(|(_, n)| **n > 0).map(|(v, _)| v.clone())
    } else {
        None
    }
}

/// Clause (3): `f - den(result)` must decompose into pairs (+a, -r) such that
/// `a` is a present commit, `r` is absent or an ancestor of `a`, and `a` is an
/// ancestor-or-equal of an add that remains in `result`. Returns the number
/// of pairs.
fn pairs_decompose<T: Ord + Clone + Debug>(
    f: &Den<Option<T>>,
    result: &[Option<T>],
    anc: &mut dyn FnMut(&T, &T) -> bool,
) -> Result<usize, String> {
    let mut d = f.clone();
    den_add(&mut d, &den_terms(result), -1);
    let mut pos: Vec<Option<T>> = vec![];
    let mut neg: Vec<Option<T>> = vec![];
    for (v, c) in &d {
        for _ in 0..c.unsigned_abs() {
            if *c > 0 {
                pos.push(v.clone());
            } else {
                neg.push(v.clone());
            }
        }
    }
    if pos.len() != neg.len() {
        return Err(format!(
            "terms were not dropped in (add, remove) pairs: dropped adds {pos:?}, dropped removes {neg:?}"
        ));
    }
    let remaining: Vec<T> = result.iter().step_by(2).flatten().cloned().collect();
    for p in &pos {
        match p {
            None => return Err("an absent add was dropped".to_string()),
            Some(a) => {
                if !remaining.iter().any(|t| anc(a, t)) {
                    return Err(format!(
                        "add {a:?} was dropped although no remaining add {remaining:?} is a descendant of it"
                    ));
                }
            }
        }
    }
    fn rec<T: Ord + Clone + Debug>(
        i: usize,
        pos: &[Option<T>],
        neg: &[Option<T>],
        used: &mut Vec<bool>,
        anc: &mut dyn FnMut(&T, &T) -> bool,
    ) -> bool {
        if i == pos.len() {
            return true;
        }
        let a = pos[i].as_ref().unwrap();
        for j in 0..neg.len() {
            if used[j] {
                continue;
            }
            let ok = match &neg[j] {
                None => true,
                Some(r) => anc(r, a),
            };
            if ok {
                used[j] = true;
                if rec(i + 1, pos, neg, used, anc) {
                    return true;
                }
                used[j] = false;
            }
        }
        false
    }
    let mut used = vec![false; neg.len()];
    if !rec(0, &pos, &neg, &mut used, anc) {
        return Err(format!(
            "dropped adds {pos:?} cannot be paired with dropped removes {neg:?} such that each remove is \
             absent or an ancestor of its add"
        ));
    }
    Ok(pos.len())
}

fn ids_of<T: Ord + Clone>(terms: &[Option<T>]) -> BTreeSet<T> {
    terms.iter().flatten().cloned().collect()
}

// ===========================================================================
// C12

type Tgt = Vec<Option<usize>>;

fn simplify_terms(terms: &Tgt) -> Tgt {
    Merge::from_vec(terms.clone()).simplify().into_iter().collect()
}

fn gen_target(rng: &mut Rng, pool: &[usize]) -> Tgt {
    match rng.weighted(&[2, 7, 6]) {
        0 => vec![None],
        1 => vec![Some(*rng.pick(pool))],
        _ => {
            let len = *rng.pick(&[3usize, 3, 5]);
            let terms: Tgt = (0..len)
                .map(|_| if rng.chance(1, 7) { None } else { Some(*rng.pick(pool)) })
                .collect();
            // Mostly simplified conflicts (what jj itself produces); a few raw ones.
            if rng.chance(5, 6) { simplify_terms(&terms) } else { terms }
        }
    }
}

fn random_ancestor(rng: &mut Rng, dag: &Dag, of: usize) -> usize {
    let anc: Vec<usize> = dag.ancestors(of).into_iter().collect();
    *rng.pick(&anc)
}

fn gen_triple(rng: &mut Rng, dag: &Dag) -> (Tgt, Tgt, Tgt, &'static str) {
    let n = dag.len();
    // Small pool so that equal terms, cancelling pairs and ancestor relations collide.
    let pool: Vec<usize> = (0..rng.range(2, 5)).map(|_| rng.below(n)).collect();
    match rng.weighted(&[5, 2, 4, 4, 3]) {
        0 => (gen_target(rng, &pool), gen_target(rng, &pool), gen_target(rng, &pool), "random"),
        1 => {
            let a = gen_target(rng, &pool);
            let b = gen_target(rng, &pool);
            match rng.below(3) {
                0 => (a.clone(), a, b, "planted_left_eq_base"),
                1 => (b, a.clone(), a, "planted_right_eq_base"),
                _ => (a.clone(), b, a, "planted_left_eq_right"),
            }
        }
        2 => {
            // One line of history: base <= x <= y, roles shuffled.
            let y = rng.below(n);
            let x = random_ancestor(rng, dag, y);
            let b = if rng.chance(1, 4) { None } else { Some(random_ancestor(rng, dag, x)) };
            let mut t = [vec![Some(x)], vec![b], vec![Some(y)]];
            match rng.below(5) {
                0 => t.swap(0, 2),
                1 => t.swap(0, 1), // backward / sideways moves
                2 => t.swap(1, 2),
                _ => {}
            }
            let [l, b, r] = t;
            (l, b, r, "planted_chain")
        }
        3 => {
            // A conflicted side against a normal descendant / ancestor of one of its adds.
            let mut c = gen_target(rng, &pool);
            let pick = c.iter().flatten().next().copied().unwrap_or(0);
            let other = if rng.bool() {
                let desc: Vec<usize> = dag.descendants(pick).into_iter().collect();
                *rng.pick(&desc)
            } else {
                random_ancestor(rng, dag, pick)
            };
            if c.len() == 1 {
                c = vec![Some(pick), Some(random_ancestor(rng, dag, pick)), Some(*rng.pick(&pool))];
            }
            let b = if rng.bool() { vec![Some(random_ancestor(rng, dag, pick))] } else { gen_target(rng, &pool) };
            if rng.bool() { (c, b, vec![Some(other)], "planted_conflicted_vs_chain") } else { (vec![Some(other)], b, c, "planted_conflicted_vs_chain") }
        }
        _ => {
            // Delete / create against moves.
            let x = rng.below(n);
            let y = rng.below(n);
            match rng.below(3) {
                0 => (vec![None], vec![Some(x)], vec![Some(y)], "planted_delete_vs_move"),
                1 => (vec![Some(x)], vec![None], vec![Some(y)], "planted_both_create"),
                _ => (vec![Some(y)], vec![Some(x)], vec![None], "planted_move_vs_delete"),
            }
        }
    }
}

fn to_ref_target(dag: &Dag, t: &Tgt) -> RefTarget {
    RefTarget::from_merge(Merge::from_vec(
        t.iter().map(|x| x.map(|i| dag.id(i).clone())).collect::<Vec<_>>(),
    ))
}

/// All C12 clauses for one (left, base, right, result). Returns the oracle branch taken.
fn check_c12(dag: &Dag, left: &Tgt, base: &Tgt, right: &Tgt, result: &RefTarget) -> Result<String, Fail> {
    let mut res: Tgt = vec![];
    for term in result.as_merge().iter() {
        match term {
            None => res.push(None),
            Some(id) => match dag.idx(id) {
                Some(i) => res.push(Some(i)),
                None => {
                    return Err(Fail {
                        clause: "subset.result_names_unknown_commit".into(),
                        message: format!("result {result:?} names {id:?} which is not in the graph"),
                    });
                }
            },
        }
    }
    let show = || format!("left {left:?} base {base:?} right {right:?} -> result {res:?}");
    ensure!(res.len() % 2 == 1, "result.odd_terms", "{}", show());
    // (1) no invented commit
    let mut allowed = ids_of(left);
    allowed.extend(ids_of(base));
    allowed.extend(ids_of(right));
    ensure!(
        ids_of(&res).is_subset(&allowed),
        "subset.result_names_commit_not_in_inputs",
        "{}",
        show()
    );
    let mut anc = |a: &usize, b: &usize| dag.is_ancestor(*a, *b);
    // Property: one side unchanged -> the other side; both agree -> that value.
    if left == base {
        ensure!(&res == right, "unchanged.left_eq_base_returns_right", "{}", show());
        return Ok("left_unchanged".into());
    }
    if right == base {
        ensure!(&res == left, "unchanged.right_eq_base_returns_left", "{}", show());
        return Ok("right_unchanged".into());
    }
    if left == right {
        ensure!(&res == left, "agree.left_eq_right_returns_it", "{}", show());
        return Ok("both_agree".into());
    }
    if left.len() == 1 && base.len() == 1 && right.len() == 1 {
        // (2) full specification
        let (expected, branch) = simple_spec(&left[0], &base[0], &right[0], &mut anc);
        match expected {
            Simple::Resolved(v) => {
                ensure!(
                    res == vec![v],
                    &format!("simple.{branch}"),
                    "expected resolved {:?}: {}",
                    v,
                    show()
                );
            }
            Simple::Conflict => {
                ensure!(
                    res.len() == 3,
                    &format!("simple.{branch}.must_stay_conflicted"),
                    "a side was picked: {}",
                    show()
                );
                let expected_den = den_terms(&[left[0], base[0], right[0]]);
                ensure!(
                    den_terms(&res) == expected_den,
                    &format!("simple.{branch}.denotation"),
                    "expected denotation {:?}: {}",
                    expected_den,
                    show()
                );
                let adds: BTreeSet<Option<usize>> = res.iter().step_by(2).cloned().collect();
                ensure!(
                    adds.contains(&left[0]) && adds.contains(&right[0]),
                    &format!("simple.{branch}.adds_contain_both_sides"),
                    "{}",
                    show()
                );
            }
        }
        return Ok(format!("simple.{branch}"));
    }
    // (3) conflicted inputs
    let mut f = den_terms(left);
    den_add(&mut f, &den_terms(base), -1);
    den_add(&mut f, &den_terms(right), 1);
    if let Some(v) = den_resolve(&f) {
        ensure!(
            res == vec![v],
            "conflicted.counting_rule_resolves",
            "flattened inputs resolve to {:?} by counting: {}",
            v,
            show()
        );
        return Ok("conflicted.resolved_by_counting".into());
    }
    match pairs_decompose(&f, &res, &mut anc) {
        Ok(0) => Ok("conflicted.conflict_kept_whole".into()),
        Ok(_) if res.len() == 1 => Ok("conflicted.resolved_by_ancestry".into()),
        Ok(_) => Ok("conflicted.pairs_dropped_by_ancestry".into()),
        Err(why) => Err(Fail {
            clause: "conflicted.side_dropped_without_descendant".into(),
            message: format!("{why}; flattened denotation {f:?}; {}", show()),
        }),
    }
}

pub fn run_c12(ctx: &Ctx) -> i32 {
    ctx.set_rule(
        "1000 (quick) random DAGs (3..14 commits, up to 3 parents, built in a fresh TestRepo); per DAG 48 \
         (left, base, right) triples drawn from absent / normal / conflicted (3 or 5 terms, absent \
         terms, mostly simplified, some raw) targets over a small id pool, with planted equal \
         pairs, ancestor chains in every role order, conflicted-vs-chain and delete/create-vs-move \
         shapes; merge_ref_targets is run against the mutable index before commit or the readonly \
         index after commit. Oracle: clauses (1) subset, one-side-unchanged / both-agree identities, \
         (2) full specification for non-conflicted terms, (3) counting rule + pair decomposition \
         for conflicted terms; ancestry from the harness' Dag. Non-trivial: none of the three \
         equality shortcuts applies (ancestry or conflict logic decided). Distinct: by (DAG shape, \
         triple as node indices).",
    );
    ctx.assume("ancestry is decided by plain graph search over the commits the harness wrote (dag.rs), not by jj's index");
    let n = ctx.tier().pick(1_000, 60_000);
    let per_dag = 48;
    par_cases(ctx, n, threads(), |i, cs, rng| {
        // Abstract shape first, so the case can be described without a repo.
        let n_commits = rng.range(3, 14);
        let mut shape: Vec<Vec<usize>> = vec![vec![]];
        for k in 1..=n_commits {
            let n_parents = if k >= 3 && rng.chance(3, 10) { rng.range(2, 3) } else { 1 };
            let mut parents: Vec<usize> = vec![];
            while parents.len() < n_parents.min(k) {
                let p = if rng.chance(2, 3) { k - 1 - rng.below(k.min(4)) } else { rng.below(k) };
                if !parents.contains(&p) {
                    parents.push(p);
                }
            }
            if parents.len() > 1 {
                parents.retain(|p| *p != 0);
                if parents.is_empty() {
                    parents.push(0);
                }
            }
            shape.push(parents);
        }
        let after_commit = rng.bool();
        let current: RefCell<Value> = RefCell::new(Value::Null);
        let describe = || json!({"dag_parents": shape, "index": if after_commit {"readonly"} else {"mutable"}, "triple": current.borrow().clone()});
        run_case(ctx, i, cs, describe, || {
            let test_repo = TestRepo::init();
            let mut tx = test_repo.repo.start_transaction();
            let mut dag = Dag::new(test_repo.repo.store());
            for (k, parents) in shape.iter().enumerate().skip(1) {
                add_commit(tx.repo_mut(), &mut dag, parents, None, None, &format!("c{k}"));
            }
            let triples: Vec<_> = (0..per_dag).map(|_| gen_triple(rng, &dag)).collect();
            let committed;
            let index: &dyn jj_lib::index::Index = if after_commit {
                committed = match tx.commit("dag").block_on() {
                    Ok(repo) => repo,
                    Err(err) => {
                        ctx.inconclusive(&format!("commit of the fixture failed: {err}"));
                        return Ok(());
                    }
                };
                committed.index()
            } else {
                tx.repo().index()
            };
            for (left, base, right, shape_name) in &triples {
                *current.borrow_mut() = json!({"left": left, "base": base, "right": right, "shape": shape_name});
                let result = match merge_ref_targets(
                    index,
                    &to_ref_target(&dag, left),
                    &to_ref_target(&dag, base),
                    &to_ref_target(&dag, right),
                )
                .block_on()
                {
                    Ok(r) => r,
                    Err(err) => {
                        ctx.inconclusive(&format!("merge_ref_targets returned an index error: {err}"));
                        return Ok(());
                    }
                };
                let branch = check_c12(&dag, left, base, right, &result)?;
                let nontrivial = !(left == base || right == base || left == right);
                ctx.case(stable_hash(&(&shape, left, base, right)), nontrivial);
                ctx.count(&format!("oracle.{branch}"));
                ctx.count(&format!("gen.{shape_name}"));
                if left.len() > 1 || base.len() > 1 || right.len() > 1 {
                    ctx.count("input.some_conflicted");
                }
                if [left, base, right].iter().any(|t| t.iter().any(|x| x.is_none())) {
                    ctx.count("input.some_absent_term");
                }
                if [left, base, right].iter().any(|t| t.len() > 1 && &simplify_terms(t) != *t) {
                    ctx.count("input.unsimplified_conflict");
                }
                if result.has_conflict() {
                    ctx.count("result.conflicted");
                }
                if nontrivial && ctx.wants_sample() {
                    ctx.sample(|| json!({"dag_parents": shape, "left": left, "base": base, "right": right,
                                         "result": format!("{:?}", result.as_merge().iter().map(|t| t.as_ref().and_then(|id| dag.idx(id))).collect::<Vec<_>>()),
                                         "branch": branch}));
                }
            }
            Ok(())
        });
        ctx.count(if after_commit { "index.readonly" } else { "index.mutable" });
    });
    ctx.finish(2_000)
}

// ===========================================================================
// C13

struct GNode {
    parents: Vec<CommitId>,
    change: ChangeId,
    desc: String,
}

/// The harness' own commit graph, loaded commit by commit from the store
/// (object reads only; no index, no revsets).
struct Graph {
    store: Arc<Store>,
    nodes: HashMap<CommitId, GNode>,
    anc_cache: HashMap<CommitId, Arc<HashSet<CommitId>>>,
}

impl Graph {
    fn new(store: &Arc<Store>) -> Self {
        Self { store: store.clone(), nodes: HashMap::new(), anc_cache: HashMap::new() }
    }

    fn load(&mut self, id: &CommitId) -> Result<(), Fail> {
        if self.nodes.contains_key(id) {
            return Ok(());
        }
        match self.store.get_commit(id) {
            Ok(commit) => {
                self.nodes.insert(
                    id.clone(),
                    GNode {
                        parents: commit.parent_ids().to_vec(),
                        change: commit.change_id().clone(),
                        desc: commit.description().to_owned(),
                    },
                );
                Ok(())
            }
            Err(err) => Err(Fail {
                clause: "view.names_unreadable_commit".into(),
                message: format!("commit {id:?} cannot be read from the store: {err}"),
            }),
        }
    }

    /// Ancestors of `id`, including `id`.
    fn ancestors(&mut self, id: &CommitId) -> Result<Arc<HashSet<CommitId>>, Fail> {
        if let Some(set) = self.anc_cache.get(id) {
            return Ok(set.clone());
        }
        let mut seen = HashSet::new();
        let mut stack = vec![id.clone()];
        while let Some(n) = stack.pop() {
            if seen.contains(&n) {
                continue;
            }
            self.load(&n)?;
            stack.extend(self.nodes[&n].parents.iter().cloned());
            seen.insert(n);
        }
        let set = Arc::new(seen);
        self.anc_cache.insert(id.clone(), set.clone());
        Ok(set)
    }

    fn closure<'a>(&mut self, heads: impl IntoIterator<Item = &'a CommitId>) -> Result<HashSet<CommitId>, Fail> {
        let mut out = HashSet::new();
        for h in heads {
            out.extend(self.ancestors(h)?.iter().cloned());
        }
        Ok(out)
    }

    /// `a` is an ancestor of, or equal to, `b`. Unknown commits are unrelated.
    fn is_anc(&mut self, a: &CommitId, b: &CommitId) -> bool {
        self.ancestors(b).map(|s| s.contains(a)).unwrap_or(false)
    }

    fn change(&self, id: &CommitId) -> &ChangeId {
        &self.nodes[id].change
    }

    fn parents(&self, id: &CommitId) -> &[CommitId] {
        &self.nodes[id].parents
    }

    /// Structural (id independent) name of a commit for logs and hashing.
    fn label(&self, id: &CommitId) -> String {
        match self.nodes.get(id) {
            None => format!("?{}", &id.hex()[..8]),
            Some(n) if n.parents.is_empty() => "root".into(),
            Some(n) if !n.desc.is_empty() => n.desc.clone(),
            Some(n) => format!("(wc-on {})", n.parents.iter().map(|p| self.label(p)).collect::<Vec<_>>().join("+")),
        }
    }

    fn labels<'a>(&self, ids: impl IntoIterator<Item = &'a CommitId>) -> Vec<String> {
        let mut v: Vec<String> = ids.into_iter().map(|i| self.label(i)).collect();
        v.sort();
        v
    }
}

type Tv = Vec<Option<CommitId>>;

fn tv(target: &RefTarget) -> Tv {
    target.as_merge().iter().cloned().collect()
}

fn absent_tv() -> Tv {
    vec![None]
}

/// What the harness reads from one repository state.
#[derive(Clone)]
struct Snap {
    label: String,
    vis: HashSet<CommitId>,
    bookmarks: BTreeMap<String, Tv>,
    tags: BTreeMap<String, Tv>,
    /// remote-tracking bookmarks, keyed "name@remote"
    remotes: BTreeMap<String, Tv>,
    wcs: BTreeMap<String, CommitId>,
}

fn snap(g: &mut Graph, repo: &ReadonlyRepo, label: &str) -> Result<Snap, Fail> {
    let view = repo.view();
    let vis = g.closure(view.heads().iter())?;
    let mut bookmarks = BTreeMap::new();
    for (name, target) in view.local_bookmarks() {
        for id in target.as_merge().iter().flatten() {
            g.ancestors(id)?;
        }
        bookmarks.insert(name.as_str().to_owned(), tv(target));
    }
    let mut tags = BTreeMap::new();
    for (name, target) in view.local_tags() {
        for id in target.as_merge().iter().flatten() {
            g.ancestors(id)?;
        }
        tags.insert(name.as_str().to_owned(), tv(target));
    }
    let mut remotes = BTreeMap::new();
    for (symbol, remote_ref) in view.all_remote_bookmarks() {
        for id in remote_ref.target.as_merge().iter().flatten() {
            g.ancestors(id)?;
        }
        remotes.insert(
            format!("{}@{}", symbol.name.as_str(), symbol.remote.as_str()),
            tv(&remote_ref.target),
        );
    }
    let mut wcs = BTreeMap::new();
    for (name, id) in view.wc_commit_ids() {
        g.ancestors(id)?;
        wcs.insert(name.as_str().to_owned(), id.clone());
    }
    Ok(Snap { label: label.to_owned(), vis, bookmarks, tags, remotes, wcs })
}

fn show_tv(g: &Graph, t: &Tv) -> String {
    let parts: Vec<String> = t
        .iter()
        .enumerate()
        .map(|(i, x)| {
            let sign = if i % 2 == 0 { "+" } else { "-" };
            match x {
                None => format!("{sign}absent"),
                Some(id) => format!("{sign}{}", g.label(id)),
            }
        })
        .collect();
    format!("[{}]", parts.join(" "))
}

fn snap_json(g: &Graph, s: &Snap) -> Value {
    json!({
        "state": s.label,
        "visible": g.labels(s.vis.iter()),
        "bookmarks": s.bookmarks.iter().map(|(k, v)| (k.clone(), json!(show_tv(g, v)))).collect::<serde_json::Map<_, _>>(),
        "tags": s.tags.iter().map(|(k, v)| (k.clone(), json!(show_tv(g, v)))).collect::<serde_json::Map<_, _>>(),
        "remote_bookmarks": s.remotes.iter().map(|(k, v)| (k.clone(), json!(show_tv(g, v)))).collect::<serde_json::Map<_, _>>(),
        "workspaces": s.wcs.iter().map(|(k, v)| (k.clone(), json!(g.label(v)))).collect::<serde_json::Map<_, _>>(),
    })
}

/// Is there a chain of recorded predecessors from `from` back to `to`?
fn pred_path(preds: &BTreeMap<CommitId, Vec<CommitId>>, from: &CommitId, to: &CommitId) -> bool {
    let mut seen = HashSet::new();
    let mut stack = vec![from.clone()];
    while let Some(n) = stack.pop() {
        if &n == to {
            return true;
        }
        if !seen.insert(n.clone()) {
            continue;
        }
        if let Some(ps) = preds.get(&n) {
            stack.extend(ps.iter().cloned());
        }
    }
    false
}

/// How a single commit `a` named by side `owner` is expected to appear after
/// the merge.
enum Follow {
    /// Nobody else touched `a` or an ancestor of it: stays as it is.
    Exact,
    /// Rewritten by exactly one other side, or rebased by the merge: a visible
    /// commit with the same change id (reached through recorded predecessors
    /// when `need_pred`).
    SameChange { need_pred: bool },
    /// Abandoned by every side that hid it; parents are untouched.
    Abandoned { parents: Vec<CommitId> },
    /// Interaction the conservative oracle does not decide.
    Skip,
}

struct MergeCtx<'a> {
    base: &'a Snap,
    sides: Vec<&'a Snap>,
    merged: &'a Snap,
    preds: &'a BTreeMap<CommitId, Vec<CommitId>>,
    hidden: Vec<HashSet<CommitId>>,
    created: Vec<HashSet<CommitId>>,
    all_hidden: HashSet<CommitId>,
}

impl MergeCtx<'_> {
    /// Some side hid `a` or an ancestor of `a`.
    fn affected(&self, g: &mut Graph, a: &CommitId) -> bool {
        match g.ancestors(a) {
            Ok(anc) => anc.iter().any(|x| self.all_hidden.contains(x)),
            Err(_) => true,
        }
    }

    fn follow(&self, g: &mut Graph, a: &CommitId, owner: usize) -> Follow {
        if !self.affected(g, a) {
            return Follow::Exact;
        }
        if !self.base.vis.contains(a) {
            // Created by the owner on top of something another side hid: the merge rebases it.
            return Follow::SameChange { need_pred: true };
        }
        let hiders: Vec<usize> = (0..self.sides.len())
            .filter(|j| *j != owner && self.hidden[*j].contains(a))
            .collect();
        if hiders.is_empty() {
            return Follow::Skip;
        }
        let change = g.change(a).clone();
        let succ: Vec<usize> = hiders
            .iter()
            .map(|j| self.created[*j].iter().filter(|n| g.change(n) == &change).count())
            .collect();
        if hiders.len() == 1 && succ[0] == 1 {
            return Follow::SameChange { need_pred: false };
        }
        if succ.iter().all(|n| *n == 0) {
            let parents = g.parents(a).to_vec();
            if parents.iter().all(|p| !self.affected(g, p)) {
                return Follow::Abandoned { parents };
            }
        }
        Follow::Skip
    }

    /// `x` is visible after the merge, has the change id of `a`, and (if
    /// required) lists `a` as a transitive predecessor.
    fn is_successor(&self, g: &mut Graph, x: &CommitId, a: &CommitId, need_pred: bool) -> bool {
        if x == a {
            return self.merged.vis.contains(x);
        }
        self.merged.vis.contains(x)
            && g.load(x).is_ok()
            && g.change(x) == g.change(a)
            && (!need_pred || pred_path(self.preds, x, a))
    }
}

/// One side places change X above change Y while another places Y above X.
fn cyclic_reparenting(g: &mut Graph, sides: &[&Snap]) -> bool {
    let n = sides.len();
    let mut above: Vec<HashSet<(ChangeId, ChangeId)>> = vec![];
    for s in sides {
        let mut rel = HashSet::new();
        for x in &s.vis {
            if let Ok(anc) = g.ancestors(x) {
                for y in anc.iter() {
                    if y != x && g.change(x) != g.change(y) {
                        rel.insert((g.change(x).clone(), g.change(y).clone()));
                    }
                }
            }
        }
        above.push(rel);
    }
    for i in 0..n {
        for j in 0..n {
            if i != j && above[i].iter().any(|(a, b)| above[j].contains(&(b.clone(), a.clone()))) {
                return true;
            }
        }
    }
    false
}

/// Classifies how the sides' rewrites relate, for the signature of a
/// "rewritten commit still visible" report:
/// * `.cyclic_reparenting`: one side places change X above change Y while
///   another places Y above X, so no history can honour both rewrites;
/// * `.divergent_rewrites_across_sides`: with three or more sides, one commit
///   was replaced by different successors on different sides (once two of
///   them are merged jj sees a divergent rewrite and, by design, leaves
///   descendants of the old commit in place);
/// * `.child_of_abandoned_commit_on_rewritten_parent_needing_rebase`: see below
///   (`order_commits_for_rebase` follows the parent mapping one step only);
/// * empty: none of these.
fn rewrite_situation(g: &mut Graph, m: &MergeCtx) -> &'static str {
    let n = m.sides.len();
    if cyclic_reparenting(g, &m.sides) {
        return ".cyclic_reparenting";
    }
    if n >= 3 {
        for y in &m.all_hidden {
            let hiders: Vec<usize> = (0..n).filter(|i| m.hidden[*i].contains(y)).collect();
            if hiders.len() >= 2 {
                let successors: HashSet<&CommitId> = hiders
                    .iter()
                    .flat_map(|i| m.created[*i].iter().filter(|c| g.change(c) == g.change(y)))
                    .collect();
                if successors.len() >= 2 {
                    return ".divergent_rewrites_across_sides";
                }
            }
        }
    }
    // A child (on some side) of a commit Y that side j abandoned, where a parent P
    // of Y was rewritten to P' and P' itself has to be rebased because of yet
    // another side's rewrite: the parent mapping Y -> P -> P' -> rebased P' is
    // three steps long.
    for j in 0..n {
        for y in &m.hidden[j] {
            let abandoned = !m.created[j].iter().any(|c| g.change(c) == g.change(y));
            let has_child_elsewhere = (0..n).any(|i| {
                i != j && m.sides[i].vis.iter().any(|c| g.parents(c).contains(y))
            });
            if !abandoned || !has_child_elsewhere {
                continue;
            }
            for p in g.parents(y).to_vec() {
                for k in 0..n {
                    if !m.hidden[k].contains(&p) {
                        continue;
                    }
                    let successors: Vec<CommitId> =
                        m.created[k].iter().filter(|c| g.change(c) == g.change(&p)).cloned().collect();
                    for p2 in successors {
                        if let Ok(anc) = g.ancestors(&p2) {
                            if (0..n).any(|l| l != k && anc.iter().any(|x| m.hidden[l].contains(x))) {
                                return ".child_of_abandoned_commit_on_rewritten_parent_needing_rebase";
                            }
                        }
                    }
                }
            }
        }
    }
    ""
}

fn clause(kind: &str, name: &str) -> String {
    format!("{kind}.{name}")
}

/// The per-object no-loss oracle for one reconciliation.
fn check_merge(
    ctx: &Ctx,
    g: &mut Graph,
    base: &Snap,
    sides: &[&Snap],
    merged: &Snap,
    preds: &BTreeMap<CommitId, Vec<CommitId>>,
) -> Check {
    let n = sides.len();
    let hidden: Vec<HashSet<CommitId>> =
        sides.iter().map(|s| base.vis.difference(&s.vis).cloned().collect()).collect();
    let created: Vec<HashSet<CommitId>> =
        sides.iter().map(|s| s.vis.difference(&base.vis).cloned().collect()).collect();
    let all_hidden: HashSet<CommitId> = hidden.iter().flatten().cloned().collect();
    let m = MergeCtx { base, sides: sides.to_vec(), merged, preds, hidden, created, all_hidden };
    let who = |i: usize| sides[i].label.clone();
    let context = |g: &Graph| {
        format!(
            "\nbase   {}\n{}\nmerged {}",
            snap_json(g, base),
            sides.iter().map(|s| format!("side   {}", snap_json(g, s))).collect::<Vec<_>>().join("\n"),
            snap_json(g, merged)
        )
    };

    // A side that rewrote one commit into several visible commits of the same
    // change (divergent rewrite) keeps the old commit's descendants in place by
    // design; "hidden" is then not decidable from the views alone.
    let mut divergent = false;
    for i in 0..n {
        let mut per_change: HashMap<ChangeId, usize> = HashMap::new();
        for c in &m.created[i] {
            *per_change.entry(g.change(c).clone()).or_insert(0) += 1;
        }
        if m.hidden[i].iter().any(|x| per_change.get(g.change(x)).copied().unwrap_or(0) >= 2) {
            divergent = true;
        }
    }

    // --- commits -----------------------------------------------------------
    for x in &base.vis {
        if sides.iter().all(|s| s.vis.contains(x)) {
            ensure!(
                merged.vis.contains(x),
                "commit.untouched_commit_hidden",
                "commit {} is visible in the base and in every side but not after the merge{}",
                g.label(x),
                context(g)
            );
        }
    }
    cnt(ctx, "clause.commit.untouched_kept");
    if divergent {
        cnt(ctx, "skipped.hidden_clause_divergent_rewrite");
    } else {
        // Two situations in which jj keeps a rewritten commit visible are reported
        // under their own signatures so that they can be triaged separately from
        // a plain loss of a rewrite (see `rewrite_situation`).
        let mut situation: Option<&'static str> = None;
        'hidden: for i in 0..n {
            for x in &m.hidden[i] {
                if merged.vis.contains(x) {
                    let sit = *situation.get_or_insert_with(|| rewrite_situation(g, &m));
                    let fail = Fail {
                        clause: format!("commit.abandoned_or_rewritten_still_visible{sit}"),
                        message: format!(
                            "commit {} was hidden (abandoned or rewritten) by {} but is visible after the merge{}",
                            g.label(x),
                            who(i),
                            context(g)
                        ),
                    };
                    if sit.is_empty() {
                        return Err(fail);
                    }
                    // Situational finding: reported once per case by the caller (own
                    // signature); the remaining clauses are still checked.
                    cnt(ctx, &format!("finding.commit.abandoned_or_rewritten_still_visible{sit}"));
                    SOFT.with(|v| v.borrow_mut().push(fail));
                    break 'hidden;
                }
                cnt(ctx, "clause.commit.hidden_stays_hidden");
            }
        }
    }
    let mut known: HashSet<&CommitId> = base.vis.iter().collect();
    for s in sides {
        known.extend(s.vis.iter());
    }
    let fresh: Vec<CommitId> = merged.vis.iter().filter(|x| !known.contains(*x)).cloned().collect();
    for i in 0..n {
        for c in &m.created[i] {
            if merged.vis.contains(c) {
                cnt(ctx, "clause.commit.created_visible_as_itself");
                continue;
            }
            let found = fresh.iter().any(|x| g.change(x) == g.change(c) && pred_path(preds, x, c));
            ensure!(
                found,
                "commit.created_commit_lost",
                "commit {} created by {} is neither visible nor is there a visible commit with its change id \
                 that lists it as (transitive) predecessor; new commits of the merge: {:?}{}",
                g.label(c),
                who(i),
                g.labels(fresh.iter()),
                context(g)
            );
            cnt(ctx, "clause.commit.created_visible_as_rebased_successor");
        }
    }

    // --- bookmarks and tags --------------------------------------------------
    // Remote-tracking bookmarks are, like tags, never moved by rewrites.
    for kind in ["bookmark", "tag", "remote_bookmark"] {
        let get = |s: &Snap, name: &str| -> Tv {
            let map = match kind {
                "bookmark" => &s.bookmarks,
                "tag" => &s.tags,
                _ => &s.remotes,
            };
            map.get(name).cloned().unwrap_or_else(absent_tv)
        };
        let mut names: BTreeSet<String> = BTreeSet::new();
        for s in sides.iter().copied().chain([base, merged]) {
            let map = match kind {
                "bookmark" => &s.bookmarks,
                "tag" => &s.tags,
                _ => &s.remotes,
            };
            names.extend(map.keys().cloned());
        }
        for name in &names {
            let b = get(base, name);
            let vals: Vec<Tv> = sides.iter().map(|s| get(s, name)).collect();
            let res = get(merged, name);
            let changed: Vec<usize> = (0..n).filter(|i| vals[*i] != b).collect();
            let detail = |g: &Graph| {
                format!(
                    "{kind} {name}: base {} sides {} merged {}{}",
                    show_tv(g, &b),
                    (0..n).map(|i| format!("{}={}", who(i), show_tv(g, &vals[i]))).collect::<Vec<_>>().join(" "),
                    show_tv(g, &res),
                    context(g)
                )
            };
            // Tags are never moved by rewrites; bookmarks are, so exact clauses
            // need every named add to be untouched by all sides.
            let adds_untouched = |g: &mut Graph, t: &Tv| -> bool {
                kind != "bookmark" || t.iter().step_by(2).flatten().all(|a| !m.affected(g, a))
            };
            match changed.len() {
                0 => {
                    if adds_untouched(g, &b) {
                        ensure!(res == b, &clause(kind, "unchanged_value_differs"), "{}", detail(g));
                        cnt(ctx, &clause("clause", &format!("{kind}.unchanged_kept")));
                    } else {
                        cnt(ctx, &clause("skipped", &format!("{kind}.unchanged_but_target_touched")));
                    }
                }
                1 => {
                    let i = changed[0];
                    let v = &vals[i];
                    if adds_untouched(g, v) {
                        ensure!(&res == v, &clause(kind, "one_sided_change_lost"), "{}", detail(g));
                        cnt(ctx, &clause("clause", &format!("{kind}.one_sided_exact")));
                    } else if let [Some(a)] = v.as_slice() {
                        match m.follow(g, a, i) {
                            Follow::Exact => unreachable!(),
                            Follow::SameChange { need_pred } => {
                                let ok = matches!(res.as_slice(), [Some(x)] if m.is_successor(g, x, a, need_pred));
                                ensure!(ok, &clause(kind, "one_sided_not_following_rewrite"), "{}", detail(g));
                                cnt(ctx, &clause("clause", &format!("{kind}.one_sided_follows_rewrite")));
                            }
                            Follow::Abandoned { parents } => {
                                if let [p] = parents.as_slice() {
                                    ensure!(
                                        res == vec![Some(p.clone())],
                                        &clause(kind, "one_sided_not_following_abandon"),
                                        "{}",
                                        detail(g)
                                    );
                                    cnt(ctx, &clause("clause", &format!("{kind}.one_sided_follows_abandon")));
                                } else {
                                    cnt(ctx, &clause("skipped", &format!("{kind}.abandoned_merge_commit_target")));
                                }
                            }
                            Follow::Skip => cnt(ctx, &clause("skipped", &format!("{kind}.one_sided_complex_rewrite"))),
                        }
                    } else {
                        cnt(ctx, &clause("skipped", &format!("{kind}.one_sided_conflicted_and_touched")));
                    }
                }
                _ => {
                    let distinct: BTreeSet<&Tv> = changed.iter().map(|i| &vals[*i]).collect();
                    let untouched = changed.iter().all(|i| adds_untouched(g, &vals[*i]));
                    if !untouched {
                        cnt(ctx, &clause("skipped", &format!("{kind}.two_sided_target_touched")));
                        continue;
                    }
                    if distinct.len() == 1 {
                        let v = &vals[changed[0]];
                        ensure!(&res == v, &clause(kind, "identical_change_lost"), "{}", detail(g));
                        cnt(ctx, &clause("clause", &format!("{kind}.identical_change_kept")));
                        continue;
                    }
                    // never names a commit none of the inputs named (a removed term of a
                    // conflicted base becomes an add of the result and then follows
                    // rewrites, so every named id has to be untouched for this clause)
                    let mut allowed = ids_of(&b);
                    for v in &vals {
                        allowed.extend(ids_of(v));
                    }
                    if kind != "bookmark" || allowed.iter().all(|a| !m.affected(g, a)) {
                        ensure!(
                            ids_of(&res).is_subset(&allowed),
                            &clause(kind, "two_sided_names_foreign_commit"),
                            "{}",
                            detail(g)
                        );
                        cnt(ctx, &clause("clause", &format!("{kind}.two_sided_subset")));
                    }
                    let all_simple = b.len() == 1 && changed.iter().all(|i| vals[*i].len() == 1);
                    if !all_simple {
                        cnt(ctx, &clause("skipped", &format!("{kind}.two_sided_conflicted_inputs")));
                        continue;
                    }
                    let mut anc = |a: &CommitId, d: &CommitId| g.is_anc(a, d);
                    if changed.len() == 2 {
                        let (l, r) = (&vals[changed[0]][0], &vals[changed[1]][0]);
                        let (expected, branch) = simple_spec(l, &b[0], r, &mut anc);
                        match expected {
                            Simple::Resolved(v) => {
                                ensure!(
                                    res == vec![v],
                                    &clause(kind, &format!("two_sided.{branch}")),
                                    "{}",
                                    detail(g)
                                );
                            }
                            Simple::Conflict => {
                                let expected_den = den_terms(&[l.clone(), b[0].clone(), r.clone()]);
                                ensure!(
                                    res.len() == 3 && den_terms(&res) == expected_den,
                                    &clause(kind, &format!("two_sided.{branch}.not_recorded_as_conflict")),
                                    "{}",
                                    detail(g)
                                );
                            }
                        }
                        cnt(ctx, &clause("clause", &format!("{kind}.two_sided.{branch}")));
                    } else {
                        // Three sides changed it: order dependent in detail, but every
                        // dropped side must be an ancestor of a kept one (clause 3 of C12),
                        // counting equal sides once or with multiplicity.
                        let mut f_multi = den_terms(&b);
                        for i in &changed {
                            den_add(&mut f_multi, &den_terms(&vals[*i]), 1);
                            den_add(&mut f_multi, &den_terms(&b), -1);
                        }
                        let mut f_distinct = den_terms(&b);
                        for v in &distinct {
                            den_add(&mut f_distinct, &den_terms(v), 1);
                            den_add(&mut f_distinct, &den_terms(&b), -1);
                        }
                        let r1 = pairs_decompose(&f_multi, &res, &mut anc);
                        let r2 = pairs_decompose(&f_distinct, &res, &mut anc);
                        ensure!(
                            r1.is_ok() || r2.is_ok(),
                            &clause(kind, "three_sided_side_dropped_without_descendant"),
                            "{:?}; {}",
                            r1,
                            detail(g)
                        );
                        cnt(ctx, &clause("clause", &format!("{kind}.three_sided_pairs")));
                    }
                }
            }
        }
    }

    // --- workspaces --------------------------------------------------------------
    let mut names: BTreeSet<String> = BTreeSet::new();
    for s in sides.iter().copied().chain([base, merged]) {
        names.extend(s.wcs.keys().cloned());
    }
    for name in &names {
        let b = base.wcs.get(name).cloned();
        let vals: Vec<Option<CommitId>> = sides.iter().map(|s| s.wcs.get(name).cloned()).collect();
        let res = merged.wcs.get(name).cloned();
        let changed: Vec<usize> = (0..n).filter(|i| vals[*i] != b).collect();
        let show = |g: &Graph, v: &Option<CommitId>| v.as_ref().map_or("(none)".to_string(), |id| g.label(id));
        let detail = |g: &Graph| {
            format!(
                "workspace {name}: base {} sides {} merged {}{}",
                show(g, &b),
                (0..n).map(|i| format!("{}={}", who(i), show(g, &vals[i]))).collect::<Vec<_>>().join(" "),
                show(g, &res),
                context(g)
            )
        };
        let untouched = |g: &mut Graph, v: &Option<CommitId>| v.as_ref().is_none_or(|a| !m.affected(g, a));
        match changed.len() {
            0 => {
                if untouched(g, &b) {
                    ensure!(res == b, "workspace.unchanged_value_differs", "{}", detail(g));
                    cnt(ctx, "clause.workspace.unchanged_kept");
                } else {
                    cnt(ctx, "skipped.workspace.unchanged_but_target_touched");
                }
            }
            1 => {
                let i = changed[0];
                let v = &vals[i];
                match v {
                    None => {
                        ensure!(res.is_none(), "workspace.one_sided_removal_lost", "{}", detail(g));
                        cnt(ctx, "clause.workspace.one_sided_removed");
                    }
                    Some(a) => match m.follow(g, a, i) {
                        Follow::Exact => {
                            ensure!(&res == v, "workspace.one_sided_change_lost", "{}", detail(g));
                            cnt(ctx, "clause.workspace.one_sided_exact");
                        }
                        Follow::SameChange { need_pred } => {
                            let ok = matches!(&res, Some(x) if m.is_successor(g, x, a, need_pred));
                            ensure!(ok, "workspace.one_sided_not_following_rewrite", "{}", detail(g));
                            cnt(ctx, "clause.workspace.one_sided_follows_rewrite");
                        }
                        Follow::Abandoned { parents } => {
                            // A *new* working-copy commit on the abandoned commit's parents.
                            let ok = match &res {
                                Some(x) => {
                                    merged.vis.contains(x)
                                        && !base.vis.contains(x)
                                        && sides.iter().all(|s| !s.vis.contains(x))
                                        && g.load(x).is_ok()
                                        && g.parents(x) == parents.as_slice()
                                }
                                None => false,
                            };
                            ensure!(ok, "workspace.one_sided_abandoned_target_not_recreated", "{}", detail(g));
                            cnt(ctx, "clause.workspace.one_sided_follows_abandon");
                        }
                        Follow::Skip => cnt(ctx, "skipped.workspace.one_sided_complex_rewrite"),
                    },
                }
            }
            _ => {
                let distinct: BTreeSet<&Option<CommitId>> = changed.iter().map(|i| &vals[*i]).collect();
                let all_untouched = changed.iter().all(|i| untouched(g, &vals[*i]));
                if !all_untouched {
                    cnt(ctx, "skipped.workspace.two_sided_target_touched");
                    continue;
                }
                if distinct.len() == 1 {
                    ensure!(res == vals[changed[0]], "workspace.identical_change_lost", "{}", detail(g));
                    cnt(ctx, "clause.workspace.identical_change_kept");
                    continue;
                }
                // Soundness note of the design: a pointer cannot be conflicted. The
                // result must be one of the sides' values (a removal on any side may
                // win) and no side's commit may disappear.
                let some_removed = distinct.contains(&None);
                ensure!(
                    distinct.contains(&res) && (res.is_some() || some_removed),
                    "workspace.both_changed_result_is_neither_side",
                    "{}",
                    detail(g)
                );
                for v in distinct.iter().copied().flatten() {
                    ensure!(
                        merged.vis.contains(v),
                        "workspace.both_changed_other_side_commit_lost",
                        "commit {} is no longer visible; {}",
                        g.label(v),
                        detail(g)
                    );
                }
                cnt(ctx, if some_removed {
                    "clause.workspace.both_changed_one_removed"
                } else {
                    "clause.workspace.both_changed_one_side_kept_other_visible"
                });
            }
        }
    }
    Ok(())
}

// ---------------------------------------------------------------------------
// Workload

const BOOKMARKS: [&str; 3] = ["b0", "b1", "b2"];
const TAGS: [&str; 2] = ["t0", "t1"];
const WORKSPACES: [&str; 2] = ["default", "ws2"];

struct Focus {
    commits: Vec<String>, // labels
    bookmark: &'static str,
    tag: &'static str,
    workspace: &'static str,
}

fn ws(name: &str) -> WorkspaceNameBuf {
    WorkspaceName::new(name).to_owned()
}

/// Visible commits of the transaction, by the harness' graph, in a
/// structural (id independent) order. Root first.
fn visible_sorted(g: &mut Graph, tx: &Transaction) -> Vec<CommitId> {
    let heads: Vec<CommitId> = tx.repo().view().heads().iter().cloned().collect();
    let vis = g.closure(heads.iter()).expect("harness: side view names unreadable commit");
    let mut v: Vec<(String, Vec<String>, CommitId)> = vis
        .into_iter()
        .map(|id| {
            let parents = g.parents(&id).iter().map(|p| g.label(p)).collect();
            (g.label(&id), parents, id)
        })
        .collect();
    v.sort();
    let mut out: Vec<CommitId> = v.into_iter().map(|(_, _, id)| id).collect();
    let root = tx.repo().store().root_commit_id().clone();
    out.retain(|id| id != &root);
    out.insert(0, root);
    out
}

fn pick_commit(rng: &mut Rng, g: &Graph, candidates: &[CommitId], focus: &Focus) -> CommitId {
    if rng.chance(1, 2) {
        let f: Vec<&CommitId> = candidates.iter().filter(|id| focus.commits.contains(&g.label(id))).collect();
        if !f.is_empty() {
            return (*rng.pick(&f)).clone();
        }
    }
    rng.pick(candidates).clone()
}

fn gen_ref_target(rng: &mut Rng, g: &Graph, vis: &[CommitId], focus: &Focus) -> RefTarget {
    match rng.weighted(&[14, 4, 2]) {
        0 => RefTarget::normal(pick_commit(rng, g, vis, focus)),
        1 => RefTarget::absent(),
        _ => {
            let a = pick_commit(rng, g, vis, focus);
            let b = pick_commit(rng, g, vis, focus);
            let r = pick_commit(rng, g, vis, focus);
            if a == b || a == r || b == r {
                RefTarget::normal(a)
            } else {
                RefTarget::from_legacy_form([r], [a, b])
            }
        }
    }
}

/// Applies `n_ops` random edits to the transaction. Every edit is logged with
/// structural labels (the recorded intent of this side).
fn apply_edits(
    rng: &mut Rng,
    g: &mut Graph,
    tx: &mut Transaction,
    side: &str,
    n_ops: usize,
    focus: &Focus,
    log: &RefCell<Vec<String>>,
) {
    let mut counter = 0;
    for _ in 0..n_ops {
        let vis = visible_sorted(g, tx);
        let non_root: Vec<CommitId> = vis[1..].to_vec();
        let kind = rng.weighted(&[5, 4, 1, 3, 5, 2, 4, 2]);
        match kind {
            0 => {
                // create
                let mut parents = vec![pick_commit(rng, g, &vis, focus)];
                if rng.chance(1, 5) && non_root.len() >= 2 {
                    let p2 = pick_commit(rng, g, &non_root, focus);
                    if !parents.contains(&p2) && parents[0] != vis[0] {
                        parents.push(p2);
                    }
                }
                let tree = tx.repo().store().get_commit(&parents[0]).unwrap().tree();
                let desc = format!("{side}n{counter}");
                counter += 1;
                let commit = tx
                    .repo_mut()
                    .new_commit(parents.clone(), tree)
                    .set_description(&desc)
                    .write()
                    .block_on()
                    .unwrap();
                g.load(commit.id()).unwrap();
                log.borrow_mut().push(format!("{side}: create {desc} on {:?}", g.labels(parents.iter())));
            }
            1 | 2 if !non_root.is_empty() => {
                // rewrite (describe), or rewrite onto another parent
                let x = pick_commit(rng, g, &non_root, focus);
                let commit = tx.repo().store().get_commit(&x).unwrap();
                let desc = format!("{}~{side}", g.label(&x).replace("(wc-on ", "wc(").replace(')', ""));
                let mut builder = tx.repo_mut().rewrite_commit(&commit).set_description(&desc);
                let mut moved = String::new();
                if kind == 2 {
                    let descendants: Vec<CommitId> =
                        vis.iter().filter(|c| g.is_anc(&x, c)).cloned().collect();
                    let candidates: Vec<CommitId> =
                        vis.iter().filter(|c| !descendants.contains(c)).cloned().collect();
                    if !candidates.is_empty() {
                        let p = pick_commit(rng, g, &candidates, focus);
                        moved = format!(" onto {}", g.label(&p));
                        builder = builder.set_parents(vec![p]);
                    }
                }
                let new = builder.write().block_on().unwrap();
                tx.repo_mut().rebase_descendants().block_on().unwrap();
                log.borrow_mut().push(format!("{side}: rewrite {} as {desc}{moved}", g.label(&x)));
                g.load(new.id()).unwrap();
            }
            3 if !non_root.is_empty() => {
                let x = pick_commit(rng, g, &non_root, focus);
                let commit = tx.repo().store().get_commit(&x).unwrap();
                tx.repo_mut().record_abandoned_commit(&commit);
                tx.repo_mut().rebase_descendants().block_on().unwrap();
                log.borrow_mut().push(format!("{side}: abandon {}", g.label(&x)));
            }
            4 => {
                let name = if rng.chance(1, 2) { focus.bookmark } else { *rng.pick(&BOOKMARKS) };
                let target = gen_ref_target(rng, g, &vis, focus);
                log.borrow_mut().push(format!("{side}: bookmark {name} := {}", show_tv(g, &tv(&target))));
                tx.repo_mut().set_local_bookmark_target(RefName::new(name), target);
            }
            5 => {
                let name = if rng.chance(1, 2) { focus.tag } else { *rng.pick(&TAGS) };
                let target = gen_ref_target(rng, g, &vis, focus);
                log.borrow_mut().push(format!("{side}: tag {name} := {}", show_tv(g, &tv(&target))));
                tx.repo_mut().set_local_tag_target(RefName::new(name), target);
            }
            7 => {
                // a fetch-like update of a remote-tracking bookmark
                let name = if rng.chance(1, 2) { focus.bookmark } else { *rng.pick(&BOOKMARKS) };
                let target = gen_ref_target(rng, g, &vis, focus);
                let state = if rng.bool() { RemoteRefState::Tracked } else { RemoteRefState::New };
                log.borrow_mut().push(format!("{side}: remote bookmark {name}@origin := {}", show_tv(g, &tv(&target))));
                tx.repo_mut().set_remote_bookmark(
                    RemoteRefSymbol { name: RefName::new(name), remote: RemoteName::new("origin") },
                    RemoteRef { target, state },
                );
            }
            6 if !non_root.is_empty() => {
                let name = if rng.chance(1, 2) { focus.workspace } else { *rng.pick(&WORKSPACES) };
                let x = pick_commit(rng, g, &non_root, focus);
                let commit = tx.repo().store().get_commit(&x).unwrap();
                match rng.weighted(&[8, 5, 3, 3]) {
                    0 => {
                        log.borrow_mut().push(format!("{side}: edit {name} -> {}", g.label(&x)));
                        tx.repo_mut().edit(ws(name), &commit).block_on().unwrap();
                    }
                    1 => {
                        log.borrow_mut().push(format!("{side}: check_out {name} on {}", g.label(&x)));
                        let wc = tx.repo_mut().check_out(ws(name), &commit).block_on().unwrap();
                        g.load(wc.id()).unwrap();
                    }
                    2 => {
                        log.borrow_mut().push(format!("{side}: set_wc_commit {name} -> {}", g.label(&x)));
                        tx.repo_mut().add_head(&commit).block_on().unwrap();
                        tx.repo_mut().set_wc_commit(ws(name), x.clone()).unwrap();
                    }
                    _ => {
                        log.borrow_mut().push(format!("{side}: remove_workspace {name}"));
                        tx.repo_mut().remove_workspace(WorkspaceName::new(name)).block_on().unwrap();
                    }
                }
                if tx.repo().has_rewrites() {
                    tx.repo_mut().rebase_descendants().block_on().unwrap();
                }
            }
            _ => {}
        }
    }
    if tx.repo().has_rewrites() {
        tx.repo_mut().rebase_descendants().block_on().unwrap();
    }
}

fn settings_for_case(fixed_time: bool) -> UserSettings {
    let mut config = testutils::base_user_config();
    if fixed_time {
        config.add_layer(
            ConfigLayer::parse(ConfigSource::User, "debug.commit-timestamp = \"2001-02-03T04:05:06+07:00\"\n").unwrap(),
        );
    }
    UserSettings::from_config(config).unwrap()
}

fn op_files(test_repo: &TestRepo) -> BTreeSet<String> {
    let dir = test_repo.repo_path().join("op_store").join("operations");
    std::fs::read_dir(dir)
        .map(|rd| rd.flatten().filter_map(|e| e.file_name().into_string().ok()).collect())
        .unwrap_or_default()
}

fn permutations(n: usize) -> Vec<Vec<usize>> {
    fn rec(cur: &mut Vec<usize>, n: usize, out: &mut Vec<Vec<usize>>) {
        if cur.len() == n {
            out.push(cur.clone());
            return;
        }
        for i in 0..n {
            if !cur.contains(&i) {
                cur.push(i);
                rec(cur, n, out);
                cur.pop();
            }
        }
    }
    let mut out = vec![];
    rec(&mut vec![], n, &mut out);
    out
}

struct Reconciled {
    repo: Arc<ReadonlyRepo>,
    /// Operations written while reconciling (merged virtual bases, final op).
    new_ops: Vec<Operation>,
}

enum Via<'a> {
    MergeOperations(Vec<Operation>),
    LoadAtHead { fresh_loader: bool, settings: &'a UserSettings },
}

/// Runs one reconciliation path. `Err(reason)` if jj returned an error.
fn reconcile(test_repo: &TestRepo, loader: &RepoLoader, via: Via) -> Result<Reconciled, String> {
    let before = op_files(test_repo);
    let repo = match via {
        Via::MergeOperations(ops) => {
            loader
                .merge_operations(ops, None, Some("verif merge"), [])
                .block_on()
                .map_err(|e| format!("merge_operations: {e}"))?
                .0
        }
        Via::LoadAtHead { fresh_loader, settings } => {
            if fresh_loader {
                let fresh = RepoLoader::init_from_file_system(
                    settings,
                    test_repo.repo_path(),
                    &test_repo.env.default_backend_factories(),
                )
                .map_err(|e| format!("init_from_file_system: {e}"))?;
                fresh.load_at_head().block_on().map_err(|e| format!("load_at_head: {e}"))?
            } else {
                loader.load_at_head().block_on().map_err(|e| format!("load_at_head: {e}"))?
            }
        }
    };
    let after = op_files(test_repo);
    let mut new_ops = vec![];
    for hex in after.difference(&before) {
        if let Some(id) = OperationId::try_from_hex(hex) {
            let op = loader.load_operation(&id).block_on().map_err(|e| format!("load_operation: {e}"))?;
            new_ops.push(op);
        }
    }
    Ok(Reconciled { repo, new_ops })
}

/// Reconciling committed concurrent operations returned an error: there is no
/// reconciled repository at all, so nothing of either side is kept. Reported
/// under its own signatures (the message carries commit ids, the signature
/// does not).
fn reconcile_error(ctx: &Ctx, reason: &str) -> Check {
    let class = if reason.contains("already exists") {
        "newly_created_commit_already_exists"
    } else if reason.contains("ycle") {
        "cycle"
    } else {
        "other"
    };
    if std::env::var_os("VERIF_C13_TRIAGE").is_some() && class != "other" {
        ctx.count(&format!("finding.reconcile.error.{class}"));
        return Ok(());
    }
    Err(Fail { clause: format!("reconcile.error.{class}"), message: format!("reconciliation failed: {reason}") })
}

fn op_preds(op: &Operation) -> BTreeMap<CommitId, Vec<CommitId>> {
    op.store_operation().commit_predecessors.clone().unwrap_or_default()
}

/// Checks one reconciliation of `sides` (in the order jj merged them) against `base`.
fn check_reconciled(
    ctx: &Ctx,
    g: &mut Graph,
    base: &Snap,
    sides: &[&Snap],
    rec: &Reconciled,
    label: &str,
) -> Check {
    let merged = snap(g, &rec.repo, label)?;
    let preds = op_preds(rec.repo.operation());
    check_merge(ctx, g, base, sides, &merged, &preds)
}

pub fn run_c13(ctx: &Ctx) -> i32 {
    ctx.set_rule(
        "Fresh TestRepo per case: random base (4..9 commits with merges, 3 bookmarks incl. conflicted \
         and absent, 2 tags, 2 workspaces incl. discardable check_out commits); 2 or 3 transactions \
         from the same operation, or a criss-cross (A -> B,C; D0 = B merged with C, E0 = C merged \
         with B via Transaction::merge_operation; D, E = further edits), each applying 1..4 random \
         edits (create, describe, rewrite onto another parent, abandon, bookmark/tag set-move-delete \
         incl. conflicted, edit / check_out / set_wc_commit / remove_workspace), biased to a few \
         focus objects so sides collide; all committed -> divergent op heads; reconciled by \
         RepoLoader::merge_operations in every permutation and by load_at_head (same or fresh \
         loader). Oracle per commit / bookmark / tag / workspace from each side's own committed \
         state relative to the base. Non-trivial: at least two sides changed something and some \
         interaction clause (rebased successor, follow rewrite/abandon, two-sided ref or workspace \
         change, identical change) was decided. Distinct: by the structural log of the case.",
    );
    ctx.assume(
        "each side's intent is read from that side's own committed view (what it hid, created, and \
         where it left bookmarks/tags/workspaces) relative to the base, using the harness' own graph \
         search over store objects; the correctness of a single transaction's rewrite bookkeeping is \
         C10/C11's subject",
    );
    ctx.assume(
        "for criss-cross merges the base is the virtual base operation jj itself wrote during the \
         reconciliation (found as the new operation whose parents are the two common ancestors); \
         divergent rewrites within one side are not generated and the hidden-clause is skipped if \
         one is observed",
    );
    let n = ctx.tier().pick(1_500, 30_000);
    par_cases(ctx, n, threads(), |i, cs, rng| {
        let log: RefCell<Vec<String>> = RefCell::new(vec![]);
        // Commit timestamps come from the real clock: with a fixed timestamp a rebase
        // done by the merge can be bit-identical to a commit a side already wrote,
        // which jj rejects ("Newly-created commit ... already exists").
        let fixed_time = false;
        let shape = *rng.pick(&["two", "two", "three", "three", "crisscross"]);
        log.borrow_mut().push(format!("shape {shape} fixed_commit_time {fixed_time}"));
        let describe = || json!({"log": *log.borrow()});
        let mut nontrivial = false;
        run_case(ctx, i, cs, describe, || {
            SOFT.with(|v| v.borrow_mut().clear());
            let interactions_before = interaction_count();
            let settings = settings_for_case(fixed_time);
            let test_repo = TestRepo::init_with_settings(&settings);
            let loader = test_repo.repo.loader().clone();
            let mut g = Graph::new(test_repo.repo.store());

            // ---- base repository (operation A)
            let mut tx = test_repo.repo.start_transaction();
            let mut dag = Dag::new(test_repo.repo.store());
            let n_base = rng.range(4, 9);
            for k in 1..=n_base {
                let mut parents = vec![if rng.chance(2, 3) { k - 1 - rng.below(k.min(3)) } else { rng.below(k) }];
                if k >= 3 && rng.chance(1, 5) {
                    let p2 = rng.range(1, k - 1);
                    if !parents.contains(&p2) && parents[0] != 0 {
                        parents.push(p2);
                    }
                }
                add_commit(tx.repo_mut(), &mut dag, &parents, None, None, &format!("c{k}"));
                log.borrow_mut().push(format!("base: commit c{k} on {parents:?}"));
            }
            let focus = Focus {
                commits: (0..2).map(|_| format!("c{}", rng.range(1, n_base))).collect(),
                bookmark: *rng.pick(&BOOKMARKS),
                tag: *rng.pick(&TAGS),
                workspace: *rng.pick(&WORKSPACES),
            };
            log.borrow_mut().push(format!(
                "focus commits {:?} bookmark {} tag {} workspace {}",
                focus.commits, focus.bookmark, focus.tag, focus.workspace
            ));
            {
                let vis = visible_sorted(&mut g, &tx);
                for name in BOOKMARKS {
                    if rng.chance(3, 4) {
                        let target = gen_ref_target(rng, &g, &vis, &focus);
                        log.borrow_mut().push(format!("base: bookmark {name} := {}", show_tv(&g, &tv(&target))));
                        tx.repo_mut().set_local_bookmark_target(RefName::new(name), target);
                    }
                }
                for name in BOOKMARKS {
                    if rng.chance(1, 2) {
                        let target = RefTarget::normal(pick_commit(rng, &g, &vis, &focus));
                        log.borrow_mut().push(format!("base: remote bookmark {name}@origin := {}", show_tv(&g, &tv(&target))));
                        tx.repo_mut().set_remote_bookmark(
                            RemoteRefSymbol { name: RefName::new(name), remote: RemoteName::new("origin") },
                            RemoteRef { target, state: RemoteRefState::Tracked },
                        );
                    }
                }
                for name in TAGS {
                    if rng.chance(2, 3) {
                        let target = RefTarget::normal(pick_commit(rng, &g, &vis, &focus));
                        log.borrow_mut().push(format!("base: tag {name} := {}", show_tv(&g, &tv(&target))));
                        tx.repo_mut().set_local_tag_target(RefName::new(name), target);
                    }
                }
                for (k, name) in WORKSPACES.iter().enumerate() {
                    if rng.chance(if k == 0 { 9 } else { 6 }, 10) {
                        let x = pick_commit(rng, &g, &vis[1..], &focus);
                        let commit = tx.repo().store().get_commit(&x).unwrap();
                        if rng.chance(1, 2) {
                            log.borrow_mut().push(format!("base: check_out {name} on {}", g.label(&x)));
                            tx.repo_mut().check_out(ws(name), &commit).block_on().unwrap();
                        } else {
                            log.borrow_mut().push(format!("base: workspace {name} -> {}", g.label(&x)));
                            tx.repo_mut().set_wc_commit(ws(name), x.clone()).unwrap();
                        }
                    }
                }
            }
            let repo_a = tx.commit("base").block_on().unwrap();
            let snap_a = snap(&mut g, &repo_a, "base")?;

            // ---- concurrent sides
            let n_sides = if shape == "three" { 3 } else { 2 };
            let mut txs = vec![];
            for s in 0..n_sides {
                let mut tx = repo_a.start_transaction();
                let n_ops = rng.range(1, 4);
                apply_edits(rng, &mut g, &mut tx, &format!("s{}", s + 1), n_ops, &focus, &log);
                txs.push(tx);
            }
            let mut side_repos: Vec<Arc<ReadonlyRepo>> = vec![];
            for (s, tx) in txs.into_iter().enumerate() {
                side_repos.push(tx.commit(format!("side {}", s + 1)).block_on().unwrap());
            }
            // Keep the merge's own commits in a later millisecond than the sides' commits.
            std::thread::sleep(std::time::Duration::from_millis(2));
            let mut side_snaps = vec![];
            for (s, repo) in side_repos.iter().enumerate() {
                side_snaps.push(snap(&mut g, repo, &format!("s{}", s + 1))?);
            }
            let changed_sides = side_repos.iter().filter(|r| r.view() != repo_a.view()).count();

            let run_paths = |g: &mut Graph,
                                 rng: &mut Rng,
                                 base: Option<&Snap>,
                                 ancestors: &[OperationId],
                                 repos: &[Arc<ReadonlyRepo>],
                                 snaps: &[Snap],
                                 stage: &str|
             -> Check {
                if cyclic_reparenting(g, &snaps.iter().collect::<Vec<_>>()) {
                    ctx.count("situation.cyclic_reparenting_between_sides");
                    if std::env::var_os("VERIF_C13_TRIAGE").is_some() {
                        // development aid only: lets a run get past the findings tied to this situation
                        ctx.count("finding.cyclic_reparenting_case_not_reconciled");
                        return Ok(());
                    }
                }
                // Every order through merge_operations (unpublished), then load_at_head.
                let mut paths: Vec<(String, Via)> = permutations(repos.len())
                    .into_iter()
                    .map(|p| {
                        (
                            format!("{stage} merge_operations{:?}", p.iter().map(|i| i + 1).collect::<Vec<_>>()),
                            Via::MergeOperations(p.iter().map(|i| repos[*i].operation().clone()).collect()),
                        )
                    })
                    .collect();
                let fresh_loader = rng.bool();
                paths.push((
                    format!("{stage} load_at_head fresh_loader={fresh_loader}"),
                    Via::LoadAtHead { fresh_loader, settings: &settings },
                ));
                for (label, via) in paths {
                    let is_load = matches!(via, Via::LoadAtHead { .. });
                    log.borrow_mut().push(format!("reconcile: {label}"));
                    let rec = match reconcile(&test_repo, &loader, via) {
                        Ok(rec) => rec,
                        Err(reason) => {
                            return reconcile_error(ctx, &reason);
                        }
                    };
                    let final_op = rec.repo.operation().clone();
                    // Order in which jj merged the sides = parents of the merge operation.
                    let mut ordered: Vec<&Snap> = vec![];
                    for pid in final_op.parent_ids() {
                        match repos.iter().position(|r| r.op_id() == pid) {
                            Some(k) => ordered.push(&snaps[k]),
                            None => panic!("harness: merge operation has unexpected parent {pid:?}"),
                        }
                    }
                    if ordered.len() != repos.len() {
                        panic!("harness: merge operation has {} parents, expected {}", ordered.len(), repos.len());
                    }
                    let base_snap;
                    let base_ref: &Snap = match base {
                        Some(b) => b,
                        None => {
                            // criss-cross: the virtual base jj wrote while reconciling
                            let want: BTreeSet<&OperationId> = ancestors.iter().collect();
                            let candidates: Vec<&Operation> = rec
                                .new_ops
                                .iter()
                                .filter(|op| op.id() != final_op.id())
                                .filter(|op| op.parent_ids().iter().collect::<BTreeSet<_>>() == want)
                                .collect();
                            if candidates.len() != 1 {
                                panic!("harness: expected exactly one virtual base operation, found {}", candidates.len());
                            }
                            let base_repo = loader.load_at(candidates[0]).block_on().unwrap();
                            base_snap = snap(g, &base_repo, "virtual-base")?;
                            ctx.count("path.criss_cross_virtual_base_found");
                            &base_snap
                        }
                    };
                    check_reconciled(ctx, g, base_ref, &ordered, &rec, &label)?;
                    ctx.count(if is_load { "path.load_at_head" } else { "path.merge_operations" });
                    ctx.count(&format!("path.sides_{}", repos.len()));
                    if is_load {
                        let heads = loader.op_heads_store().get_op_heads().block_on().unwrap();
                        ensure!(
                            heads.len() == 1 && heads[0] == *final_op.id(),
                            "reconcile.op_heads_not_single_after_load_at_head",
                            "op heads after load_at_head: {:?}, merged op {:?}",
                            heads,
                            final_op.id()
                        );
                    }
                }
                Ok(())
            };

            if shape != "crisscross" {
                let ids = [repo_a.op_id().clone()];
                run_paths(&mut g, rng, Some(&snap_a), &ids, &side_repos, &side_snaps, "flat")?;
            } else {
                if std::env::var_os("VERIF_C13_TRIAGE").is_some()
                    && cyclic_reparenting(&mut g, &side_snaps.iter().collect::<Vec<_>>())
                {
                    ctx.count("finding.cyclic_reparenting_case_not_reconciled");
                    return Ok(());
                }
                // First level without publishing a merge: merge_operations in both orders.
                for p in permutations(2) {
                    let ops = p.iter().map(|k| side_repos[*k].operation().clone()).collect();
                    log.borrow_mut().push(format!("reconcile: level-1 merge_operations{p:?}"));
                    match reconcile(&test_repo, &loader, Via::MergeOperations(ops)) {
                        Ok(rec) => {
                            let ordered: Vec<&Snap> = p.iter().map(|k| &side_snaps[*k]).collect();
                            check_reconciled(ctx, &mut g, &snap_a, &ordered, &rec, "level-1")?;
                            ctx.count("path.merge_operations");
                        }
                        Err(reason) => {
                            return reconcile_error(ctx, &reason);
                        }
                    }
                }
                // D0 = B + C, E0 = C + B (or B + C again), through Transaction::merge_operation.
                let same_orientation = rng.chance(1, 3);
                let mut merged_repos = vec![];
                for (k, (first, second)) in [(0usize, 1usize), if same_orientation { (0, 1) } else { (1, 0) }].into_iter().enumerate() {
                    let mut tx = side_repos[first].start_transaction();
                    if let Err(err) = tx.merge_operation(repo_a.operation(), side_repos[second].operation()).block_on() {
                        return reconcile_error(ctx, &format!("merge_operation: {err}"));
                    }
                    tx.repo_mut().rebase_descendants().block_on().unwrap();
                    let name = ["D", "E"][k];
                    log.borrow_mut().push(format!("{name}0: s{} merged with s{} (Transaction::merge_operation)", first + 1, second + 1));
                    let edits_in_merge_tx = rng.chance(1, 3);
                    if edits_in_merge_tx {
                        let n_ops = rng.range(1, 3);
                        apply_edits(rng, &mut g, &mut tx, name, n_ops, &focus, &log);
                    }
                    let repo0 = tx.commit(format!("{name}0")).block_on().unwrap();
                    if !edits_in_merge_tx {
                        // A pure merge transaction can be checked like any reconciliation.
                        let merged = snap(&mut g, &repo0, &format!("{name}0"))?;
                        let preds = op_preds(repo0.operation());
                        check_merge(ctx, &mut g, &snap_a, &[&side_snaps[first], &side_snaps[second]], &merged, &preds)?;
                        ctx.count("path.transaction_merge_operation");
                    }
                    let repo1 = if !edits_in_merge_tx && rng.chance(3, 4) {
                        let mut tx = repo0.start_transaction();
                        let n_ops = rng.range(1, 3);
                        apply_edits(rng, &mut g, &mut tx, name, n_ops, &focus, &log);
                        tx.commit(name.to_string()).block_on().unwrap()
                    } else {
                        repo0
                    };
                    merged_repos.push(repo1);
                }
                let snaps = vec![snap(&mut g, &merged_repos[0], "D")?, snap(&mut g, &merged_repos[1], "E")?];
                let ancestors = [side_repos[0].op_id().clone(), side_repos[1].op_id().clone()];
                ctx.count("shape.criss_cross_final_merges");
                run_paths(&mut g, rng, None, &ancestors, &merged_repos, &snaps, "criss-cross")?;
            }
            nontrivial = changed_sides >= 2 && interaction_count() > interactions_before;
            Ok(())
        });
        if ctx.args.replay.is_some() {
            println!("{}", log.borrow().join("\n"));
        }
        let mut soft = SOFT.with(|v| std::mem::take(&mut *v.borrow_mut()));
        soft.dedup_by(|a, b| a.clause == b.clause);
        if std::env::var_os("VERIF_C13_TRIAGE").is_none() {
            for f in soft {
                ctx.violation(
                    &f.clause,
                    &format!("clause {}: {}", f.clause, f.message),
                    json!({"case_index": i, "case_seed": cs, "case": {"log": *log.borrow()},
                           "clause": f.clause, "detail": f.message}),
                );
            }
        }
        ctx.case(stable_hash(&*log.borrow()), nontrivial);
        ctx.count(&format!("shape.{shape}"));
        if nontrivial && ctx.wants_sample() {
            ctx.sample(|| json!({"log": *log.borrow()}));
        }
    });
    ctx.finish(150)
}

thread_local! {
    /// Situational findings of the current case (see `rewrite_situation`).
    static SOFT: RefCell<Vec<Fail>> = const { RefCell::new(vec![]) };
    static INTERACTIONS: std::cell::Cell<u64> = const { std::cell::Cell::new(0) };
}

/// Interaction clauses decided on this thread so far (a case runs on one thread).
fn interaction_count() -> u64 {
    INTERACTIONS.with(|c| c.get())
}

/// Counts an observation; clauses that decide an interaction between sides
/// also feed the per-case non-triviality rule.
fn cnt(ctx: &Ctx, key: &str) {
    ctx.count(key);
    const MARKS: [&str; 7] = [
        "rebased_successor",
        "follows_",
        "identical_change",
        "three_sided",
        "two_sided",
        "both_changed",
        "hidden_stays_hidden",
    ];
    if key.starts_with("clause.") && MARKS.iter().any(|m| key.contains(m)) {
        INTERACTIONS.with(|c| c.set(c.get() + 1));
    }
}
