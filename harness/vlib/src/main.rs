fn main() {
    vlib::main_with(vlib::dispatch)
}
