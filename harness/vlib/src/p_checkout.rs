//! C06 (unedited conflicted file snapshots as the same conflict), C24
//! (checkout writes the tree, immediate snapshot sees no change), C25
//! (checkout never destroys files it does not own), C29 (EOL conversion
//! round-trips normalized content).
//!
//! All four drive the real `LocalWorkingCopy` (init / load / start_mutation /
//! check_out / snapshot / finish -- the calls `Workspace::check_out` and
//! `TestWorkspace::snapshot` make) on a workspace directory with a real
//! `.jj/working_copy` state directory, against a per-thread `TestRepo` store.
//! Every operation reloads the working copy from disk, as each CLI command
//! does.

use std::cell::RefCell;
use std::collections::BTreeMap;
use std::collections::BTreeSet;
use std::path::Path;
use std::path::PathBuf;
use std::sync::Arc;
use std::time::Duration;
use std::time::SystemTime;

use bstr::ByteSlice as _;
use jj_lib::backend::CopyId;
use jj_lib::backend::FileId;
use jj_lib::backend::MergedTreeValue;
use jj_lib::backend::TreeValue;
use jj_lib::config::ConfigLayer;
use jj_lib::config::ConfigSource;
use jj_lib::conflict_labels::ConflictLabels;
use jj_lib::conflicts::ConflictMarkerStyle;
use jj_lib::conflicts::ConflictMaterializeOptions;
use jj_lib::conflicts::choose_materialized_conflict_marker_len;
use jj_lib::conflicts::materialize_merge_result_to_bytes;
use jj_lib::conflicts::try_materialize_file_conflict_value;
use jj_lib::conflicts::update_from_content;
use jj_lib::files::FileMergeHunkLevel;
use jj_lib::local_working_copy::LocalWorkingCopy;
use jj_lib::merge::Merge;
use jj_lib::merge::SameChange;
use jj_lib::merged_tree::MergedTree;
use jj_lib::op_store::OperationId;
use jj_lib::ref_name::WorkspaceName;
use jj_lib::repo::Repo as _;
use jj_lib::repo_path::RepoPath;
use jj_lib::settings::UserSettings;
use jj_lib::store::Store;
use jj_lib::tree_merge::MergeOptions;
use jj_lib::working_copy::CheckoutStats;
use jj_lib::working_copy::WorkingCopy as _;
use pollster::FutureExt as _;
use serde_json::Value;
use serde_json::json;
use testutils::TestRepo;

use crate::common::*;
use crate::driver::DiskEntry;
use crate::driver::walk_disk;
use crate::ensure;
use crate::r#gen;
use crate::model::*;
use crate::p_files::gen_file_merge;
use crate::p_files::reference_merge_hunks;
use crate::p_merge::den_terms;
use crate::p_merge::reference_resolve;

// ---------------------------------------------------------------------------
// EOL reference (own classifier and converter; independent of eol.rs)

const PROBE: usize = 8 << 10;

#[derive(Clone, Copy, Debug, PartialEq, Eq)]
enum EolClass {
    Text,
    Binary,
    /// The last probed byte (offset 8191) is a CR that is *not* followed by
    /// LF. The property text ("lone CR in the first 8 KiB => binary") says
    /// binary, jj's probe cannot see the next byte and says text. Either
    /// answer is accepted.
    Ambiguous,
}

fn classify(c: &[u8]) -> EolClass {
    let probe = &c[..c.len().min(PROBE)];
    let mut ambiguous = false;
    for (i, b) in probe.iter().enumerate() {
        match *b {
            0 => return EolClass::Binary,
            b'\r' => {
                if i + 1 < probe.len() {
                    if probe[i + 1] != b'\n' {
                        return EolClass::Binary;
                    }
                } else if i + 1 == PROBE {
                    if c.get(PROBE) != Some(&b'\n') {
                        ambiguous = true;
                    }
                } else {
                    // CR is the last byte of a file shorter than the probe
                    return EolClass::Binary;
                }
            }
            _ => {}
        }
    }
    if ambiguous { EolClass::Ambiguous } else { EolClass::Text }
}

fn has_crlf(c: &[u8]) -> bool {
    c.find(b"\r\n").is_some()
}

/// LF -> CRLF image of a content without CRLF.
fn to_crlf(c: &[u8]) -> Vec<u8> {
    let mut out = Vec::with_capacity(c.len() + 16);
    for (i, b) in c.iter().enumerate() {
        if *b == b'\n' && (i == 0 || c[i - 1] != b'\r') {
            out.push(b'\r');
        }
        out.push(*b);
    }
    out
}

#[derive(Clone, Debug, PartialEq, Eq)]
enum ExpectBytes {
    Exact(Vec<u8>),
    Either(Vec<u8>, Vec<u8>),
    /// The property does not say (text stored with CRLF under a converting mode).
    Unspecified,
}

impl ExpectBytes {
    fn accepts(&self, actual: &[u8]) -> bool {
        match self {
            Self::Exact(a) => a == actual,
            Self::Either(a, b) => a == actual || b == actual,
            Self::Unspecified => true,
        }
    }
}

/// What checkout must write for stored bytes `c` under `eol`.
fn expected_disk_bytes(eol: &str, c: &[u8]) -> ExpectBytes {
    match eol {
        "none" | "input" => ExpectBytes::Exact(c.to_vec()),
        _ => match classify(c) {
            EolClass::Binary => ExpectBytes::Exact(c.to_vec()),
            _ if has_crlf(c) => ExpectBytes::Unspecified,
            EolClass::Text => ExpectBytes::Exact(to_crlf(c)),
            EolClass::Ambiguous => ExpectBytes::Either(c.to_vec(), to_crlf(c)),
        },
    }
}

/// Whether a snapshot of the checked-out file must give back `c` exactly.
fn snapshot_must_roundtrip(eol: &str, c: &[u8]) -> bool {
    eol == "none" || classify(c) == EolClass::Binary || !has_crlf(c)
}

/// Under a converting EOL mode, contents are kept "normalized": no CR that
/// is followed by LF or by the end of the content (conflict materialization
/// appends a newline to sides that lack one, which would turn a trailing
/// lone CR into CRLF). CRs in the middle of a line stay (=> binary class).
fn normalize_content(c: &mut [u8]) {
    let n = c.len();
    for i in 0..n {
        if c[i] == b'\r' && (i + 1 == n || c[i + 1] == b'\n') {
            c[i] = b'r';
        }
    }
}

fn normalize_model(m: &mut TreeModel) {
    for e in m.values_mut() {
        if let Entry::File { content, .. } = e {
            normalize_content(content);
        }
    }
}

// ---------------------------------------------------------------------------
// Working-copy fixture

const EOLS: [&str; 3] = ["none", "input", "input-output"];
const EXECS: [&str; 3] = ["respect", "ignore", "auto"];
const STYLES: [&str; 4] = ["diff", "diff-experimental", "snapshot", "git"];

#[derive(Clone, Copy, Debug, Hash)]
struct WcSettings {
    eol: &'static str,
    exec: &'static str,
    style: &'static str,
}

impl WcSettings {
    fn random(rng: &mut Rng) -> Self {
        Self {
            eol: *rng.pick(&EOLS),
            exec: *rng.pick(&EXECS),
            style: *rng.pick(&STYLES),
        }
    }
    fn json(&self) -> Value {
        json!({"eol-conversion": self.eol, "exec-bit-change": self.exec, "conflict-marker-style": self.style})
    }
    fn user_settings(&self) -> UserSettings {
        let mut config = testutils::base_user_config();
        let text = format!(
            "working-copy.eol-conversion = \"{}\"\nworking-copy.exec-bit-change = \"{}\"\n\
             ui.conflict-marker-style = \"{}\"\n",
            self.eol, self.exec, self.style
        );
        config.add_layer(ConfigLayer::parse(ConfigSource::User, &text).unwrap());
        UserSettings::from_config(config).unwrap()
    }
    fn marker_style(&self) -> ConflictMarkerStyle {
        match self.style {
            "diff" => ConflictMarkerStyle::Diff,
            "diff-experimental" => ConflictMarkerStyle::DiffExperimental,
            "snapshot" => ConflictMarkerStyle::Snapshot,
            _ => ConflictMarkerStyle::Git,
        }
    }
    fn compares_exec(&self) -> bool {
        self.exec != "ignore"
    }
}

struct Wc {
    tmp: tempfile::TempDir,
    root: PathBuf,
    state: PathBuf,
    store: Arc<Store>,
    settings: UserSettings,
    op_id: OperationId,
}

impl Wc {
    fn new(store: &Arc<Store>, op_id: &OperationId, settings: &WcSettings) -> Self {
        let tmp = tempfile::Builder::new().prefix("vwc-").tempdir().unwrap();
        let root = tmp.path().join("ws");
        let state = root.join(".jj").join("working_copy");
        std::fs::create_dir_all(&state).unwrap();
        let settings = settings.user_settings();
        LocalWorkingCopy::init(
            store.clone(),
            root.clone(),
            state.clone(),
            op_id.clone(),
            WorkspaceName::DEFAULT.to_owned(),
            &settings,
        )
        .unwrap();
        Self { tmp, root, state, store: store.clone(), settings, op_id: op_id.clone() }
    }

    fn outside(&self) -> PathBuf {
        self.tmp.path().join("outside")
    }

    fn load(&self) -> Result<LocalWorkingCopy, String> {
        LocalWorkingCopy::load(self.store.clone(), self.root.clone(), self.state.clone(), &self.settings)
            .map_err(|e| format!("load: {e:?}"))
    }

    /// Fresh load, check out `tree` (through a commit), save.
    fn check_out(&self, tree: &MergedTree) -> Result<CheckoutStats, String> {
        let commit = testutils::commit_with_tree(&self.store, tree.clone());
        let wc = self.load()?;
        let mut locked = wc.start_mutation().block_on().map_err(|e| format!("lock: {e:?}"))?;
        let stats = locked.check_out(&commit).block_on().map_err(|e| format!("check_out: {e:?}"))?;
        locked.finish(self.op_id.clone()).block_on().map_err(|e| format!("finish: {e:?}"))?;
        Ok(stats)
    }

    /// Fresh load, set the sparse patterns (prefix paths), save.
    fn set_sparse(&self, prefixes: &[&str]) -> Result<CheckoutStats, String> {
        let wc = self.load()?;
        let mut locked = wc.start_mutation().block_on().map_err(|e| format!("lock: {e:?}"))?;
        let patterns = prefixes.iter().map(|p| rp(p)).collect();
        let stats = locked
            .set_sparse_patterns(patterns)
            .block_on()
            .map_err(|e| format!("set_sparse_patterns: {e:?}"))?;
        locked.finish(self.op_id.clone()).block_on().map_err(|e| format!("finish: {e:?}"))?;
        Ok(stats)
    }

    /// Fresh load, snapshot, save.
    fn snapshot(&self) -> Result<MergedTree, String> {
        let wc = self.load()?;
        let mut locked = wc.start_mutation().block_on().map_err(|e| format!("lock: {e:?}"))?;
        let options = testutils::empty_snapshot_options();
        let (tree, _stats) = locked.snapshot(&options).block_on().map_err(|e| format!("snapshot: {e:?}"))?;
        locked.finish(self.op_id.clone()).block_on().map_err(|e| format!("finish: {e:?}"))?;
        Ok(tree)
    }

    fn disk(&self) -> BTreeMap<String, DiskEntry> {
        walk_disk(&self.root)
    }
}

thread_local! {
    static REPO: RefCell<Option<(TestRepo, u32)>> = const { RefCell::new(None) };
}

/// Per-thread store (in-memory test backend), renewed now and then so that
/// memory stays bounded in long runs.
fn with_store<R>(f: impl FnOnce(&Arc<Store>, &OperationId) -> R) -> R {
    REPO.with(|cell| {
        {
            let mut slot = cell.borrow_mut();
            let renew = match slot.as_mut() {
                None => true,
                Some((_, uses)) => {
                    *uses += 1;
                    *uses > 400
                }
            };
            if renew {
                *slot = Some((TestRepo::init(), 0));
            }
        }
        let slot = cell.borrow();
        let (repo, _) = slot.as_ref().unwrap();
        f(repo.repo.store(), repo.repo.op_id())
    })
}

fn is_dir_prefix(dir: &str, path: &str) -> bool {
    path.len() > dir.len() && path.starts_with(dir) && path.as_bytes()[dir.len()] == b'/'
}

/// All directories below `root` (relative), skipping `.jj` / `.git` at the top.
fn walk_dirs(root: &Path) -> BTreeSet<String> {
    fn rec(dir: &Path, rel: &str, out: &mut BTreeSet<String>) {
        let Ok(rd) = std::fs::read_dir(dir) else { return };
        for e in rd.flatten() {
            let name = e.file_name().to_string_lossy().into_owned();
            if rel.is_empty() && (name == ".jj" || name == ".git") {
                continue;
            }
            let Ok(meta) = std::fs::symlink_metadata(e.path()) else { continue };
            if meta.is_dir() {
                let rel_path = if rel.is_empty() { name } else { format!("{rel}/{name}") };
                out.insert(rel_path.clone());
                rec(&e.path(), &rel_path, out);
            }
        }
    }
    let mut out = BTreeSet::new();
    rec(root, "", &mut out);
    out
}

/// Gives every regular file a new mtime (contents untouched) so that the next
/// snapshot has to read it again.
fn touch_all(root: &Path, disk: &BTreeMap<String, DiskEntry>, stamp_secs: u64) {
    for (p, e) in disk {
        if matches!(e, DiskEntry::File { .. })
            && let Ok(f) = std::fs::File::options().write(true).open(root.join(p))
        {
            f.set_modified(SystemTime::UNIX_EPOCH + Duration::from_secs(stamp_secs)).ok();
        }
    }
}

fn disk_short(e: &DiskEntry) -> String {
    match e {
        DiskEntry::File { content, exec } => {
            format!("file{}({})", if *exec { "+x" } else { "" }, truncate(&r#gen::show(content), 300))
        }
        DiskEntry::Symlink(t) => format!("symlink({t})"),
    }
}

fn disk_json(d: &BTreeMap<String, DiskEntry>) -> Value {
    Value::Object(d.iter().map(|(p, e)| (p.clone(), json!(disk_short(e)))).collect())
}

// ---------------------------------------------------------------------------
// Expected leaves of a (possibly conflicted) tree: own path-wise evaluation
// of the term trees read back from the store.

#[derive(Clone, Debug, PartialEq)]
enum Leaf {
    File { content: Vec<u8>, exec: bool },
    Symlink(String),
    /// Unresolved at this path: checkout writes one regular file here
    /// (markers or a description) and nothing below.
    Conflict(Vec<Val>),
}

fn term_models(tree: &MergedTree) -> Vec<TreeModel> {
    tree.tree_ids()
        .iter()
        .map(|id| {
            let mut m = read_tree_model(tree.store(), RepoPath::root(), id);
            m.retain(|p, _| !p.ends_with("<empty-tree>"));
            m
        })
        .collect()
}

fn expected_leaves(tree: &MergedTree) -> BTreeMap<String, Leaf> {
    let same_change = tree.store().merge_options().same_change;
    let models = term_models(tree);
    let mut out: BTreeMap<String, Leaf> = BTreeMap::new();
    let mut closed: Vec<String> = vec![];
    for path in all_paths(&models) {
        if closed.iter().any(|c| is_dir_prefix(c, &path)) {
            continue;
        }
        let vals: Vec<Val> = models.iter().map(|m| val_at(m, &path)).collect();
        let all_dirs = vals.iter().all(|v| matches!(v, Val::Tree(_) | Val::Absent));
        if all_dirs {
            continue; // a directory (or nothing) in every term: decided at the children
        }
        match reference_resolve(&vals, same_change) {
            Some(Val::Tree(_)) => {} // children resolve path-wise
            Some(Val::Absent) => closed.push(path),
            Some(Val::File { content, exec }) => {
                out.insert(path.clone(), Leaf::File { content, exec });
                closed.push(path);
            }
            Some(Val::Symlink(t)) => {
                out.insert(path.clone(), Leaf::Symlink(t));
                closed.push(path);
            }
            Some(Val::Other(_)) | None => {
                out.insert(path.clone(), Leaf::Conflict(vals));
                closed.push(path);
            }
        }
    }
    out
}

/// Clause (1) of C24: the walker sees exactly the tree's paths; resolved
/// files match content (through the EOL reference), exec bit, link target;
/// conflicted paths hold one regular file.
fn check_disk_is_tree(
    clause_prefix: &str,
    leaves: &BTreeMap<String, Leaf>,
    disk: &BTreeMap<String, DiskEntry>,
    settings: &WcSettings,
) -> Check {
    let want: BTreeSet<&String> = leaves.keys().collect();
    let have: BTreeSet<&String> = disk.keys().collect();
    ensure!(
        want == have,
        format!("{clause_prefix}.paths"),
        "tree paths {:?}\ndisk paths {:?}",
        want,
        have
    );
    for (path, leaf) in leaves {
        let on_disk = &disk[path];
        match leaf {
            Leaf::File { content, exec } => {
                let DiskEntry::File { content: dc, exec: de } = on_disk else {
                    return fail(
                        &format!("{clause_prefix}.kind"),
                        format!("{path}: tree has a file, disk has {}", disk_short(on_disk)),
                    );
                };
                let expect = expected_disk_bytes(settings.eol, content);
                ensure!(
                    expect.accepts(dc),
                    format!("{clause_prefix}.content"),
                    "{}: stored {} (class {:?}) under eol={} expected {:?}, disk has {}",
                    path,
                    truncate(&r#gen::show(content), 300),
                    classify(content),
                    settings.eol,
                    expect,
                    truncate(&r#gen::show(dc), 300)
                );
                if settings.compares_exec() {
                    ensure!(
                        de == exec,
                        format!("{clause_prefix}.exec_bit"),
                        "{}: tree exec={} disk exec={} (policy {})",
                        path,
                        exec,
                        de,
                        settings.exec
                    );
                }
            }
            Leaf::Symlink(target) => {
                ensure!(
                    *on_disk == DiskEntry::Symlink(target.clone()),
                    format!("{clause_prefix}.symlink"),
                    "{}: tree has symlink to {:?}, disk has {}",
                    path,
                    target,
                    disk_short(on_disk)
                );
            }
            Leaf::Conflict(_) => {
                ensure!(
                    matches!(on_disk, DiskEntry::File { .. }),
                    format!("{clause_prefix}.conflict_is_regular_file"),
                    "{}: conflicted in the tree, disk has {}",
                    path,
                    disk_short(on_disk)
                );
            }
        }
    }
    Ok(())
}

// ---------------------------------------------------------------------------
// Tree generation (resolved and conflicted steps)

/// One tree of a case: a single model (resolved) or the terms of a merge.
#[derive(Clone, Debug, Hash)]
struct Step {
    terms: Vec<TreeModel>,
}

fn split_lines(content: &[u8]) -> (Vec<Vec<u8>>, bool) {
    let mut lines: Vec<Vec<u8>> = content.split(|b| *b == b'\n').map(|l| l.to_vec()).collect();
    let had_final = content.ends_with(b"\n");
    if had_final || content.is_empty() {
        lines.pop();
    }
    (lines, had_final)
}

fn gen_conflict_terms(rng: &mut Rng, base: &TreeModel, pool: &[Vec<u8>], n_terms: usize) -> Vec<TreeModel> {
    let mut base = base.clone();
    let files: Vec<String> = base
        .iter()
        .filter(|(_, e)| matches!(e, Entry::File { .. }))
        .map(|(p, _)| p.clone())
        .collect();
    let target: String = if files.is_empty() || rng.chance(1, 4) {
        let p = (*rng.pick(PATHS)).to_owned();
        let lines = r#gen::gen_lines(rng, pool, 5);
        let content = r#gen::join_lines(rng, &lines, r#gen::Eol::Lf, true);
        tree_insert(&mut base, &p, Entry::File { content, exec: false });
        p
    } else {
        rng.pick(&files).clone()
    };
    let mut terms = vec![];
    for i in 0..n_terms {
        let mut m = if i % 2 == 1 && rng.chance(2, 3) {
            base.clone()
        } else {
            mutate_tree(rng, &base, pool, 2)
        };
        if i % 2 == 0
            && rng.chance(3, 4)
            && let Some(Entry::File { content, exec }) = base.get(&target).cloned()
        {
            let (lines, fin) = split_lines(&content);
            let mut edited = r#gen::edit_lines(rng, &lines, pool, 2);
            if rng.chance(2, 3) {
                let at = rng.below(edited.len() + 1);
                edited.insert(at, format!("side {i}").into_bytes());
            }
            let fin = fin || rng.chance(1, 2);
            let content = r#gen::join_lines(rng, &edited, r#gen::Eol::Lf, fin);
            let exec = if rng.chance(1, 5) { !exec } else { exec };
            tree_insert(&mut m, &target, Entry::File { content, exec });
        }
        if i % 2 == 0 && rng.chance(1, 10) {
            m.remove(&target);
        }
        terms.push(m);
    }
    if n_terms >= 5 && rng.chance(1, 2) {
        // redundant (remove, add) pair at the target path while the two trees differ elsewhere
        match terms[1].get(&target).cloned() {
            Some(e) => tree_insert(&mut terms[2], &target, e),
            None => {
                terms[2].remove(&target);
            }
        }
    }
    terms
}

/// Removes every leaf that is a directory in another term (file/directory
/// clashes among merge terms can trip the known `MergedTree::resolve` debug
/// assertion and are kept out unless asked for).
fn remove_clashes(terms: &mut [TreeModel]) {
    let all: BTreeSet<String> = terms.iter().flat_map(|m| m.keys().cloned()).collect();
    let clashing: Vec<String> = all
        .iter()
        .filter(|p| all.iter().any(|q| is_dir_prefix(p, q)))
        .cloned()
        .collect();
    for m in terms.iter_mut() {
        for p in &clashing {
            m.remove(p);
        }
    }
}

fn has_clash(terms: &[TreeModel]) -> bool {
    let all: BTreeSet<&String> = terms.iter().flat_map(|m| m.keys()).collect();
    all.iter().any(|p| all.iter().any(|q| is_dir_prefix(p, q)))
}

fn crlfify_some(rng: &mut Rng, m: &mut TreeModel) {
    for e in m.values_mut() {
        if let Entry::File { content, .. } = e
            && rng.chance(1, 8)
            && !has_crlf(content)
        {
            *content = content.replace(b"\n", b"\r\n");
        }
    }
}

fn gen_step(rng: &mut Rng, cur: &TreeModel, pool: &[Vec<u8>], settings: &WcSettings, conflict_odds: (usize, usize)) -> Step {
    let mut terms = if rng.chance(conflict_odds.0, conflict_odds.1) {
        let base = mutate_tree(rng, cur, pool, 2);
        let n_terms = *rng.pick(&[3usize, 3, 3, 5]);
        let mut terms = gen_conflict_terms(rng, &base, pool, n_terms);
        let allow_clash = n_terms == 3 && rng.chance(1, 6);
        if !allow_clash {
            remove_clashes(&mut terms);
        }
        terms
    } else {
        vec![match rng.below(6) {
            0 => gen_tree(rng, pool, 5),
            1 => TreeModel::new(),
            _ => mutate_tree(rng, cur, pool, 4),
        }]
    };
    for m in &mut terms {
        if settings.eol == "none" {
            crlfify_some(rng, m);
        } else {
            normalize_model(m);
        }
    }
    Step { terms }
}

enum Built {
    Tree(MergedTree),
    /// `MergedTree::merge` hit the known resolve() debug assertion while the
    /// harness was *building* the input tree; the case is dropped.
    KnownMergeAssert,
}

fn build_tree(store: &Arc<Store>, step: &Step) -> Result<Built, Fail> {
    let trees: Vec<MergedTree> = step.terms.iter().map(|m| write_tree(store, m)).collect();
    if trees.len() == 1 {
        return Ok(Built::Tree(trees.into_iter().next().unwrap()));
    }
    let labelled: Vec<(MergedTree, String)> =
        trees.into_iter().enumerate().map(|(i, t)| (t, format!("term {i}"))).collect();
    match catch(|| MergedTree::merge(Merge::from_vec(labelled)).block_on()) {
        Caught::Ok(Ok(tree)) => Ok(Built::Tree(tree)),
        Caught::Ok(Err(e)) => Err(Fail { clause: "harness.tree_merge_backend_error".into(), message: format!("{e:?}") }),
        Caught::SubjectPanic { location, message }
            if location.contains("merged_tree.rs") && message.starts_with("assertion `left == right` failed") =>
        {
            Ok(Built::KnownMergeAssert)
        }
        Caught::SubjectPanic { location, message } => Err(Fail {
            clause: panic_signature(&location, &message),
            message: format!("tree merge (input construction) panicked at {location}: {message}"),
        }),
        Caught::HarnessPanic { location, message } => panic!("harness panic at {location}: {message}"),
    }
}

fn steps_json(steps: &[Step]) -> Value {
    Value::Array(steps.iter().map(|s| trees_json(&s.terms)).collect())
}

// ---------------------------------------------------------------------------
// C24

fn compare_disks(
    clause_prefix: &str,
    what: &str,
    a: (&BTreeMap<String, DiskEntry>, &BTreeSet<String>),
    b: (&BTreeMap<String, DiskEntry>, &BTreeSet<String>),
    compare_exec: bool,
) -> Check {
    let strip = |d: &BTreeMap<String, DiskEntry>| -> BTreeMap<String, DiskEntry> {
        d.iter()
            .map(|(p, e)| {
                let e = match e {
                    DiskEntry::File { content, exec } => {
                        DiskEntry::File { content: content.clone(), exec: *exec && compare_exec }
                    }
                    other => other.clone(),
                };
                (p.clone(), e)
            })
            .collect()
    };
    let (fa, fb) = (strip(a.0), strip(b.0));
    ensure!(
        fa == fb,
        format!("{clause_prefix}.files"),
        "{}: files differ\nswitched: {}\nscratch:  {}",
        what,
        disk_json(&fa),
        disk_json(&fb)
    );
    ensure!(
        a.1 == b.1,
        format!("{clause_prefix}.directories"),
        "{}: directories differ\nswitched: {:?}\nscratch:  {:?}",
        what,
        a.1,
        b.1
    );
    Ok(())
}

pub fn run_c24(ctx: &Ctx) -> i32 {
    ctx.set_rule(
        "sequences of 2..6 checkouts in one workspace between generated trees over a 9-path universe \
         (files, executables, symlinks, nested directories, file<->directory replacements between \
         consecutive trees; 40% of the trees are 3/5-term merges with content, exec-bit, \
         modify/delete and occasionally file/directory conflicts), under every eol-conversion x \
         exec-bit-change x conflict-marker-style; a third of the workspaces have sparse prefix patterns, and \
         conflicted trees are sometimes checked out again with the same tree ids but different conflict \
         labels; each operation reloads the working copy. After every \
         checkout: disk == tree model, snapshot (immediately, and again after bumping every mtime so \
         all files are re-read) returns the same tree ids, and the disk equals a from-scratch \
         checkout of the same tree in a new workspace (files and directories). Non-trivial: at least \
         one checkout moved between two different non-empty trees. Distinct: by (tree sequence, settings).",
    );
    ctx.assume(
        "under eol-conversion input / input-output the generated contents are EOL-normalized (no CR \
         before LF or at the end of a file): stored CRLF text legitimately snapshots as LF there \
         (see the comment in lib/tests/test_eol.rs::test_eol_conversion_checkout), outside C24/C29",
    );
    ctx.assume(
        "with exec-bit-change=ignore the executable bit on disk is not compared (it follows the \
         previous on-disk state by design)",
    );
    let n = ctx.tier().pick(3_600, 60_000);
    par_cases(ctx, n, threads(), |i, cs, rng| {
        let settings = WcSettings::random(rng);
        let pool = r#gen::line_pool(rng, rng.clone().range(3, 6), rng.clone().chance(1, 3));
        let n_steps = rng.range(2, 6);
        let mut cur = gen_tree(rng, &pool, 5);
        let mut steps = vec![];
        for _ in 0..n_steps {
            let step = gen_step(rng, &cur, &pool, &settings, (2, 5));
            cur = step.terms[0].clone();
            steps.push(step);
        }
        // A third of the workspaces are sparse (prefix patterns), and a
        // conflicted tree is sometimes checked out a second time with the same
        // tree ids but different conflict labels (what a rebase produces).
        let sparse: Option<Vec<&str>> = if rng.chance(1, 3) {
            let all = ["a", "d", "k", "f", "a/b", "d/e"];
            let mut picked: Vec<&str> = all.iter().copied().filter(|_| rng.chance(1, 2)).collect();
            if picked.is_empty() {
                picked.push("a");
            }
            Some(picked)
        } else {
            None
        };
        let relabel: Vec<bool> = (0..n_steps).map(|_| rng.chance(1, 2)).collect();
        let in_patterns = |path: &str| -> bool {
            match &sparse {
                None => true,
                Some(prefixes) => prefixes.iter().any(|p| path == *p || is_dir_prefix(p, path)),
            }
        };
        let describe = || {
            json!({"settings": settings.json(), "steps": steps_json(&steps), "sparse_patterns": sparse,
                   "relabel_after_step": relabel})
        };
        let mut nontrivial = false;
        let mut dropped = false;
        run_case(ctx, i, cs, describe, || {
            with_store(|store, op_id| {
                let mut trees = vec![];
                for step in &steps {
                    match build_tree(store, step)? {
                        Built::Tree(t) => trees.push(t),
                        Built::KnownMergeAssert => {
                            ctx.count("dropped_known_resolve_assert_while_building_input");
                            dropped = true;
                            return Ok(());
                        }
                    }
                }
                if steps.iter().any(|s| has_clash(&s.terms)) {
                    ctx.count("cases_with_file_directory_clash_among_merge_terms");
                }
                // Insert the relabelled repeats.
                let mut seq: Vec<MergedTree> = vec![];
                for (k, tree) in trees.into_iter().enumerate() {
                    let again = relabel[k] && tree.has_conflict();
                    seq.push(tree.clone());
                    if again {
                        let n_terms = tree.tree_ids().as_slice().len();
                        let labels = ConflictLabels::from_vec(
                            (0..n_terms).map(|t| format!("relabelled {k} term {t}")).collect(),
                        );
                        seq.push(MergedTree::new(store.clone(), tree.tree_ids().clone(), labels));
                        ctx.count("relabelled_conflict_checkouts");
                    }
                }
                let trees = seq;
                let wc = Wc::new(store, op_id, &settings);
                if let Some(prefixes) = &sparse {
                    wc.set_sparse(prefixes).map_err(|e| Fail { clause: "c24.set_sparse_failed".into(), message: e })?;
                    ctx.count("sparse_workspaces");
                }
                let mut prev_leaves: BTreeMap<String, Leaf> = BTreeMap::new();
                for (k, tree) in trees.iter().enumerate() {
                    let mut leaves = expected_leaves(tree);
                    let before = leaves.len();
                    leaves.retain(|p, _| in_patterns(p));
                    if leaves.len() < before {
                        ctx.count_n("tree_paths_outside_sparse_patterns", (before - leaves.len()) as u64);
                    }
                    let stats = wc.check_out(tree).map_err(|e| Fail {
                        clause: "c24.checkout_failed".into(),
                        message: format!("step {k}: {e}"),
                    })?;
                    ensure!(
                        stats.skipped_files == 0,
                        "c24.nothing_skipped_without_foreign_files",
                        "step {}: stats {:?}",
                        k,
                        stats
                    );
                    let disk = wc.disk();
                    check_disk_is_tree("c24.disk_is_tree", &leaves, &disk, &settings)
                        .map_err(|f| Fail { clause: f.clause, message: format!("step {k}: {}", f.message) })?;
                    // (3) from-scratch checkout in a new workspace
                    let fresh = Wc::new(store, op_id, &settings);
                    if let Some(prefixes) = &sparse {
                        fresh.set_sparse(prefixes).map_err(|e| Fail { clause: "c24.set_sparse_failed".into(), message: e })?;
                    }
                    fresh.check_out(tree).map_err(|e| Fail {
                        clause: "c24.scratch_checkout_failed".into(),
                        message: format!("step {k}: {e}"),
                    })?;
                    let dirs = walk_dirs(&wc.root);
                    let fresh_disk = fresh.disk();
                    let fresh_dirs = walk_dirs(&fresh.root);
                    compare_disks(
                        "c24.switch_equals_scratch",
                        &format!("step {k}"),
                        (&disk, &dirs),
                        (&fresh_disk, &fresh_dirs),
                        settings.compares_exec(),
                    )?;
                    // (2) immediate snapshot from a fresh load
                    let snap = wc.snapshot().map_err(|e| Fail {
                        clause: "c24.snapshot_failed".into(),
                        message: format!("step {k}: {e}"),
                    })?;
                    ensure!(
                        snap.tree_ids() == tree.tree_ids(),
                        "c24.immediate_snapshot_same_tree",
                        "step {}: checked out {:?}, snapshot returned {:?}\ndisk: {}",
                        k,
                        tree.tree_ids(),
                        snap.tree_ids(),
                        disk_json(&disk)
                    );
                    touch_all(&wc.root, &disk, 1_000_000_000 + k as u64);
                    let snap2 = wc.snapshot().map_err(|e| Fail {
                        clause: "c24.snapshot_failed".into(),
                        message: format!("step {k} (after touch): {e}"),
                    })?;
                    ensure!(
                        snap2.tree_ids() == tree.tree_ids(),
                        "c24.reread_snapshot_same_tree",
                        "step {}: checked out {:?}, snapshot after re-reading every file returned {:?}\ndisk: {}",
                        k,
                        tree.tree_ids(),
                        snap2.tree_ids(),
                        disk_json(&disk)
                    );
                    ensure!(
                        wc.disk() == disk,
                        "c24.snapshot_does_not_write",
                        "step {}: disk changed by snapshot",
                        k
                    );
                    // evidence
                    ctx.count("checkouts");
                    if tree.has_conflict() {
                        ctx.count("checkouts_of_conflicted_tree");
                    }
                    for (p, l) in &leaves {
                        match l {
                            Leaf::Conflict(vals) => {
                                ctx.count("conflicted_paths_written");
                                if vals.iter().any(|v| matches!(v, Val::Tree(_))) {
                                    ctx.count("file_directory_conflict_paths");
                                } else if vals.iter().all(|v| matches!(v, Val::File { .. } | Val::Absent)) {
                                    ctx.count("file_conflict_paths");
                                    if vals.iter().any(|v| matches!(v, Val::Absent)) {
                                        ctx.count("file_conflict_with_absent_side");
                                    }
                                } else {
                                    ctx.count("other_conflict_paths");
                                }
                            }
                            Leaf::Symlink(_) => ctx.count("symlinks_written"),
                            Leaf::File { content, exec } => {
                                ctx.count("resolved_files_written");
                                if *exec {
                                    ctx.count("executable_files_written");
                                }
                                if settings.eol == "input-output" {
                                    match classify(content) {
                                        EolClass::Binary => ctx.count("input_output_binary_file"),
                                        _ if content.contains(&b'\n') => ctx.count("input_output_text_file_converted"),
                                        _ => {}
                                    }
                                }
                            }
                        }
                        if prev_leaves.keys().any(|q| is_dir_prefix(p, q)) {
                            ctx.count("directory_replaced_by_file");
                        }
                        if prev_leaves.keys().any(|q| is_dir_prefix(q, p)) {
                            ctx.count("file_replaced_by_directory");
                        }
                    }
                    if k > 0 && !leaves.is_empty() && !prev_leaves.is_empty() && leaves != prev_leaves {
                        nontrivial = true;
                    }
                    prev_leaves = leaves;
                }
                Ok(())
            })
        });
        if !dropped {
            ctx.case(stable_hash(&(&steps, &settings, &sparse, &relabel)), nontrivial);
            ctx.count(&format!("eol_{}", settings.eol));
            ctx.count(&format!("exec_{}", settings.exec));
            ctx.count(&format!("style_{}", settings.style));
            if nontrivial {
                ctx.sample(describe);
            }
        }
    });
    ctx.finish(200)
}

// ---------------------------------------------------------------------------
// C29

fn filler_byte(rng: &mut Rng) -> u8 {
    b'a' + rng.below(26) as u8
}

/// Contents around the 8 KiB probe boundary.
fn gen_big_content(rng: &mut Rng) -> (Vec<u8>, &'static str) {
    match rng.below(4) {
        0 => {
            // LF placed so that the CR of its CRLF image lands on the last probed
            // byte of the *disk* file: k LFs before it, LF at 8191 - k (+-1).
            let k = rng.below(30);
            let p = (PROBE - 1 - k + rng.below(3)).saturating_sub(1);
            let mut c: Vec<u8> = (0..p).map(|_| filler_byte(rng)).collect();
            let mut placed = 0;
            while placed < k {
                let at = rng.below(p);
                if c[at] != b'\n' && (at == 0 || c[at - 1] != b'\n') {
                    c[at] = b'\n';
                    placed += 1;
                }
            }
            c.push(b'\n');
            for _ in 0..rng.below(200) {
                c.push(if rng.chance(1, 20) { b'\n' } else { filler_byte(rng) });
            }
            (c, "big_lf_at_disk_probe_boundary")
        }
        _ => {
            let len = match rng.below(6) {
                0 => PROBE,
                1 => PROBE - 1,
                2 => PROBE + 1,
                3 => rng.range(PROBE - 8, PROBE + 8),
                4 => rng.range(PROBE + 100, 3 * PROBE),
                _ => rng.range(PROBE - 300, PROBE + 300),
            };
            let line = if rng.chance(1, 4) { 0 } else { rng.range(20, 400) };
            let mut c: Vec<u8> = (0..len)
                .map(|i| if line > 0 && i % line == line - 1 { b'\n' } else { filler_byte(rng) })
                .collect();
            // interesting bytes at offsets 8186..8197
            for _ in 0..rng.range(1, 3) {
                let o = rng.range(PROBE - 6, PROBE + 5);
                match rng.below(6) {
                    0 | 1 => {
                        if o < c.len() {
                            c[o] = b'\r';
                        }
                    }
                    2 => {
                        if o < c.len() {
                            c[o] = 0;
                        }
                    }
                    3 => {
                        if o < c.len() {
                            c[o] = b'\n';
                        }
                    }
                    4 => {
                        if o + 1 < c.len() {
                            c[o] = b'\r';
                            c[o + 1] = b'\n';
                        }
                    }
                    _ => {
                        if o < c.len() {
                            c[o] = b'x';
                        }
                    }
                }
            }
            if rng.chance(1, 6) {
                // something binary far behind the probe
                let o = rng.range(PROBE + 6, PROBE + 90);
                if o < c.len() {
                    c[o] = *rng.pick(&[0u8, b'\r']);
                }
            }
            if rng.chance(1, 5) && c.last() == Some(&b'\n') {
                c.pop();
            }
            (c, "big_bytes_at_stored_probe_boundary")
        }
    }
}

fn gen_small_content(rng: &mut Rng, pool: &[Vec<u8>]) -> (Vec<u8>, &'static str) {
    let lines = r#gen::gen_lines(rng, pool, 6);
    let fin = !rng.chance(1, 4);
    match rng.below(9) {
        0 => (vec![], "empty"),
        1 => (r#gen::join_lines(rng, &lines, r#gen::Eol::Crlf, fin), "small_crlf"),
        2 => (r#gen::join_lines(rng, &lines, r#gen::Eol::Mixed, fin), "small_mixed"),
        3 => {
            let mut c = r#gen::join_lines(rng, &lines, r#gen::Eol::Lf, true);
            let at = rng.below(c.len() + 1);
            c.insert(at, 0);
            (c, "small_nul")
        }
        4 => {
            let mut c = r#gen::join_lines(rng, &lines, r#gen::Eol::Lf, true);
            let at = rng.below(c.len() + 1);
            c.insert(at, b'\r');
            (c, "small_cr_inserted")
        }
        5 => (r#gen::gen_binary(rng, 40), "small_random_bytes"),
        6 => (r#gen::join_lines(rng, &lines, r#gen::Eol::Lf, false), "small_lf_no_final_newline"),
        _ => (r#gen::join_lines(rng, &lines, r#gen::Eol::Lf, true), "small_lf"),
    }
}

pub fn run_c29(ctx: &Ctx) -> i32 {
    ctx.set_rule(
        "one tree of 5 files per case (2 of 8 KiB +- with LF/CR/NUL/CRLF planted at offsets 8186..8197, \
         or an LF placed so that its CRLF image straddles the probe boundary of the disk file; 3 small: \
         LF, CRLF, mixed, lone CR, NUL, random bytes, empty, no final newline), checked out into a \
         fresh workspace under eol-conversion none/input/input-output, then every mtime bumped and \
         snapshotted from a fresh load. Own classifier (NUL or lone CR in the first 8 KiB) and \
         converter decide the expected disk bytes and whether the snapshot must give back the stored \
         bytes. Non-trivial: mode is input or input-output and at least one file has a line ending. \
         Distinct: by (mode, contents).",
    );
    ctx.assume(
        "a CR at offset 8191 (last probed byte) not followed by LF: jj's probe treats it as a possible \
         CRLF (text), the property wording says binary; either disk image is accepted, the snapshot \
         must still round-trip",
    );
    ctx.assume(
        "text stored *with* CRLF under input / input-output: the property says nothing about the \
         snapshot (it is normalized to LF by design) nor, for input-output, about the disk bytes; \
         counted, not enforced",
    );
    let n = ctx.tier().pick(10_000, 150_000);
    par_cases(ctx, n, threads(), |i, cs, rng| {
        let eol = *rng.pick(&["none", "input", "input", "input-output", "input-output", "input-output"]);
        let settings = WcSettings { eol, exec: "auto", style: "diff" };
        let pool = r#gen::line_pool(rng, 5, false);
        let mut files: Vec<(String, Vec<u8>, &'static str)> = vec![];
        for k in 0..5 {
            let (c, kind) = if k < 2 { gen_big_content(rng) } else { gen_small_content(rng, &pool) };
            files.push((format!("f{k}"), c, kind));
        }
        let describe = || {
            json!({"eol": eol, "files": files.iter().map(|(p, c, kind)| {
                let around: Vec<String> = (PROBE - 4..PROBE + 4)
                    .filter_map(|o| c.get(o).map(|b| format!("{o}:{b:#04x}")))
                    .collect();
                json!({"path": p, "kind": kind, "len": c.len(),
                       "lf_before_probe": c.iter().take(PROBE).filter(|b| **b == b'\n').count(),
                       "around_probe": around,
                       "content": if c.len() < 200 { r#gen::show(c) } else { String::new() },
                       "content_hex_tail_from_8100": if c.len() >= 200 {
                           c.iter().skip(8100).map(|b| format!("{b:02x}")).collect::<String>() } else { String::new() }})
            }).collect::<Vec<_>>()})
        };
        let mut nontrivial = false;
        run_case(ctx, i, cs, describe, || {
            with_store(|store, op_id| {
                let model: TreeModel = files
                    .iter()
                    .map(|(p, c, _)| (p.clone(), Entry::File { content: c.clone(), exec: false }))
                    .collect();
                let tree = write_tree(store, &model);
                let wc = Wc::new(store, op_id, &settings);
                wc.check_out(&tree).map_err(|e| Fail { clause: "c29.checkout_failed".into(), message: e })?;
                let disk = wc.disk();
                for (p, c, kind) in &files {
                    let Some(DiskEntry::File { content: dc, .. }) = disk.get(p) else {
                        return fail("c29.file_missing_on_disk", format!("{p} ({kind})"));
                    };
                    let class = classify(c);
                    let expect = expected_disk_bytes(eol, c);
                    let clause = match (eol, class) {
                        ("none", _) => "c29.none.disk_is_stored_bytes",
                        ("input", _) => "c29.input.checkout_writes_stored_bytes_verbatim",
                        (_, EolClass::Binary) => "c29.input_output.binary_written_unchanged",
                        _ => "c29.input_output.lf_text_written_as_crlf",
                    };
                    ensure!(
                        expect.accepts(dc),
                        clause,
                        "{} ({}, {} bytes, class {:?}): disk has {} bytes; first difference from stored at {:?}; \
                         disk==stored: {}, disk==crlf(stored): {}",
                        p,
                        kind,
                        c.len(),
                        class,
                        dc.len(),
                        c.iter().zip(dc.iter()).position(|(a, b)| a != b),
                        dc == c,
                        *dc == to_crlf(c)
                    );
                    ctx.count(&format!("{eol}.class_{class:?}"));
                    match &expect {
                        ExpectBytes::Unspecified => ctx.count("disk_bytes_unspecified_crlf_text"),
                        ExpectBytes::Either(..) => ctx.count("disk_bytes_either_ambiguous_boundary_cr"),
                        ExpectBytes::Exact(e) if e != c => ctx.count("disk_bytes_converted_to_crlf"),
                        ExpectBytes::Exact(_) => {}
                    }
                    if dc.get(PROBE - 1) == Some(&b'\r') && dc.get(PROBE) == Some(&b'\n') {
                        ctx.count("disk_crlf_straddles_probe_boundary");
                    }
                }
                touch_all(&wc.root, &disk, 1_000_000_123);
                let snap = wc.snapshot().map_err(|e| Fail { clause: "c29.snapshot_failed".into(), message: e })?;
                let snap_model = read_resolved_tree(&snap);
                let mut all_roundtrip = true;
                for (p, c, kind) in &files {
                    if !snapshot_must_roundtrip(eol, c) {
                        ctx.count("snapshot_unspecified_crlf_text");
                        all_roundtrip = false;
                        continue;
                    }
                    let got = snap_model.get(p);
                    let clause = match (eol, classify(c)) {
                        ("none", _) => "c29.none.snapshot_is_stored_bytes",
                        (_, EolClass::Binary) => "c29.binary_snapshots_unchanged",
                        _ => "c29.lf_text_snapshots_to_stored_bytes",
                    };
                    let ok = matches!(got, Some(Entry::File { content, .. }) if content == c);
                    ensure!(
                        ok,
                        clause,
                        "{} ({}, {} bytes, class {:?}, eol={}): snapshot has {}",
                        p,
                        kind,
                        c.len(),
                        classify(c),
                        eol,
                        match got {
                            Some(Entry::File { content, .. }) => format!(
                                "{} bytes, first difference at {:?}, equals crlf(stored): {}",
                                content.len(),
                                c.iter().zip(content.iter()).position(|(a, b)| a != b),
                                *content == to_crlf(c)
                            ),
                            other => format!("{other:?}"),
                        }
                    );
                    ctx.count("snapshot_roundtrips_checked");
                }
                if all_roundtrip {
                    ensure!(
                        snap.tree_ids() == tree.tree_ids(),
                        "c29.snapshot_tree_identical",
                        "all files round-trip but tree ids differ: {:?} vs {:?}",
                        snap.tree_ids(),
                        tree.tree_ids()
                    );
                }
                Ok(())
            })
        });
        nontrivial |= eol != "none" && files.iter().any(|(_, c, _)| c.contains(&b'\n'));
        ctx.case(stable_hash(&(eol, files.iter().map(|(_, c, _)| c).collect::<Vec<_>>())), nontrivial);
        for (_, _, kind) in &files {
            ctx.count(&format!("content_{kind}"));
        }
        if nontrivial && ctx.wants_sample() {
            ctx.sample(|| json!({"eol": eol, "kinds": files.iter().map(|f| f.2).collect::<Vec<_>>(),
                                 "lens": files.iter().map(|f| f.1.len()).collect::<Vec<_>>()}));
        }
    });
    ctx.finish(300)
}

// ---------------------------------------------------------------------------
// C25

#[derive(Clone, Debug, Hash, PartialEq, Eq)]
enum PlantKind {
    /// Untracked regular file created after the last snapshot.
    Untracked,
    /// Untracked directory holding one file.
    UntrackedDir,
    /// File listed in `.gitignore`, created before the last snapshot.
    Ignored,
    /// Symlink to a file outside the workspace.
    SymlinkToOutsideFile,
    /// Symlink (top-level directory name) to a directory outside the workspace,
    /// where the old tree has nothing.
    SymlinkDirOutside,
    /// A tracked directory replaced by a symlink to an outside directory that
    /// holds files of the same names.
    TrackedDirReplacedBySymlink,
}

#[derive(Clone, Debug, Hash)]
struct Plant {
    kind: PlantKind,
    path: String,
    content: Vec<u8>,
    exec: bool,
}

const PLANT_PATHS: &[&str] = &[
    "a", "a/b", "a/b/c", "a/g", "d", "d/e", "d/e/h", "f", "k/l", "k", "u", "a/u", "d/e/u", "a/b/u", "k/l/m",
    "ign1", "d/ign2", "zz/y", "zz",
];
const OUTSIDE_FILES: &[&str] = &["victim", "l", "e/h", "g", "b/c", "e/u", "u", "b/u", "y"];

fn plant_json(p: &Plant) -> Value {
    json!({"kind": format!("{:?}", p.kind), "path": p.path, "content": r#gen::show(&p.content), "exec": p.exec})
}

/// Snapshot of everything outside the workspace root inside the case's temp dir.
fn outside_state(wc: &Wc) -> (BTreeMap<String, DiskEntry>, BTreeSet<String>, BTreeSet<String>) {
    let top: BTreeSet<String> = std::fs::read_dir(wc.tmp.path())
        .unwrap()
        .flatten()
        .map(|e| e.file_name().to_string_lossy().into_owned())
        .collect();
    (walk_disk(&wc.outside()), walk_dirs(&wc.outside()), top)
}

pub fn run_c25(ctx: &Ctx) -> i32 {
    ctx.set_rule(
        "tree A checked out and snapshotted (with a .gitignore and ignored files planted before the \
         snapshot), then foreign entries planted: untracked files and directories, symlinks to an \
         outside file, a symlinked directory pointing outside the workspace (where A has nothing, or \
         replacing a tracked directory), local modifications of tracked files whose value is the same \
         in B; then tree B checked out (B is an edit of A that is pushed to want files, directories \
         and symlinks exactly at / below / above the planted paths; A and B may be conflicted). \
         Oracle: checkout succeeds, every planted entry is byte-identical afterwards, the outside \
         directory is unchanged, stats.skipped_files >= number of wanted paths blocked by a planted \
         entry. Non-trivial: at least one wanted path was blocked by a planted entry. Distinct: by \
         (A, B, plants, settings).",
    );
    let n = ctx.tier().pick(7_500, 100_000);
    par_cases(ctx, n, threads(), |i, cs, rng| {
        let settings = WcSettings::random(rng);
        let pool = r#gen::line_pool(rng, rng.clone().range(3, 6), false);
        let start = gen_tree(rng, &pool, 6);
        let step_a = gen_step(rng, &start, &pool, &settings, (1, 4));
        // plant candidates (validity against the real disk is decided in the oracle)
        let mut plants: Vec<Plant> = vec![];
        for _ in 0..rng.range(2, 7) {
            let kind = match rng.below(12) {
                0..=3 => PlantKind::Untracked,
                4 => PlantKind::UntrackedDir,
                5 | 6 => PlantKind::Ignored,
                7 => PlantKind::SymlinkToOutsideFile,
                8 | 9 => PlantKind::SymlinkDirOutside,
                _ => PlantKind::TrackedDirReplacedBySymlink,
            };
            let path = match kind {
                PlantKind::SymlinkDirOutside | PlantKind::TrackedDirReplacedBySymlink => {
                    (*rng.pick(&["k", "d", "a", "zz"])).to_owned()
                }
                _ => (*rng.pick(PLANT_PATHS)).to_owned(),
            };
            let content = match rng.below(3) {
                0 => format!("planted {}\n", plants.len()).into_bytes(),
                _ => gen_file_content(rng, &pool),
            };
            plants.push(Plant { kind, path, content, exec: rng.chance(1, 4) });
        }
        let n_modify = rng.below(3);
        // B: an edit of A pushed into the planted paths
        let mut b_base = mutate_tree(rng, &step_a.terms[0], &pool, 3);
        for p in &plants {
            let entry = gen_entry(rng, &pool);
            match (&p.kind, rng.below(6)) {
                (PlantKind::SymlinkDirOutside | PlantKind::TrackedDirReplacedBySymlink, 0..=3) => {
                    let below = *rng.pick(&["l", "e/h", "g", "b/c", "u", "y", "new"]);
                    tree_insert(&mut b_base, &format!("{}/{below}", p.path), entry);
                }
                (PlantKind::TrackedDirReplacedBySymlink, 4) => {
                    b_base.retain(|q, _| !is_dir_prefix(&p.path, q));
                }
                (_, 0 | 1) => tree_insert(&mut b_base, &p.path, entry),
                (_, 2) => tree_insert(&mut b_base, &format!("{}/w", p.path), entry),
                (_, 3) => {
                    if let Some((parent, _)) = p.path.rsplit_once('/') {
                        tree_insert(&mut b_base, parent, entry);
                    }
                }
                _ => {}
            }
        }
        // Sometimes B keeps every conflict of A untouched and differs only at
        // another path (same number of terms, same labels).
        let same_conflicts = step_a.terms.len() > 1 && rng.chance(1, 2);
        let step_b = if same_conflicts {
            let entry = gen_entry(rng, &pool);
            let extra_path = *rng.pick(&["zz/new", "f", "u"]);
            let mut terms = step_a.terms.clone();
            for t in &mut terms {
                tree_insert(t, extra_path, entry.clone());
            }
            if settings.eol != "none" {
                terms.iter_mut().for_each(normalize_model);
            }
            Step { terms }
        } else if rng.chance(1, 4) {
            let mut terms = gen_conflict_terms(rng, &b_base, &pool, 3);
            remove_clashes(&mut terms);
            if settings.eol != "none" {
                terms.iter_mut().for_each(normalize_model);
            }
            Step { terms }
        } else {
            if settings.eol != "none" {
                normalize_model(&mut b_base);
            }
            Step { terms: vec![b_base] }
        };
        let describe = || {
            json!({"settings": settings.json(), "a": trees_json(&step_a.terms), "b": trees_json(&step_b.terms),
                   "plants": plants.iter().map(plant_json).collect::<Vec<_>>(), "n_modify": n_modify})
        };
        let mut nontrivial = false;
        let mut dropped = false;
        run_case(ctx, i, cs, describe, || {
            with_store(|store, op_id| {
                let (tree_a, tree_b) = match (build_tree(store, &step_a)?, build_tree(store, &step_b)?) {
                    (Built::Tree(a), Built::Tree(b)) => (a, b),
                    _ => {
                        ctx.count("dropped_known_resolve_assert_while_building_input");
                        dropped = true;
                        return Ok(());
                    }
                };
                let wc = Wc::new(store, op_id, &settings);
                let root = wc.root.clone();
                let outside = wc.outside();
                for rel in OUTSIDE_FILES {
                    let p = outside.join(rel);
                    std::fs::create_dir_all(p.parent().unwrap()).unwrap();
                    std::fs::write(&p, format!("outside {rel}\n")).unwrap();
                }
                wc.check_out(&tree_a).map_err(|e| Fail { clause: "c25.setup_checkout_failed".into(), message: e })?;
                let leaves_a = expected_leaves(&tree_a);
                let leaves_b = expected_leaves(&tree_b);

                // A path is free for planting if the old tree owns nothing at, below or above it
                // and no earlier plant sits at, below or above it.
                let mut planted: Vec<&Plant> = vec![];
                let free = |q: &str, planted: &Vec<&Plant>| {
                    let owned = |p: &str| p == q || is_dir_prefix(p, q) || is_dir_prefix(q, p);
                    q != ".gitignore" && !leaves_a.keys().any(|p| owned(p)) && !planted.iter().any(|p| owned(&p.path))
                };
                let write_plant_file = |rel: &str, content: &[u8], exec: bool| {
                    use std::os::unix::fs::PermissionsExt as _;
                    let p = root.join(rel);
                    std::fs::create_dir_all(p.parent().unwrap()).unwrap();
                    std::fs::write(&p, content).unwrap();
                    let mode = if exec { 0o755 } else { 0o644 };
                    std::fs::set_permissions(&p, std::fs::Permissions::from_mode(mode)).unwrap();
                };
                // 1. ignored files + .gitignore, then snapshot (as a CLI command would)
                let mut gitignore = String::new();
                for p in plants.iter().filter(|p| p.kind == PlantKind::Ignored) {
                    if free(&p.path, &planted) {
                        write_plant_file(&p.path, &p.content, p.exec);
                        gitignore.push_str(&format!("/{}\n", p.path));
                        planted.push(p);
                    }
                }
                if !gitignore.is_empty() {
                    std::fs::write(root.join(".gitignore"), &gitignore).unwrap();
                }
                let tree_a2 = wc.snapshot().map_err(|e| Fail { clause: "c25.setup_snapshot_failed".into(), message: e })?;
                let leaves_a2 = expected_leaves(&tree_a2);
                for p in &planted {
                    if leaves_a2.contains_key(&p.path) {
                        return fail(
                            "harness.ignored_plant_was_tracked",
                            format!("{} tracked by the snapshot despite .gitignore {:?}", p.path, gitignore),
                        );
                    }
                }
                // 2. the other plants, after the snapshot
                let mut removed_tracked: Vec<String> = vec![];
                for p in plants.iter().filter(|p| p.kind != PlantKind::Ignored) {
                    match p.kind {
                        PlantKind::Untracked if free(&p.path, &planted) => {
                            write_plant_file(&p.path, &p.content, p.exec);
                        }
                        PlantKind::UntrackedDir if free(&p.path, &planted) => {
                            write_plant_file(&format!("{}/x", p.path), &p.content, p.exec);
                        }
                        PlantKind::SymlinkToOutsideFile if free(&p.path, &planted) => {
                            let link = root.join(&p.path);
                            std::fs::create_dir_all(link.parent().unwrap()).unwrap();
                            std::os::unix::fs::symlink(outside.join("victim"), &link).unwrap();
                        }
                        PlantKind::SymlinkDirOutside if free(&p.path, &planted) => {
                            std::os::unix::fs::symlink("../outside", root.join(&p.path)).unwrap();
                        }
                        PlantKind::TrackedDirReplacedBySymlink => {
                            let below: Vec<String> =
                                leaves_a.keys().filter(|q| is_dir_prefix(&p.path, q)).cloned().collect();
                            let clear = !planted.iter().any(|o| {
                                o.path == p.path || is_dir_prefix(&p.path, &o.path) || is_dir_prefix(&o.path, &p.path)
                            });
                            if below.is_empty() || !clear || !root.join(&p.path).is_dir() {
                                continue;
                            }
                            std::fs::remove_dir_all(root.join(&p.path)).unwrap();
                            std::os::unix::fs::symlink("../outside", root.join(&p.path)).unwrap();
                            for q in &below {
                                // same relative names exist (or not) outside; make sure they do
                                let rel = &q[p.path.len() + 1..];
                                let o = outside.join(rel);
                                if !o.exists() && std::fs::create_dir_all(o.parent().unwrap()).is_ok() {
                                    std::fs::write(&o, format!("outside {rel}\n")).ok();
                                }
                            }
                            removed_tracked.extend(below);
                        }
                        _ => continue,
                    }
                    planted.push(p);
                }
                // 3. local modifications of tracked files the update does not touch
                let mut modified: Vec<String> = vec![];
                // a hand resolution written over a conflict file whose conflict is
                // identical in A and B (same terms, same labels): not touched by the update
                let same_shape = tree_a.tree_ids().as_slice().len() == tree_b.tree_ids().as_slice().len()
                    && tree_a.labels() == tree_b.labels();
                if same_conflicts && same_shape {
                    for (q, leaf) in &leaves_a {
                        let is_file_conflict = matches!(leaf, Leaf::Conflict(vals)
                            if vals.iter().all(|v| matches!(v, Val::File { .. } | Val::Absent)));
                        if is_file_conflict
                            && leaves_b.get(q) == Some(leaf)
                            && !removed_tracked.contains(q)
                            && !planted.iter().any(|p| is_dir_prefix(&p.path, q) || p.path == *q)
                            && root.join(q).is_file()
                        {
                            std::fs::write(root.join(q), b"resolved by hand\n").unwrap();
                            modified.push(q.clone());
                            ctx.count("planted_hand_resolution_of_unchanged_conflict");
                            break;
                        }
                    }
                }
                for (q, leaf) in &leaves_a {
                    if modified.len() >= n_modify.max(1) {
                        break;
                    }
                    let untouched = matches!(leaf, Leaf::File { .. })
                        && leaves_b.get(q) == Some(leaf)
                        && !removed_tracked.contains(q)
                        && !planted.iter().any(|p| is_dir_prefix(&p.path, q));
                    if untouched {
                        let mut f = std::fs::OpenOptions::new().append(true).open(root.join(q)).unwrap();
                        std::io::Write::write_all(&mut f, b"local edit\n").unwrap();
                        modified.push(q.clone());
                    }
                }

                let foreign_before: BTreeMap<String, DiskEntry> = wc
                    .disk()
                    .into_iter()
                    .filter(|(q, _)| {
                        modified.contains(q) || planted.iter().any(|p| *q == p.path || is_dir_prefix(&p.path, q))
                    })
                    .collect();
                let outside_before = outside_state(&wc);

                // wanted paths blocked by a planted entry
                let mut blocked: Vec<String> = vec![];
                for b in leaves_b.keys() {
                    let by_plant = planted.iter().any(|p| {
                        // the path actually occupied by a foreign non-directory
                        let occ = match p.kind {
                            PlantKind::TrackedDirReplacedBySymlink => return false,
                            PlantKind::UntrackedDir => format!("{}/x", p.path),
                            _ => p.path.clone(),
                        };
                        occ == *b || is_dir_prefix(&occ, b) || is_dir_prefix(b, &occ)
                    });
                    if by_plant && !leaves_a2.contains_key(b) {
                        blocked.push(b.clone());
                    }
                }
                for q in &removed_tracked {
                    if leaves_b.get(q) != leaves_a.get(q) {
                        blocked.push(q.clone());
                    }
                }
                for b in leaves_b.keys() {
                    let under_replaced = planted
                        .iter()
                        .any(|p| p.kind == PlantKind::TrackedDirReplacedBySymlink && is_dir_prefix(&p.path, b));
                    if under_replaced && !leaves_a.contains_key(b) {
                        blocked.push(b.clone());
                    }
                }

                let result = match catch(|| wc.check_out(&tree_b)) {
                    Caught::Ok(r) => r,
                    Caught::SubjectPanic { location, message } => {
                        // Development aid only (never set by ./check): lets one explore past a
                        // panic that is already being reported, by naming part of its message.
                        if std::env::var("VERIF_DEV_TOLERATE_PANIC").is_ok_and(|s| !s.is_empty() && message.contains(&s)) {
                            ctx.count("dev_tolerated_checkout_panic");
                            dropped = true;
                            return Ok(());
                        }
                        return Err(Fail {
                            clause: panic_signature(&location, &message),
                            message: format!(
                                "checkout panicked at {location}: {message}\nblocked paths {blocked:?}\nforeign entries {}",
                                disk_json(&foreign_before)
                            ),
                        });
                    }
                    Caught::HarnessPanic { location, message } => panic!("harness panic at {location}: {message}"),
                };
                let stats = result.map_err(|e| Fail {
                    clause: "c25.checkout_fails_instead_of_skipping".into(),
                    message: format!("{e}\nblocked paths {blocked:?}\nforeign entries {}", disk_json(&foreign_before)),
                })?;

                let disk_after = wc.disk();
                for (q, before) in &foreign_before {
                    let after = disk_after.get(q);
                    let clause = if modified.contains(q) {
                        "c25.locally_modified_file_preserved"
                    } else {
                        match planted.iter().find(|p| *q == p.path || is_dir_prefix(&p.path, q)).map(|p| &p.kind) {
                            Some(PlantKind::Ignored) => "c25.ignored_file_preserved",
                            Some(PlantKind::SymlinkToOutsideFile) => "c25.symlink_to_outside_file_preserved",
                            Some(PlantKind::SymlinkDirOutside | PlantKind::TrackedDirReplacedBySymlink) => {
                                "c25.symlinked_directory_preserved"
                            }
                            _ => "c25.untracked_file_preserved",
                        }
                    };
                    ensure!(
                        after == Some(before),
                        clause,
                        "{}: before {} after {}\nstats {:?}",
                        q,
                        disk_short(before),
                        after.map_or("<gone>".to_owned(), disk_short),
                        stats
                    );
                }
                let outside_after = outside_state(&wc);
                ensure!(
                    outside_after == outside_before,
                    "c25.nothing_written_outside_workspace",
                    "outside before: {} dirs {:?} top {:?}\noutside after:  {} dirs {:?} top {:?}",
                    disk_json(&outside_before.0),
                    outside_before.1,
                    outside_before.2,
                    disk_json(&outside_after.0),
                    outside_after.1,
                    outside_after.2
                );
                ensure!(
                    stats.skipped_files as usize >= blocked.len(),
                    "c25.blocked_paths_reported_skipped",
                    "blocked paths {:?} but stats {:?}",
                    blocked,
                    stats
                );
                // evidence
                for p in &planted {
                    ctx.count(&format!("planted_{:?}", p.kind));
                }
                ctx.count_n("planted_local_modifications", modified.len() as u64);
                ctx.count_n("wanted_paths_blocked", blocked.len() as u64);
                ctx.count_n("skipped_files_reported", u64::from(stats.skipped_files));
                if tree_a.has_conflict() || tree_b.has_conflict() {
                    ctx.count("cases_with_conflicted_tree");
                }
                for p in &planted {
                    let wants_below = leaves_b.keys().any(|b| is_dir_prefix(&p.path, b));
                    match p.kind {
                        PlantKind::SymlinkDirOutside | PlantKind::TrackedDirReplacedBySymlink if wants_below => {
                            ctx.count("update_wanted_paths_below_symlinked_directory");
                        }
                        PlantKind::SymlinkToOutsideFile if leaves_b.contains_key(&p.path) => {
                            ctx.count("update_wanted_file_at_symlink_to_outside_file");
                        }
                        PlantKind::Untracked | PlantKind::Ignored if leaves_b.contains_key(&p.path) => {
                            ctx.count("update_wanted_file_exactly_at_foreign_file");
                        }
                        PlantKind::Untracked | PlantKind::Ignored if wants_below => {
                            ctx.count("update_wanted_directory_at_foreign_file");
                        }
                        PlantKind::UntrackedDir if leaves_b.contains_key(&p.path) => {
                            ctx.count("update_wanted_file_at_foreign_directory");
                        }
                        _ => {}
                    }
                    if let Some((parent, _)) = p.path.rsplit_once('/')
                        && leaves_a.keys().any(|q| is_dir_prefix(parent, q))
                        && !leaves_b.keys().any(|q| is_dir_prefix(parent, q))
                    {
                        ctx.count("foreign_file_in_directory_emptied_by_update");
                    }
                }
                nontrivial = !blocked.is_empty();
                Ok(())
            })
        });
        if !dropped {
            ctx.case(stable_hash(&(&step_a, &step_b, &plants, &settings, n_modify)), nontrivial);
            if nontrivial {
                ctx.sample(describe);
            }
        }
    });
    ctx.finish(200)
}

// ---------------------------------------------------------------------------
// C06

#[derive(Clone, Debug, PartialEq, Eq)]
enum Seg {
    Resolved(Vec<u8>),
    Block(Vec<u8>),
}

fn is_marker_line(line: &[u8], ch: u8, len: usize) -> bool {
    let n = line.iter().take_while(|b| **b == ch).count();
    n >= len && line.get(n).is_none_or(|b| b.is_ascii_whitespace())
}

/// Splits a materialized file into resolved regions and conflict blocks by
/// looking for start / end marker lines of at least `len` characters (the
/// marker length is chosen longer than any marker-like content line).
fn split_segments(m: &[u8], len: usize) -> Option<Vec<Seg>> {
    let mut segs = vec![];
    let mut cur: Vec<u8> = vec![];
    let mut in_block = false;
    for line in m.split_inclusive(|b| *b == b'\n') {
        if !in_block && is_marker_line(line, b'<', len) {
            if !cur.is_empty() {
                segs.push(Seg::Resolved(std::mem::take(&mut cur)));
            }
            in_block = true;
            cur.extend_from_slice(line);
        } else if in_block && is_marker_line(line, b'>', len) {
            cur.extend_from_slice(line);
            segs.push(Seg::Block(std::mem::take(&mut cur)));
            in_block = false;
        } else if in_block && is_marker_line(line, b'<', len) {
            return None;
        } else if !in_block && is_marker_line(line, b'>', len) {
            return None;
        } else {
            cur.extend_from_slice(line);
        }
    }
    if in_block {
        return None;
    }
    if !cur.is_empty() {
        segs.push(Seg::Resolved(cur));
    }
    Some(segs)
}

fn concat_segments(segs: &[Seg]) -> Vec<u8> {
    segs.iter()
        .flat_map(|s| match s {
            Seg::Resolved(b) | Seg::Block(b) => b.clone(),
        })
        .collect()
}

/// Segments must mirror the reference hunks: same kinds in order, same
/// resolved bytes.
fn segments_match_hunks(segs: &[Seg], hunks: &[Merge<Vec<u8>>]) -> bool {
    segs.len() == hunks.len()
        && segs.iter().zip(hunks).all(|(s, h)| match s {
            Seg::Resolved(b) => h.as_resolved() == Some(b),
            Seg::Block(_) => !h.is_resolved(),
        })
}

/// 1..3 line edits (insert / delete / replace of non-marker lines) confined to
/// resolved regions; resolved regions may be created in a gap or emptied.
/// Returns the new segment list (blocks untouched, in order).
fn edit_resolved_regions(rng: &mut Rng, segs: &[Seg]) -> Vec<Seg> {
    let mut segs = segs.to_vec();
    let mut counter = 0;
    for _ in 0..rng.range(1, 3) {
        counter += 1;
        let resolved_idx: Vec<usize> =
            segs.iter().enumerate().filter(|(_, s)| matches!(s, Seg::Resolved(_))).map(|(i, _)| i).collect();
        let kind = rng.below(4);
        if kind == 0 || resolved_idx.is_empty() {
            // create a region in a gap that has no resolved neighbour
            let ends_with_newline = concat_segments(&segs).last().is_none_or(|b| *b == b'\n');
            let gaps: Vec<usize> = (0..=segs.len())
                .filter(|&j| {
                    let left = j > 0 && matches!(segs[j - 1], Seg::Resolved(_));
                    let right = j < segs.len() && matches!(segs[j], Seg::Resolved(_));
                    !left && !right && (j < segs.len() || ends_with_newline)
                })
                .collect();
            if let Some(&j) = gaps.get(rng.below(gaps.len().max(1))) {
                segs.insert(j, Seg::Resolved(format!("new region {counter}\n").into_bytes()));
                continue;
            }
        }
        if resolved_idx.is_empty() {
            continue;
        }
        let si = *rng.pick(&resolved_idx);
        let Seg::Resolved(bytes) = &segs[si] else { unreachable!() };
        let mut lines: Vec<Vec<u8>> = bytes.split_inclusive(|b| *b == b'\n').map(|l| l.to_vec()).collect();
        let complete = lines.iter().filter(|l| l.ends_with(b"\n")).count();
        match kind {
            1 if complete > 0 => {
                lines.remove(rng.below(complete));
            }
            2 if complete > 0 => {
                let at = rng.below(complete);
                lines[at] = format!("replaced {counter}\n").into_bytes();
            }
            _ => {
                let at = rng.below(complete + 1);
                lines.insert(at, format!("inserted {counter}\n").into_bytes());
            }
        }
        let new: Vec<u8> = lines.concat();
        if new.is_empty() {
            segs.remove(si);
        } else {
            segs[si] = Seg::Resolved(new);
        }
    }
    segs
}

/// Expected content of simplified term `i` after the edit.
fn expected_term_content(segs: &[Seg], conflict_hunks: &[&Merge<Vec<u8>>], i: usize) -> Vec<u8> {
    let mut out = vec![];
    let mut k = 0;
    for s in segs {
        match s {
            Seg::Resolved(b) => out.extend_from_slice(b),
            Seg::Block(_) => {
                out.extend_from_slice(&conflict_hunks[k].as_slice()[i]);
                k += 1;
            }
        }
    }
    out
}

struct EditPlan {
    edited: Vec<u8>,
    /// Expected simplified terms (absent terms that stay empty stay absent).
    expected: Vec<Option<Vec<u8>>>,
}

enum EditOutcome {
    Plan(EditPlan),
    NoConflictHunk,
    ScanMismatch,
    NoChange,
}

/// Plans an edit of the materialized bytes `m` of a conflict whose simplified
/// contents are `contents` and simplified ids `ids`.
fn plan_edit(
    rng: &mut Rng,
    m: &[u8],
    len: usize,
    contents: &Merge<Vec<u8>>,
    ids_present: &[bool],
    options: &MergeOptions,
) -> EditOutcome {
    let hunks = reference_merge_hunks(contents, options.hunk_level, options.same_change);
    let conflict_hunks: Vec<&Merge<Vec<u8>>> = hunks.iter().filter(|h| !h.is_resolved()).collect();
    if conflict_hunks.is_empty() {
        return EditOutcome::NoConflictHunk;
    }
    let Some(segs) = split_segments(m, len) else {
        return EditOutcome::ScanMismatch;
    };
    if !segments_match_hunks(&segs, &hunks) {
        return EditOutcome::ScanMismatch;
    }
    let new_segs = edit_resolved_regions(rng, &segs);
    if new_segs == segs {
        return EditOutcome::NoChange;
    }
    let expected = (0..contents.as_slice().len())
        .map(|i| {
            let c = expected_term_content(&new_segs, &conflict_hunks, i);
            if !ids_present[i] && c.is_empty() { None } else { Some(c) }
        })
        .collect();
    EditOutcome::Plan(EditPlan { edited: concat_segments(&new_segs), expected })
}

fn read_ids(store: &Arc<Store>, path: &RepoPath, ids: &Merge<Option<FileId>>) -> Vec<Option<Vec<u8>>> {
    ids.iter().map(|id| id.as_ref().map(|id| read_file_bytes(store, path, id))).collect()
}

fn show_opt(v: &[Option<Vec<u8>>]) -> Vec<String> {
    v.iter().map(|t| t.as_ref().map_or("<absent>".to_owned(), |c| truncate(&r#gen::show(c), 200))).collect()
}

/// The edit clause: same arity as the original, denotation equal to the
/// expected simplified terms.
fn check_edit_result(
    clause_prefix: &str,
    original_len: usize,
    result: &[Option<Vec<u8>>],
    plan: &EditPlan,
) -> Check {
    ensure!(
        result.len() == original_len,
        format!("{clause_prefix}.arity_kept"),
        "original has {} terms, result has {}: {:?}",
        original_len,
        result.len(),
        show_opt(result)
    );
    ensure!(
        den_terms(result) == den_terms(&plan.expected),
        format!("{clause_prefix}.edit_applied_to_every_side"),
        "edited file {}\nexpected simplified terms {:?}\nresult terms {:?}",
        truncate(&r#gen::show(&plan.edited), 1500),
        show_opt(&plan.expected),
        show_opt(result)
    );
    Ok(())
}

/// Working-copy level: after `update_from_content` the snapshot re-merges the
/// trees (`MergedTreeBuilder::write_tree` -> `resolve()`), so in addition to
/// the function-level outcome (same arity) two more outcomes are what the
/// recorded edit legitimately turns into: (a) terms that became equal cancel
/// (a hunk resolved in favour of one side is, once written into every side,
/// a redundant pair) -- the denotation is unchanged and the arity shrinks;
/// (b) the edited sides now merge cleanly (e.g. the anchor line between two
/// hunks was deleted) and the path holds exactly that merge.
fn check_wc_edit_result(
    original_len: usize,
    result: &[Option<Vec<u8>>],
    plan: &EditPlan,
    options: &MergeOptions,
) -> Check {
    if result.len() == 1 {
        let all_present: Option<Vec<Vec<u8>>> = plan.expected.iter().cloned().collect();
        let merged = all_present.and_then(|terms| {
            let simplified = Merge::from_vec(terms).simplify();
            let hunks = reference_merge_hunks(&simplified, options.hunk_level, options.same_change);
            hunks.iter().all(|h| h.is_resolved()).then(|| hunks.iter().flat_map(|h| h.first().clone()).collect::<Vec<u8>>())
        });
        ensure!(
            merged.is_some() && result[0].as_ref() == merged.as_ref(),
            "c06.wc.edit.resolved_only_to_the_merge_of_edited_sides",
            "edited file {}\nexpected simplified terms {:?}\nreference merge of them {:?}\nresult {:?}",
            truncate(&r#gen::show(&plan.edited), 1500),
            show_opt(&plan.expected),
            merged.as_ref().map(|m| r#gen::show(m)),
            show_opt(result)
        );
        return Ok(());
    }
    ensure!(
        result.len() <= original_len && result.len() % 2 == 1,
        "c06.wc.edit.arity_not_grown",
        "original has {} terms, result has {}: {:?}",
        original_len,
        result.len(),
        show_opt(result)
    );
    ensure!(
        den_terms(result) == den_terms(&plan.expected),
        "c06.wc.edit.edit_applied_to_every_side",
        "edited file {}\nexpected simplified terms {:?}\nresult terms {:?}",
        truncate(&r#gen::show(&plan.edited), 1500),
        show_opt(&plan.expected),
        show_opt(result)
    );
    Ok(())
}

thread_local! {
    static FN_STORES: RefCell<Vec<crate::p_tree::ChaosStore>> = const { RefCell::new(vec![]) };
}

fn with_fn_store<R>(options: &MergeOptions, f: impl FnOnce(&Arc<Store>) -> R) -> R {
    FN_STORES.with(|stores| {
        let mut stores = stores.borrow_mut();
        let pos = stores
            .iter()
            .position(|s| s.options.hunk_level == options.hunk_level && s.options.same_change == options.same_change);
        let pos = pos.unwrap_or_else(|| {
            stores.push(crate::p_tree::new_chaos_store(options.clone()));
            stores.len() - 1
        });
        f(&stores[pos].store)
    })
}

#[derive(Clone, Debug, Hash)]
struct FnTerm {
    content: Option<Vec<u8>>,
    exec: bool,
}

fn c06_function_case(ctx: &Ctx, i: u64, cs: u64, rng: &mut Rng) {
    let options = MergeOptions {
        hunk_level: *rng.pick(&[FileMergeHunkLevel::Line, FileMergeHunkLevel::Line, FileMergeHunkLevel::Word]),
        same_change: *rng.pick(&[SameChange::Accept, SameChange::Accept, SameChange::Keep]),
    };
    let pool = r#gen::line_pool(rng, rng.clone().range(3, 8), true);
    let eol = *rng.pick(&[r#gen::Eol::Lf, r#gen::Eol::Lf, r#gen::Eol::Lf, r#gen::Eol::Crlf, r#gen::Eol::Mixed]);
    let m = gen_file_merge(rng, &pool, 4, eol);
    let mut terms: Vec<FnTerm> = m
        .iter()
        .map(|c| FnTerm {
            content: if c.is_empty() && rng.bool() { None } else { Some(c.clone()) },
            exec: rng.chance(1, 4),
        })
        .collect();
    let mut planted_pairs = 0;
    for _ in 0..*rng.pick(&[0usize, 0, 1, 1, 2]) {
        let x = if rng.chance(2, 3) {
            rng.pick(&terms).clone()
        } else {
            FnTerm { content: Some(r#gen::gen_content(rng, &pool, 4)), exec: false }
        };
        let at = rng.below(terms.len() + 1);
        terms.insert(at, x.clone());
        terms.insert(at, x);
        planted_pairs += 1;
    }
    let style = *rng.pick(&[
        ConflictMarkerStyle::Diff,
        ConflictMarkerStyle::DiffExperimental,
        ConflictMarkerStyle::Snapshot,
        ConflictMarkerStyle::Git,
    ]);
    let labels = if rng.chance(1, 3) {
        ConflictLabels::unlabeled()
    } else {
        let words = ["rebase destination", "abc123 \"summary\"", "side #1", "x", ""];
        ConflictLabels::from_vec((0..terms.len()).map(|_| (*rng.pick(&words)).to_owned()).collect())
    };
    let mut edit_rng = rng.fork();
    let describe = || {
        json!({"level": "function", "options": format!("{options:?}"), "style": format!("{style:?}"),
               "labels": labels.as_slice(),
               "terms": terms.iter().map(|t| json!({"content": t.content.as_ref().map(|c| r#gen::show(c)), "exec": t.exec})).collect::<Vec<_>>()})
    };
    let mut nontrivial = false;
    run_case(ctx, i, cs, describe, || {
        with_fn_store(&options, |store| {
            let path = rp("dir/file");
            let value: MergedTreeValue = Merge::from_vec(
                terms
                    .iter()
                    .map(|t| {
                        t.content.as_ref().map(|c| TreeValue::File {
                            id: store.write_file(&path, &mut c.as_slice()).block_on().unwrap(),
                            executable: t.exec,
                            copy_id: CopyId::placeholder(),
                        })
                    })
                    .collect::<Vec<_>>(),
            );
            let Some(file) = try_materialize_file_conflict_value(store, &path, &value, &labels).block_on().unwrap()
            else {
                return fail("harness.not_a_file_conflict", "terms are files or absent");
            };
            if file.ids.num_sides() < 2 {
                ctx.count("fn_simplifies_to_one_side_skipped");
                return Ok(());
            }
            // materialize exactly as TreeState::update does
            let len = choose_materialized_conflict_marker_len(&file.contents);
            let mat_options =
                ConflictMaterializeOptions { marker_style: style, marker_len: Some(len), merge: store.merge_options().clone() };
            let bytes: Vec<u8> = materialize_merge_result_to_bytes(&file.contents, &file.labels, &mat_options).into();
            let new_ids = update_from_content(&file.unsimplified_ids, store, &path, &bytes, len).block_on().unwrap();
            ensure!(
                new_ids == file.unsimplified_ids,
                "c06.fn.unedited_conflict_identical",
                "unsimplified ids {:?} ({} terms), simplified {} terms, marker len {}\nmaterialized {}\nupdate_from_content returned {:?} ({} terms): {:?}",
                file.unsimplified_ids,
                file.unsimplified_ids.as_slice().len(),
                file.ids.as_slice().len(),
                len,
                truncate(&r#gen::show(&bytes), 1500),
                new_ids,
                new_ids.as_slice().len(),
                show_opt(&read_ids(store, &path, &new_ids))
            );
            ctx.count("fn_unedited_roundtrips");
            ctx.count(&format!("fn_simplified_sides_{}", file.ids.num_sides()));
            if file.unsimplified_ids.as_slice().len() > file.ids.as_slice().len() {
                ctx.count("fn_with_redundant_pairs_removed_by_simplify");
            }
            if file.unsimplified_ids.iter().any(|id| id.is_none()) {
                ctx.count("fn_with_absent_term");
            }
            if len > jj_lib::conflicts::MIN_CONFLICT_MARKER_LEN {
                ctx.count("fn_marker_lookalike_forced_longer_markers");
            }
            // edit confined to resolved regions
            let contents: Merge<Vec<u8>> = file.contents.map(|c| c.to_vec());
            let present: Vec<bool> = file.ids.iter().map(|id| id.is_some()).collect();
            match plan_edit(&mut edit_rng, &bytes, len, &contents, &present, store.merge_options()) {
                EditOutcome::NoConflictHunk => ctx.count("fn_contents_merge_cleanly"),
                EditOutcome::ScanMismatch => ctx.count("fn_edit_skipped_region_scan_mismatch"),
                EditOutcome::NoChange => {
                    nontrivial = true;
                    ctx.count("fn_edit_was_noop");
                }
                EditOutcome::Plan(plan) => {
                    nontrivial = true;
                    let edited_ids =
                        update_from_content(&file.unsimplified_ids, store, &path, &plan.edited, len).block_on().unwrap();
                    let result = read_ids(store, &path, &edited_ids);
                    check_edit_result("c06.fn.edit", file.unsimplified_ids.as_slice().len(), &result, &plan)?;
                    ctx.count("fn_edits_checked");
                    if plan.expected.iter().any(|t| t.is_none()) {
                        ctx.count("fn_edit_absent_term_stays_absent");
                    }
                }
            }
            Ok(())
        })
    });
    ctx.case(stable_hash(&(&terms, format!("{options:?}{style:?}"), labels.as_slice())), nontrivial);
    ctx.count_n("fn_planted_pairs", planted_pairs);
    if nontrivial {
        ctx.sample(describe);
    }
}

fn c06_wc_case(ctx: &Ctx, i: u64, cs: u64, rng: &mut Rng) {
    let settings = WcSettings::random(rng);
    let pool = r#gen::line_pool(rng, rng.clone().range(3, 7), rng.clone().chance(1, 2));
    let base = gen_tree(rng, &pool, 4);
    let n_terms = *rng.pick(&[3usize, 3, 5]);
    let mut terms = gen_conflict_terms(rng, &base, &pool, n_terms);
    remove_clashes(&mut terms);
    for m in &mut terms {
        if settings.eol == "none" {
            crlfify_some(rng, m);
        } else {
            normalize_model(m);
        }
    }
    let step = Step { terms };
    let mut edit_rng = rng.fork();
    let describe = || json!({"level": "working_copy", "settings": settings.json(), "terms": trees_json(&step.terms)});
    let mut nontrivial = false;
    run_case(ctx, i, cs, describe, || {
        with_store(|store, op_id| {
            let tree = match build_tree(store, &step)? {
                Built::Tree(t) => t,
                Built::KnownMergeAssert => {
                    ctx.count("dropped_known_resolve_assert_while_building_input");
                    return Ok(());
                }
            };
            if !tree.has_conflict() {
                ctx.count("wc_tree_resolved_cleanly");
                return Ok(());
            }
            let leaves = expected_leaves(&tree);
            let wc = Wc::new(store, op_id, &settings);
            wc.check_out(&tree).map_err(|e| Fail { clause: "c06.wc.checkout_failed".into(), message: e })?;
            let disk = wc.disk();
            // cross-check the harness' materialization against what checkout wrote
            struct ConflictFile {
                path: String,
                value: MergedTreeValue,
                bytes: Vec<u8>,
                len: usize,
                contents: Merge<Vec<u8>>,
                present: Vec<bool>,
            }
            let mut conflict_files: Vec<ConflictFile> = vec![];
            for (p, leaf) in &leaves {
                let Leaf::Conflict(_) = leaf else { continue };
                let rpath = rp(p);
                let value = tree.path_value(&rpath).block_on().unwrap();
                let Some(file) =
                    try_materialize_file_conflict_value(store, &rpath, &value, tree.labels()).block_on().unwrap()
                else {
                    ctx.count("wc_non_file_conflict_paths");
                    continue;
                };
                let len = choose_materialized_conflict_marker_len(&file.contents);
                let mat_options = ConflictMaterializeOptions {
                    marker_style: settings.marker_style(),
                    marker_len: Some(len),
                    merge: store.merge_options().clone(),
                };
                let bytes: Vec<u8> = materialize_merge_result_to_bytes(&file.contents, &file.labels, &mat_options).into();
                let on_disk = match disk.get(p) {
                    Some(DiskEntry::File { content, .. }) => content.clone(),
                    other => return fail("c06.wc.conflict_written_as_file", format!("{p}: disk has {other:?}")),
                };
                if !expected_disk_bytes(settings.eol, &bytes).accepts(&on_disk) {
                    ctx.inconclusive(&format!(
                        "harness materialization of {p} differs from what checkout wrote (case {i}, seed {cs})"
                    ));
                    continue;
                }
                ctx.count("wc_file_conflicts_materialized");
                if file.unsimplified_ids.as_slice().len() > file.ids.as_slice().len() {
                    ctx.count("wc_conflict_with_redundant_pair");
                }
                if file.unsimplified_ids.iter().any(|id| id.is_none()) {
                    ctx.count("wc_conflict_with_absent_term");
                }
                if value.to_executable_merge().is_some_and(|e| e.iter().flatten().any(|x| *x) && e.iter().flatten().any(|x| !*x)) {
                    ctx.count("wc_conflict_with_exec_bit_difference");
                }
                if len > jj_lib::conflicts::MIN_CONFLICT_MARKER_LEN {
                    ctx.count("wc_marker_lookalike_forced_longer_markers");
                }
                if on_disk != bytes {
                    ctx.count("wc_conflict_file_eol_converted_on_disk");
                }
                conflict_files.push(ConflictFile {
                    path: p.clone(),
                    value,
                    contents: file.contents.map(|c| c.to_vec()),
                    present: file.ids.iter().map(|id| id.is_some()).collect(),
                    bytes,
                    len,
                });
            }
            nontrivial = !conflict_files.is_empty();
            // unedited: snapshot from a fresh load, then again with every file re-read
            let snap = wc.snapshot().map_err(|e| Fail { clause: "c06.wc.snapshot_failed".into(), message: e })?;
            ensure!(
                snap.tree_ids() == tree.tree_ids(),
                "c06.wc.unedited_snapshot_same_tree",
                "checked out {:?}, immediate snapshot {:?}\ndisk {}",
                tree.tree_ids(),
                snap.tree_ids(),
                disk_json(&disk)
            );
            touch_all(&wc.root, &disk, 1_000_000_007);
            let snap = wc.snapshot().map_err(|e| Fail { clause: "c06.wc.snapshot_failed".into(), message: e })?;
            ensure!(
                snap.tree_ids() == tree.tree_ids(),
                "c06.wc.unedited_reread_snapshot_same_tree",
                "checked out {:?}, snapshot after re-reading every file {:?}\ndisk {}",
                tree.tree_ids(),
                snap.tree_ids(),
                disk_json(&disk)
            );
            ctx.count("wc_unedited_snapshots_identical");
            // edit one conflicted file inside its resolved regions
            if conflict_files.is_empty() {
                return Ok(());
            }
            let cf = &conflict_files[edit_rng.below(conflict_files.len())];
            match plan_edit(&mut edit_rng, &cf.bytes, cf.len, &cf.contents, &cf.present, store.merge_options()) {
                EditOutcome::NoConflictHunk => ctx.count("wc_contents_merge_cleanly"),
                EditOutcome::ScanMismatch => ctx.count("wc_edit_skipped_region_scan_mismatch"),
                EditOutcome::NoChange => ctx.count("wc_edit_was_noop"),
                EditOutcome::Plan(plan) => {
                    let to_write = match expected_disk_bytes(settings.eol, &plan.edited) {
                        ExpectBytes::Exact(b) | ExpectBytes::Either(b, _) => b,
                        ExpectBytes::Unspecified => plan.edited.clone(),
                    };
                    std::fs::write(wc.root.join(&cf.path), &to_write).unwrap();
                    let snap = wc.snapshot().map_err(|e| Fail { clause: "c06.wc.snapshot_failed".into(), message: e })?;
                    let rpath = rp(&cf.path);
                    let new_value = snap.path_value(&rpath).block_on().unwrap();
                    let Some(new_ids) = new_value.to_file_merge() else {
                        return fail(
                            "c06.wc.edit.still_a_file_conflict",
                            format!("{}: value after the edit is {:?}", cf.path, new_value),
                        );
                    };
                    let result = read_ids(store, &rpath, &new_ids);
                    check_wc_edit_result(cf.value.as_slice().len(), &result, &plan, store.merge_options())?;
                    if result.len() == 1 {
                        ctx.count("wc_edit_made_sides_merge_cleanly");
                    } else if result.len() < cf.value.as_slice().len() {
                        ctx.count("wc_edit_result_simplified_at_tree_level");
                    }
                    // conflict structure otherwise kept: exec bits of terms that stay present
                    let same_shape = new_value.as_slice().len() == cf.value.as_slice().len();
                    for (k, (old, new)) in cf.value.iter().zip(new_value.iter()).enumerate().filter(|_| same_shape) {
                        if let (
                            Some(TreeValue::File { executable: eo, .. }),
                            Some(TreeValue::File { executable: en, .. }),
                        ) = (old, new)
                        {
                            ensure!(
                                eo == en,
                                "c06.wc.edit.exec_bits_kept",
                                "{} term {}: executable {} -> {}",
                                cf.path,
                                k,
                                eo,
                                en
                            );
                        }
                    }
                    // nothing else changed
                    let after = expected_leaves(&snap);
                    for (p, leaf) in &leaves {
                        if *p != cf.path {
                            // tree-level simplification may change the arity of other
                            // conflicted paths; their meaning (denotation) must not change
                            let same = match (after.get(p), leaf) {
                                (Some(Leaf::Conflict(x)), Leaf::Conflict(y)) => den_terms(x) == den_terms(y),
                                (x, y) => x == Some(y),
                            };
                            ensure!(
                                same,
                                "c06.wc.edit.other_paths_unchanged",
                                "{} changed by the snapshot of an edit to {}",
                                p,
                                cf.path
                            );
                        }
                    }
                    ctx.count("wc_edits_checked");
                }
            }
            Ok(())
        })
    });
    ctx.case(stable_hash(&(&step, &settings)), nontrivial);
    if nontrivial {
        ctx.count(&format!("wc_eol_{}", settings.eol));
        ctx.count(&format!("wc_style_{}", settings.style));
        ctx.sample(describe);
    }
}

pub fn run_c06(ctx: &Ctx) -> i32 {
    ctx.set_rule(
        "function level: 3..11-term Merge<Option<FileId>> whose terms are line edits of a common base \
         (marker look-alikes, CRLF/mixed, empty, binary, planted equal terms), some terms absent, 0..2 \
         planted redundant (remove, add) pairs, exec bits per term; materialized exactly as \
         TreeState::update does (try_materialize_file_conflict_value -> marker length from contents -> \
         store merge options) in every marker style, then update_from_content on the unchanged bytes \
         (must return the input ids, arity included) and on bytes edited only inside resolved regions \
         (same arity, denotation equal to the per-term expected contents built from the reference \
         hunks). Working-copy level (1 case in 6): 3/5-term tree merges with content, exec-bit and \
         modify/delete conflicts and redundant pairs at a path, checked out under every marker style \
         x eol mode x exec policy, working copy reloaded, snapshot immediately and again after all \
         mtimes were bumped -> identical tree ids; then one conflicted file edited inside resolved \
         regions and snapshotted. Non-trivial: the conflict has a real conflict hunk (function level) \
         / the checked-out tree has a file conflict (working-copy level). Distinct: by generated terms \
         and settings.",
    );
    ctx.assume(
        "working-copy level under eol-conversion input / input-output uses EOL-normalized term contents \
         (no CR before LF or at the end of a term)",
    );
    ctx.assume(
        "function level is restricted to merges whose simplified form has >= 2 sides (a one-sided \
         simplified merge is resolved by the tree merge and never reaches write_conflict)",
    );
    let n = ctx.tier().pick(48_000, 1_200_000);
    par_cases(ctx, n, threads(), |i, cs, rng| {
        if i % 6 == 5 {
            c06_wc_case(ctx, i, cs, rng);
        } else {
            c06_function_case(ctx, i, cs, rng);
        }
    });
    ctx.finish(500)
}
