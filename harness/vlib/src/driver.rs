//! Hermetic driver for the hooked `jj` binary (mirrors the environment used
//! by the repository's own CLI tests) and helpers around child processes.

use std::cell::Cell;
use std::collections::BTreeMap;
use std::io::Read as _;
use std::path::Path;
use std::path::PathBuf;
use std::process::Command;
use std::process::Stdio;
use std::time::Duration;
use std::time::Instant;

#[derive(Clone, Debug)]
pub struct Output {
    pub code: Option<i32>,
    pub signal: Option<i32>,
    pub stdout: String,
    pub stderr: String,
    pub timed_out: bool,
}

impl Output {
    pub fn success(&self) -> bool {
        self.code == Some(0)
    }
    pub fn brief(&self) -> String {
        format!(
            "code={:?} signal={:?} timed_out={} stdout={:?} stderr={:?}",
            self.code,
            self.signal,
            self.timed_out,
            crate::common::truncate(&self.stdout, 400),
            crate::common::truncate(&self.stderr, 600)
        )
    }
}

/// Runs a command to completion with a wall-clock limit (killed after it).
pub fn run_command(command: &mut Command, limit: Duration) -> Output {
    use std::os::unix::process::ExitStatusExt as _;
    let spawned = command
        .stdin(Stdio::null())
        .stdout(Stdio::piped())
        .stderr(Stdio::piped())
        .spawn();
    let mut child = match spawned {
        Ok(c) => c,
        Err(e) => {
            return Output {
                code: None,
                signal: None,
                stdout: String::new(),
                stderr: format!("spawn failed: {e}"),
                timed_out: false,
            };
        }
    };
    let mut stdout = child.stdout.take().unwrap();
    let mut stderr = child.stderr.take().unwrap();
    let out_thread = std::thread::spawn(move || {
        let mut buf = vec![];
        stdout.read_to_end(&mut buf).ok();
        buf
    });
    let err_thread = std::thread::spawn(move || {
        let mut buf = vec![];
        stderr.read_to_end(&mut buf).ok();
        buf
    });
    let start = Instant::now();
    let mut timed_out = false;
    let status = loop {
        match child.try_wait() {
            Ok(Some(status)) => break Some(status),
            Ok(None) => {}
            Err(_) => break None,
        }
        if start.elapsed() > limit {
            timed_out = true;
            child.kill().ok();
            break child.wait().ok();
        }
        std::thread::sleep(Duration::from_millis(2));
    };
    let stdout = String::from_utf8_lossy(&out_thread.join().unwrap_or_default()).into_owned();
    let stderr = String::from_utf8_lossy(&err_thread.join().unwrap_or_default()).into_owned();
    Output {
        code: status.and_then(|s| s.code()),
        signal: status.and_then(|s| s.signal()),
        stdout,
        stderr,
        timed_out,
    }
}

pub fn jj_bin() -> PathBuf {
    if let Some(p) = std::env::var_os("VERIF_JJ_BIN") {
        return PathBuf::from(p);
    }
    let exe = std::env::current_exe().unwrap();
    exe.parent().unwrap().join("jj")
}

/// A hermetic jj environment rooted at `root` (home, config, tmp below it).
pub struct JjEnv {
    pub root: PathBuf,
    pub home: PathBuf,
    pub config_dir: PathBuf,
    pub tmp: PathBuf,
    pub command_number: Cell<i64>,
    pub config_file_number: Cell<u32>,
    pub extra_env: BTreeMap<String, String>,
    pub timeout: Duration,
}

impl JjEnv {
    /// Creates the directory layout under `root` (which must exist and be empty).
    pub fn new(root: &Path) -> Self {
        let root = root.canonicalize().unwrap();
        let home = root.join("home");
        let config_dir = root.join("config");
        let tmp = root.join("tmp");
        for d in [&home, &config_dir, &tmp] {
            std::fs::create_dir_all(d).unwrap();
        }
        let env = Self {
            root,
            home,
            config_dir,
            tmp,
            command_number: Cell::new(0),
            config_file_number: Cell::new(0),
            extra_env: BTreeMap::new(),
            timeout: Duration::from_secs(120),
        };
        env.add_config(
            r#"
[template-aliases]
'format_time_range(time_range)' = 'time_range.start() ++ " - " ++ time_range.end()'

[git]
colocate = false

[ui]
pager = ":builtin"
paginate = "never"
color = "never"
editor = "true"
"#,
        );
        env
    }

    /// Re-attaches to an existing layout (after the directory was restored from a template).
    pub fn attach(root: &Path, command_number: i64) -> Self {
        let root = root.to_owned();
        Self {
            home: root.join("home"),
            config_dir: root.join("config"),
            tmp: root.join("tmp"),
            root,
            command_number: Cell::new(command_number),
            config_file_number: Cell::new(100),
            extra_env: BTreeMap::new(),
            timeout: Duration::from_secs(120),
        }
    }

    pub fn add_config(&self, text: &str) {
        let n = self.config_file_number.get();
        self.config_file_number.set(n + 1);
        std::fs::write(self.config_dir.join(format!("config{n:04}.toml")), text).unwrap();
    }

    pub fn command(&self, cwd: &Path, args: &[&str]) -> Command {
        let mut cmd = Command::new(jj_bin());
        cmd.current_dir(cwd);
        cmd.args(args);
        cmd.env_clear();
        cmd.env("COLUMNS", "100");
        cmd.env("RUST_BACKTRACE", "1");
        cmd.env("PATH", std::env::var_os("PATH").unwrap_or_default());
        cmd.env("HOME", &self.home);
        cmd.env("TMPDIR", &self.tmp);
        cmd.env("GIT_CONFIG_SYSTEM", "/dev/null");
        cmd.env("GIT_CONFIG_GLOBAL", "/dev/null");
        cmd.env("GIT_CONFIG_KEY_0", "init.defaultBranch");
        cmd.env("GIT_CONFIG_VALUE_0", "master");
        cmd.env("GIT_CONFIG_COUNT", "1");
        cmd.env("JJ_CONFIG", &self.config_dir);
        cmd.env("JJ_USER", "Test User");
        cmd.env("JJ_EMAIL", "test.user@example.com");
        cmd.env("JJ_OP_HOSTNAME", "host.example.com");
        cmd.env("JJ_OP_USERNAME", "test-username");
        cmd.env("JJ_TZ_OFFSET_MINS", "660");
        let n = self.command_number.get() + 1;
        self.command_number.set(n);
        cmd.env("JJ_RANDOMNESS_SEED", n.to_string());
        let ts = timestamp_rfc3339(n);
        cmd.env("JJ_TIMESTAMP", &ts);
        cmd.env("JJ_OP_TIMESTAMP", &ts);
        for (k, v) in &self.extra_env {
            cmd.env(k, v);
        }
        cmd
    }

    pub fn run(&self, cwd: &Path, args: &[&str]) -> Output {
        run_command(&mut self.command(cwd, args), self.timeout)
    }

    pub fn run_env(&self, cwd: &Path, args: &[&str], env: &[(&str, &str)]) -> Output {
        let mut cmd = self.command(cwd, args);
        for (k, v) in env {
            cmd.env(k, v);
        }
        run_command(&mut cmd, self.timeout)
    }

    /// Plain `git` with the same hermetic git configuration.
    pub fn git(&self, cwd: &Path, args: &[&str]) -> Output {
        let mut cmd = Command::new("git");
        cmd.current_dir(cwd);
        cmd.args(args);
        cmd.env_clear();
        cmd.env("PATH", std::env::var_os("PATH").unwrap_or_default());
        cmd.env("HOME", &self.home);
        cmd.env("GIT_CONFIG_SYSTEM", "/dev/null");
        cmd.env("GIT_CONFIG_GLOBAL", "/dev/null");
        cmd.env("GIT_CONFIG_KEY_0", "init.defaultBranch");
        cmd.env("GIT_CONFIG_VALUE_0", "master");
        cmd.env("GIT_CONFIG_COUNT", "1");
        cmd.env("GIT_AUTHOR_NAME", "Git User");
        cmd.env("GIT_AUTHOR_EMAIL", "git.user@example.com");
        cmd.env("GIT_COMMITTER_NAME", "Git User");
        cmd.env("GIT_COMMITTER_EMAIL", "git.user@example.com");
        let n = self.command_number.get() + 1;
        self.command_number.set(n);
        let date = format!("{} +0700", 981_147_906 + n);
        cmd.env("GIT_AUTHOR_DATE", &date);
        cmd.env("GIT_COMMITTER_DATE", &date);
        run_command(&mut cmd, self.timeout)
    }
}

/// 2001-02-03T04:05:06+07:00 plus `n` seconds, like the repository's CLI tests.
pub fn timestamp_rfc3339(n: i64) -> String {
    // 2001-02-03T04:05:06+07:00 == 981147906 seconds since the epoch.
    let t = 981_147_906 + n + 7 * 3600;
    let days = t.div_euclid(86_400);
    let secs = t.rem_euclid(86_400);
    let (y, m, d) = civil_from_days(days);
    format!(
        "{y:04}-{m:02}-{d:02}T{:02}:{:02}:{:02}+07:00",
        secs / 3600,
        (secs % 3600) / 60,
        secs % 60
    )
}

fn civil_from_days(z: i64) -> (i64, i64, i64) {
    let z = z + 719_468;
    let era = z.div_euclid(146_097);
    let doe = z.rem_euclid(146_097);
    let yoe = (doe - doe / 1460 + doe / 36_524 - doe / 146_096) / 365;
    let y = yoe + era * 400;
    let doy = doe - (365 * yoe + yoe / 4 - yoe / 100);
    let mp = (5 * doy + 2) / 153;
    let d = doy - (153 * mp + 2) / 5 + 1;
    let m = if mp < 10 { mp + 3 } else { mp - 9 };
    (if m <= 2 { y + 1 } else { y }, m, d)
}

/// Recursive copy preserving modes, symlinks and mtimes (`cp -a`).
pub fn copy_tree(from: &Path, to: &Path) -> bool {
    if to.exists() {
        std::fs::remove_dir_all(to).ok();
    }
    Command::new("cp")
        .arg("-a")
        .arg(from)
        .arg(to)
        .status()
        .is_ok_and(|s| s.success())
}

/// Independent walk of a workspace directory: path -> bytes (file) or
/// `-> target` (symlink), skipping `.jj` and `.git`.
pub fn walk_disk(root: &Path) -> BTreeMap<String, DiskEntry> {
    let mut out = BTreeMap::new();
    fn rec(dir: &Path, rel: &str, out: &mut BTreeMap<String, DiskEntry>) {
        let Ok(rd) = std::fs::read_dir(dir) else { return };
        for e in rd.flatten() {
            let name = e.file_name().to_string_lossy().into_owned();
            if rel.is_empty() && (name == ".jj" || name == ".git") {
                continue;
            }
            let path = e.path();
            let rel_path = if rel.is_empty() { name.clone() } else { format!("{rel}/{name}") };
            let Ok(meta) = std::fs::symlink_metadata(&path) else { continue };
            if meta.file_type().is_symlink() {
                let target = std::fs::read_link(&path)
                    .map(|t| t.to_string_lossy().into_owned())
                    .unwrap_or_default();
                out.insert(rel_path, DiskEntry::Symlink(target));
            } else if meta.is_dir() {
                rec(&path, &rel_path, out);
            } else {
                use std::os::unix::fs::PermissionsExt as _;
                let exec = meta.permissions().mode() & 0o111 != 0;
                out.insert(
                    rel_path,
                    DiskEntry::File { content: std::fs::read(&path).unwrap_or_default(), exec },
                );
            }
        }
    }
    rec(root, "", &mut out);
    out
}

#[derive(Clone, Debug, PartialEq, Eq, Hash)]
pub enum DiskEntry {
    File { content: Vec<u8>, exec: bool },
    Symlink(String),
}
