//! C08: rebasing carries a commit's changes and nothing else.
//! C09 (library level): moving changes down a stack (squash into parent,
//! absorb, split) never alters the snapshots above it.
//!
//! Both engines build random commit graphs with the harness' own DAG model
//! (`dag.rs`) in an uncommitted transaction of a `TestRepo` (Test backend),
//! run the real rewrite code and compare trees through `path_value` /
//! `tree_ids`, never through the functions being monitored.

use std::cell::RefCell;
use std::collections::BTreeMap;
use std::collections::BTreeSet;
use std::collections::HashMap;
use std::collections::HashSet;
use std::sync::Arc;

use jj_lib::absorb::AbsorbSource;
use jj_lib::absorb::absorb_hunks;
use jj_lib::absorb::split_hunks_to_trees;
use jj_lib::backend::BackendError;
use jj_lib::backend::ChangeId;
use jj_lib::backend::CommitId;
use jj_lib::backend::TreeId;
use jj_lib::commit::Commit;
use jj_lib::matchers::EverythingMatcher;
use jj_lib::matchers::FilesMatcher;
use jj_lib::matchers::Matcher;
use jj_lib::merge::Merge;
use jj_lib::merged_tree::MergedTree;
use jj_lib::object_id::ObjectId as _;
use jj_lib::ref_name::WorkspaceName;
use jj_lib::repo::MutableRepo;
use jj_lib::repo::Repo as _;
use jj_lib::repo_path::RepoPath;
use jj_lib::revset::ResolvedRevsetExpression;
use jj_lib::revset::RevsetExpression;
use jj_lib::rewrite::CommitRewriter;
use jj_lib::rewrite::CommitWithSelection;
use jj_lib::rewrite::EmptyBehavior;
use jj_lib::rewrite::merge_commit_trees;
use jj_lib::rewrite::rebase_commit;
use jj_lib::rewrite::restore_tree;
use jj_lib::rewrite::squash_commits;
use pollster::FutureExt as _;
use serde_json::Value;
use serde_json::json;
use testutils::TestRepo;

use crate::common::*;
use crate::dag::Dag;
use crate::dag::DagOptions;
use crate::dag::add_commit;
use crate::dag::grow_dag;
use crate::ensure;
use crate::model::*;
use crate::p_merge::den_terms;
use crate::r#gen;

// ---------------------------------------------------------------------------
// Shared fixtures and helpers

thread_local! {
    /// One on-disk test repo per worker thread; every case works in its own
    /// transaction that is never committed, so no state leaks between cases
    /// except content-addressed objects in the in-memory Test backend. The
    /// repo is renewed periodically to bound that memory.
    static REPO: RefCell<Option<(TestRepo, u32)>> = const { RefCell::new(None) };
}

fn with_repo<R>(f: impl FnOnce(&TestRepo) -> R) -> R {
    REPO.with(|cell| {
        let mut slot = cell.borrow_mut();
        let renew = match &*slot {
            Some((_, uses)) => *uses >= 256,
            None => true,
        };
        if renew {
            *slot = None;
            *slot = Some((TestRepo::init(), 0));
        }
        let (repo, uses) = slot.as_mut().unwrap();
        *uses += 1;
        f(repo)
    })
}

/// A commit with identical content written twice within the same millisecond
/// gets the same id, which `CommitBuilder::write` refuses. Not a property
/// matter; such a trial is skipped.
fn is_id_collision(err: &BackendError) -> bool {
    err.to_string().contains("already exists")
}

fn term_models(tree: &MergedTree) -> Vec<TreeModel> {
    tree.tree_ids()
        .iter()
        .map(|id| read_tree_model(tree.store(), RepoPath::root(), id))
        .collect()
}

fn resolved_model(tree: &MergedTree) -> Option<TreeModel> {
    tree.tree_ids()
        .as_resolved()
        .map(|id| read_tree_model(tree.store(), RepoPath::root(), id))
}

fn tree_desc_json(tree: &MergedTree) -> Value {
    let models = term_models(tree);
    if models.len() == 1 {
        tree_json(&models[0])
    } else {
        json!({"conflict_terms": trees_json(&models), "labels": tree.labels().as_slice()})
    }
}

fn ids_str(ids: &Merge<TreeId>) -> String {
    ids.iter().map(|id| id.hex()[..12].to_owned()).collect::<Vec<_>>().join(",")
}

fn dag_json(dag: &Dag) -> Value {
    Value::Array(
        dag.nodes
            .iter()
            .enumerate()
            .map(|(i, n)| {
                json!({"i": i, "parents": n.parents, "description": n.commit.description(),
                       "change": n.commit.change_id().hex()[..8].to_owned(),
                       "tree": tree_desc_json(&n.commit.tree())})
            })
            .collect(),
    )
}

fn is_dirlike(m: &Merge<Val>) -> bool {
    m.iter().all(|v| matches!(v, Val::Tree(_) | Val::Absent))
}

fn shorts(m: &Merge<Val>) -> Vec<String> {
    m.iter().map(|v| v.short()).collect()
}

/// `path_value` of several trees at every path (files and directories) that
/// any term of any of the trees mentions.
struct PathTable {
    paths: Vec<String>,
    vals: BTreeMap<String, Vec<Merge<Val>>>,
}

impl PathTable {
    fn new(trees: &[&MergedTree]) -> Self {
        let models: Vec<TreeModel> = trees.iter().flat_map(|t| term_models(t)).collect();
        let paths = all_paths(&models);
        let vals = paths
            .iter()
            .map(|p| (p.clone(), trees.iter().map(|t| merged_val_at(t, p)).collect()))
            .collect();
        Self { paths, vals }
    }

    fn at(&self, path: &str, k: usize) -> &Merge<Val> {
        &self.vals[path][k]
    }

    /// Every proper ancestor of `path` is a directory (or absent) in every
    /// term of every tree of the table. Below a file/directory clash
    /// `path_value` reports "absent" and the change is recorded at the clash
    /// point itself (same convention as C07), so such paths are not compared.
    fn clean_ancestry(&self, path: &str) -> bool {
        let comps: Vec<&str> = path.split('/').collect();
        (1..comps.len()).all(|k| {
            let anc = comps[..k].join("/");
            self.vals[&anc].iter().all(is_dirlike)
        })
    }

    /// Paths at which trees `a` and `b` differ in denotation, ignoring paths
    /// where both sides only have directories (those are compared at the
    /// leaves).
    fn changed(&self, a: usize, b: usize) -> BTreeSet<String> {
        self.paths
            .iter()
            .filter(|p| {
                let (va, vb) = (self.at(p, a), self.at(p, b));
                !(is_dirlike(va) && is_dirlike(vb))
                    && den_terms(va.as_slice()) != den_terms(vb.as_slice())
            })
            .cloned()
            .collect()
    }
}

fn is_dir_prefix_of(dir: &str, path: &str) -> bool {
    path.len() > dir.len() && path.starts_with(dir) && path.as_bytes()[dir.len()] == b'/'
}

/// Per-path denotation equality of two trees at every non-directory path with
/// clean ancestry.
fn check_den_equal(actual: &MergedTree, expected: &MergedTree, clause: &str) -> Check {
    let table = PathTable::new(&[actual, expected]);
    for p in &table.paths {
        if !table.clean_ancestry(p) {
            continue;
        }
        let (a, e) = (table.at(p, 0), table.at(p, 1));
        if is_dirlike(a) && is_dirlike(e) {
            continue;
        }
        ensure!(
            den_terms(a.as_slice()) == den_terms(e.as_slice()),
            clause,
            "at {:?}: expected {:?}, got {:?}",
            p,
            shorts(e),
            shorts(a)
        );
    }
    Ok(())
}

// ---------------------------------------------------------------------------
// C08

#[derive(Default)]
struct CarryStats {
    clause_a_paths: u64,
    clause_b_paths: u64,
    below_clash: u64,
    conflicted_values: u64,
    clash_points: u64,
}

/// Clauses (a) and (b): `c` rebased from base `bo` onto base `bn` gave `new`.
fn check_carry(c: &MergedTree, bo: &MergedTree, bn: &MergedTree, new: &MergedTree) -> Result<CarryStats, Fail> {
    let table = PathTable::new(&[c, bo, bn, new]);
    let mut stats = CarryStats::default();
    for p in &table.paths {
        if !table.clean_ancestry(p) {
            stats.below_clash += 1;
            continue;
        }
        let vals = &table.vals[p];
        if vals.iter().all(is_dirlike) {
            // A directory on every side: its content is compared at the leaves.
            continue;
        }
        if vals.iter().any(|v| v.iter().any(|t| matches!(t, Val::Tree(_)))) {
            stats.clash_points += 1;
        }
        if vals.iter().any(|v| !v.is_resolved()) {
            stats.conflicted_values += 1;
        }
        let dc = den_terms(vals[0].as_slice());
        let dbo = den_terms(vals[1].as_slice());
        let dbn = den_terms(vals[2].as_slice());
        let dnew = den_terms(vals[3].as_slice());
        if dc == dbo {
            stats.clause_a_paths += 1;
            ensure!(
                dnew == dbn,
                "rebase.unchanged_path_takes_new_parents_content",
                "at {:?} the commit did not change its parents' value {:?}; new parents have {:?} but the rebased commit has {:?}",
                p,
                shorts(&vals[1]),
                shorts(&vals[2]),
                shorts(&vals[3])
            );
        }
        if dbo == dbn {
            stats.clause_b_paths += 1;
            ensure!(
                dnew == dc,
                "rebase.path_parents_agree_on_keeps_commit_content",
                "at {:?} old and new parents agree on {:?}; the commit had {:?} but the rebased commit has {:?}",
                p,
                shorts(&vals[1]),
                shorts(&vals[0]),
                shorts(&vals[3])
            );
        }
    }
    Ok(stats)
}

/// Precondition of the away-and-back clause: the set of paths changed by the
/// commit and the set changed between the parents are disjoint and no path
/// of one is a directory prefix of a path of the other.
fn disjoint_changes(c: &MergedTree, bo: &MergedTree, bn: &MergedTree) -> (bool, usize, usize) {
    let table = PathTable::new(&[c, bo, bn]);
    let changed_c = table.changed(0, 1);
    let changed_b = table.changed(1, 2);
    let overlap = changed_c.iter().any(|p| {
        changed_b
            .iter()
            .any(|q| p == q || is_dir_prefix_of(p, q) || is_dir_prefix_of(q, p))
    });
    (!overlap, changed_c.len(), changed_b.len())
}

#[derive(Clone, Copy, Debug, PartialEq, Eq)]
enum ParentKind {
    Root,
    Single,
    Merge,
    WithConflicted,
    VariationOfOld,
}

fn pick_new_parents(rng: &mut Rng, dag: &Dag, c: usize, conflicted: &[usize]) -> (ParentKind, Vec<usize>) {
    let desc = dag.descendants(c);
    let cands: Vec<usize> = (1..dag.len()).filter(|i| !desc.contains(i)).collect();
    let confl: Vec<usize> = conflicted.iter().copied().filter(|i| !desc.contains(i)).collect();
    let distinct = |rng: &mut Rng, first: Vec<usize>, k: usize| {
        let mut out = first;
        let mut tries = 0;
        while out.len() < k && tries < 20 {
            let x = *rng.pick(&cands);
            if !out.contains(&x) {
                out.push(x);
            }
            tries += 1;
        }
        out
    };
    let kind = [
        ParentKind::Root,
        ParentKind::Single,
        ParentKind::Merge,
        ParentKind::WithConflicted,
        ParentKind::VariationOfOld,
    ][rng.weighted(&[1, 4, 4, 3, 2])];
    if cands.is_empty() {
        return (ParentKind::Root, vec![0]);
    }
    let parents = match kind {
        ParentKind::Root => vec![0],
        ParentKind::Single => vec![*rng.pick(&cands)],
        ParentKind::Merge => {
            let k = rng.range(2, 3);
            distinct(rng, vec![], k)
        }
        ParentKind::WithConflicted => {
            if confl.is_empty() {
                vec![*rng.pick(&cands)]
            } else {
                let k = rng.range(1, 3);
                let first = *rng.pick(&confl);
                let mut v = distinct(rng, vec![first], k);
                rng.shuffle(&mut v);
                v
            }
        }
        ParentKind::VariationOfOld => {
            let mut v: Vec<usize> = dag.nodes[c].parents.iter().copied().filter(|p| *p != 0).collect();
            match rng.below(3) {
                0 if v.len() >= 2 => {
                    v.rotate_left(1);
                }
                1 if v.len() >= 2 => {
                    let at = rng.below(v.len());
                    v.remove(at);
                }
                _ => {
                    let k = v.len() + 1;
                    v = distinct(rng, v, k);
                }
            }
            if v.is_empty() {
                v.push(0);
            }
            v
        }
    };
    (kind, parents)
}

fn c08_case(ctx: &Ctx, rng: &mut Rng, test_repo: &TestRepo, log: &RefCell<Vec<Value>>) -> Check {
    let mut tx = test_repo.repo.start_transaction();
    let mut_repo = tx.repo_mut();
    let store = mut_repo.store().clone();
    let mut dag = Dag::new(&store);
    let pool_size = rng.range(3, 6);
    let pool = r#gen::line_pool(rng, pool_size, false);
    let opts = DagOptions {
        max_parents: 3,
        merge_percent: 25,
        shared_change_percent: 0,
        with_trees: true,
        pool: pool.clone(),
    };
    let n = rng.range(6, 14);
    grow_dag(rng, mut_repo, &mut dag, n, &opts);

    // Commits with conflicted trees, made the way users get them: by really
    // rebasing a commit somewhere else, by a merge commit that records the
    // automatic merge of its parents, and children that inherit such a tree.
    let mut conflicted: Vec<usize> = vec![];
    for _ in 0..rng.below(5) {
        let node = if rng.bool() {
            let x = rng.range(1, dag.len() - 1);
            let (_, parents) = pick_new_parents(rng, &dag, x, &conflicted);
            if parents == dag.nodes[x].parents {
                continue;
            }
            let ids: Vec<CommitId> = parents.iter().map(|p| dag.id(*p).clone()).collect();
            match rebase_commit(mut_repo, dag.commit(x).clone(), ids).block_on() {
                Ok(commit) => {
                    let model = resolved_model(&commit.tree());
                    dag.add(commit, model)
                }
                Err(err) if is_id_collision(&err) => continue,
                Err(err) => panic!("harness: setup rebase failed: {err}"),
            }
        } else {
            if dag.len() < 3 {
                continue;
            }
            let a = rng.range(1, dag.len() - 1);
            let b = rng.range(1, dag.len() - 1);
            if a == b {
                continue;
            }
            let commits = vec![dag.commit(a).clone(), dag.commit(b).clone()];
            let tree = merge_commit_trees(&*mut_repo, &commits).block_on().unwrap();
            let model = resolved_model(&tree);
            let commit = mut_repo
                .new_commit(vec![dag.id(a).clone(), dag.id(b).clone()], tree)
                .set_description("auto-merge")
                .write()
                .block_on()
                .unwrap();
            dag.add(commit, model)
        };
        if dag.commit(node).has_conflict() {
            conflicted.push(node);
            if rng.chance(1, 3) {
                // a child that keeps the conflicted tree
                let child = add_commit(mut_repo, &mut dag, &[node], None, None, "child of conflict");
                conflicted.push(child);
            }
        }
    }
    let extra = rng.below(3);
    grow_dag(rng, mut_repo, &mut dag, extra, &opts);
    log.borrow_mut().push(json!({"dag": dag_json(&dag)}));

    let trials = rng.range(2, 4);
    let mut seen: HashSet<(usize, Vec<usize>)> = HashSet::new();
    for _ in 0..trials {
        let c = if !conflicted.is_empty() && rng.chance(1, 4) {
            *rng.pick(&conflicted)
        } else {
            rng.range(1, dag.len() - 1)
        };
        let (kind, new_parents) = pick_new_parents(rng, &dag, c, &conflicted);
        if !seen.insert((c, new_parents.clone())) {
            continue;
        }
        let mode = rng.below(4);
        log.borrow_mut()
            .push(json!({"trial": {"commit": c, "old_parents": dag.nodes[c].parents, "new_parents": new_parents, "mode": mode}}));
        c08_trial(ctx, mut_repo, &dag, c, kind, &new_parents, mode)?;
    }
    Ok(())
}

fn c08_trial(
    ctx: &Ctx,
    mut_repo: &mut MutableRepo,
    dag: &Dag,
    c: usize,
    kind: ParentKind,
    new_parents: &[usize],
    mode: usize,
) -> Check {
    let commit = dag.commit(c).clone();
    let c_tree = commit.tree();
    let old_parent_commits: Vec<Commit> = dag.nodes[c].parents.iter().map(|p| dag.commit(*p).clone()).collect();
    let new_parent_commits: Vec<Commit> = new_parents.iter().map(|p| dag.commit(*p).clone()).collect();
    let new_ids: Vec<CommitId> = new_parent_commits.iter().map(|p| p.id().clone()).collect();

    // (c) rebasing onto the current parents leaves tree ids and labels alone.
    {
        let builder = CommitRewriter::new(mut_repo, commit.clone(), commit.parent_ids().to_vec())
            .rebase()
            .block_on()
            .unwrap();
        let tree = builder.tree();
        drop(builder);
        ensure!(
            tree.tree_ids() == c_tree.tree_ids(),
            "rebase.onto_current_parents_keeps_tree_ids",
            "tree ids {:?} became {:?}",
            c_tree.tree_ids(),
            tree.tree_ids()
        );
        ensure!(
            tree.labels() == c_tree.labels(),
            "rebase.onto_current_parents_keeps_labels",
            "labels {:?} became {:?}",
            c_tree.labels().as_slice(),
            tree.labels().as_slice()
        );
        ctx.count("same_parents_checked");
        if c_tree.has_conflict() {
            ctx.count("same_parents_checked_on_conflicted_commit");
        }
    }
    if new_ids == commit.parent_ids() {
        ctx.case(stable_hash(&(ids_str(c_tree.tree_ids()), "same")), false);
        ctx.count("trial_new_parents_equal_old");
        return Ok(());
    }

    // The same public function the code under test uses (monitored by C07).
    let bo = merge_commit_trees(&*mut_repo, &old_parent_commits).block_on().unwrap();
    let bn = merge_commit_trees(&*mut_repo, &new_parent_commits).block_on().unwrap();

    let written: Result<Option<Commit>, BackendError> = match mode {
        0 => {
            let behavior = [EmptyBehavior::Keep, EmptyBehavior::AbandonNewlyEmpty, EmptyBehavior::AbandonAllEmpty]
                [(c + new_parents.len()) % 3];
            match CommitRewriter::new(mut_repo, commit.clone(), new_ids.clone())
                .rebase_with_empty_behavior(behavior)
                .block_on()
                .unwrap()
            {
                Some(builder) => builder.write().block_on().map(Some),
                None => Ok(None),
            }
        }
        _ => rebase_commit(mut_repo, commit.clone(), new_ids.clone()).block_on().map(Some),
    };
    let new_commit = match written {
        Ok(Some(commit)) => commit,
        Ok(None) => {
            ctx.count("abandoned_as_empty_not_checked");
            ctx.case(stable_hash(&(ids_str(c_tree.tree_ids()), "abandoned")), false);
            return Ok(());
        }
        Err(err) if is_id_collision(&err) => {
            ctx.count("skipped_commit_id_collision");
            return Ok(());
        }
        Err(err) => panic!("harness: rebase failed: {err}"),
    };
    let new_tree = new_commit.tree();
    ensure!(
        new_commit.parent_ids() == new_ids.as_slice(),
        "rebase.new_commit_has_requested_parents",
        "parents {:?}, requested {:?}",
        new_commit.parent_ids(),
        new_ids
    );

    // (a), (b)
    // Candidate finding kept under its own signatures: the parents' tree ids
    // are pairwise equal (which is what the fast path of
    // `rebase_with_empty_behavior` tests) although their ancestry, and
    // therefore their merged tree, differs.
    let same_parent_tree_lists = old_parent_commits.iter().map(|p| p.tree_ids()).collect::<Vec<_>>()
        == new_parent_commits.iter().map(|p| p.tree_ids()).collect::<Vec<_>>();
    let fast_path_case = same_parent_tree_lists && bo.tree_ids() != bn.tree_ids();
    if fast_path_case {
        ctx.count("observed_equal_parent_tree_lists_but_different_merged_base");
    }
    let stats = check_carry(&c_tree, &bo, &bn, &new_tree).map_err(|mut f| {
        if fast_path_case {
            f.clause = format!("rebase.equal_parent_trees_but_different_merged_parents.{}", &f.clause["rebase.".len()..]);
            f.message = format!(
                "{} [old parents {:?} and new parents {:?} have pairwise equal tree ids, but merge to {:?} and {:?}]",
                f.message,
                dag.nodes[c].parents,
                new_parents,
                bo.tree_ids(),
                bn.tree_ids()
            );
        }
        f
    })?;
    ctx.count_n("clause_a_paths_checked", stats.clause_a_paths);
    ctx.count_n("clause_b_paths_checked", stats.clause_b_paths);
    ctx.count_n("paths_below_file_dir_clash_skipped", stats.below_clash);
    ctx.count_n("paths_with_conflicted_value", stats.conflicted_values);
    ctx.count_n("file_dir_clash_points_compared", stats.clash_points);

    // (d) away and back
    let (disjoint, n_changed_c, n_changed_b) = disjoint_changes(&c_tree, &bo, &bn);
    if disjoint {
        let back = CommitRewriter::new(mut_repo, new_commit.clone(), commit.parent_ids().to_vec())
            .rebase()
            .block_on()
            .unwrap();
        let back_tree = back.tree();
        drop(back);
        ctx.count("away_and_back_checked");
        if n_changed_c > 0 && n_changed_b > 0 {
            ctx.count("away_and_back_checked_both_sides_changed");
        }
        if !c_tree.has_conflict() {
            ensure!(
                back_tree.tree_ids() == c_tree.tree_ids(),
                "rebase.away_and_back_restores_tree",
                "commit changes {} paths, parents differ in {} paths (disjoint); original tree {:?}, after away-and-back {:?}: {}",
                n_changed_c,
                n_changed_b,
                c_tree.tree_ids(),
                back_tree.tree_ids(),
                tree_desc_json(&back_tree)
            );
        } else {
            check_den_equal(&back_tree, &c_tree, "rebase.away_and_back_restores_conflicted_tree")?;
            ctx.count("away_and_back_checked_on_conflicted_commit");
            if back_tree.tree_ids() == c_tree.tree_ids() {
                ctx.count("away_and_back_conflicted_exact_tree_ids");
                if back_tree.labels() == c_tree.labels() {
                    ctx.count("away_and_back_conflicted_exact_labels");
                }
            } else {
                ctx.count("away_and_back_conflicted_only_denotation_equal");
            }
        }
    }

    // Evidence
    ctx.count(&format!("new_parents_{kind:?}"));
    match new_parents {
        [0] => ctx.count("observed_new_parent_root"),
        [_] => ctx.count("observed_new_parent_single"),
        _ => ctx.count("observed_new_parents_merge"),
    }
    if old_parent_commits.len() > 1 {
        ctx.count("observed_old_parents_merge");
    }
    if new_parent_commits.iter().any(|p| p.has_conflict()) {
        ctx.count("observed_new_parent_with_conflicted_tree");
    }
    if bn.has_conflict() {
        ctx.count("observed_new_base_conflicted");
    }
    if bo.has_conflict() {
        ctx.count("observed_old_base_conflicted");
    }
    if c_tree.has_conflict() {
        ctx.count("observed_commit_conflicted");
    }
    if new_tree.has_conflict() {
        ctx.count("observed_result_conflicted");
    }
    let nontrivial = n_changed_c > 0 && n_changed_b > 0 && stats.clause_a_paths + stats.clause_b_paths > 0;
    ctx.case(
        stable_hash(&(ids_str(c_tree.tree_ids()), ids_str(bo.tree_ids()), ids_str(bn.tree_ids()))),
        nontrivial,
    );
    if nontrivial && ctx.wants_sample() {
        ctx.sample(|| {
            json!({"commit_tree": tree_desc_json(&c_tree), "old_base": tree_desc_json(&bo),
                   "new_base": tree_desc_json(&bn), "rebased": tree_desc_json(&new_tree),
                   "paths_changed_by_commit": n_changed_c, "paths_changed_between_bases": n_changed_b,
                   "away_and_back_applicable": disjoint})
        });
    }
    Ok(())
}

pub fn run_c08(ctx: &Ctx) -> i32 {
    ctx.set_rule(
        "Random commit graphs (6-14 commits, 25% merges, trees over a 9-path universe with files, \
         executables, symlinks, nested directories and file<->directory replacements, line pools of 3-6 \
         lines) plus commits with conflicted trees obtained by really rebasing commits, by merge commits \
         recording the automatic merge of their parents, and by children inheriting such trees. 2-4 trials \
         per graph: a random commit is rebased (rebase_commit or CommitRewriter::rebase_with_empty_behavior) \
         onto the root, a single commit, a merge of 2-3 commits, a set containing a conflicted commit, or a \
         variation of its old parents (never a descendant). Every trial also rebases onto the current \
         parents and, when the change sets are disjoint, away and back. Non-trivial: new parents differ \
         from the old ones, the commit changes at least one path, the bases differ in at least one path, \
         and at least one path satisfied a premise of clause (a) or (b). Distinct: by (commit tree ids, \
         old base tree ids, new base tree ids).",
    );
    ctx.assume("merge_commit_trees (C07) gives the parents' merged tree; store read/write of trees and files (C17)");
    let n = ctx.tier().pick(15_000, 150_000);
    par_cases(ctx, n, threads(), |i, cs, rng| {
        let log: RefCell<Vec<Value>> = RefCell::new(vec![]);
        run_case_tolerant(
            ctx,
            i,
            cs,
            || json!({"steps": log.borrow().clone()}),
            || with_repo(|test_repo| c08_case(ctx, rng, test_repo, &log)),
        );
    });
    ctx.finish(300)
}

// ---------------------------------------------------------------------------
// C09 (library level)

const STACK_FILES: &[&str] = &["s", "a/t", "d/e/u", "k/l"];

fn fresh_line(rng: &mut Rng, pool: &[Vec<u8>], serial: &mut u32) -> Vec<u8> {
    if rng.chance(1, 6) {
        rng.pick(pool).clone()
    } else {
        *serial += 1;
        format!("{} {}", rng.pick(&["alpha", "beta", "fn x", "let y", "//"]), serial).into_bytes()
    }
}

fn split_lines(content: &[u8]) -> (Vec<Vec<u8>>, bool) {
    if content.is_empty() {
        return (vec![], true);
    }
    let fin = content.ends_with(b"\n");
    let mut lines: Vec<Vec<u8>> = content.split(|b| *b == b'\n').map(|l| l.to_vec()).collect();
    if fin {
        lines.pop();
    }
    (lines, fin)
}

fn join_lf(lines: &[Vec<u8>], fin: bool) -> Vec<u8> {
    let mut out = vec![];
    for (i, l) in lines.iter().enumerate() {
        out.extend_from_slice(l);
        if i + 1 < lines.len() || fin {
            out.push(b'\n');
        }
    }
    out
}

/// Edits the line-structured "stack files" (mostly unique lines, so that
/// annotation attributes lines to the commit that wrote them) and sometimes
/// applies one generic tree mutation (symlinks, chmod, deletes, file<->dir).
fn edit_stack_model(
    rng: &mut Rng,
    base: &TreeModel,
    pool: &[Vec<u8>],
    serial: &mut u32,
    max_line_edits: usize,
) -> TreeModel {
    let mut m = base.clone();
    for _ in 0..rng.range(1, 2) {
        let path = *rng.pick(STACK_FILES);
        match m.get(path).cloned() {
            Some(Entry::File { content, exec }) if !content.contains(&0) => {
                let (mut lines, fin) = split_lines(&content);
                for _ in 0..rng.range(1, max_line_edits) {
                    match rng.below(4) {
                        0 => {
                            let at = rng.below(lines.len() + 1);
                            lines.insert(at, fresh_line(rng, pool, serial));
                        }
                        1 if !lines.is_empty() => {
                            let at = rng.below(lines.len());
                            lines.remove(at);
                        }
                        _ if !lines.is_empty() => {
                            let at = rng.below(lines.len());
                            lines[at] = fresh_line(rng, pool, serial);
                        }
                        _ => lines.push(fresh_line(rng, pool, serial)),
                    }
                }
                let fin = if rng.chance(1, 10) { !fin } else { fin };
                m.insert(path.to_owned(), Entry::File { content: join_lf(&lines, fin), exec });
            }
            _ => {
                let n = rng.range(3, 8);
                let lines: Vec<Vec<u8>> = (0..n).map(|_| fresh_line(rng, pool, serial)).collect();
                let entry = Entry::File { content: join_lf(&lines, true), exec: rng.chance(1, 8) };
                tree_insert(&mut m, path, entry);
            }
        }
    }
    if rng.chance(1, 3) {
        m = mutate_tree(rng, &m, pool, 1);
    }
    m
}

fn model_of(dag: &Dag, i: usize) -> TreeModel {
    match &dag.nodes[i].tree {
        Some(m) => m.clone(),
        None => {
            // A conflicted commit: continue from its first side, as a user
            // resolving the conflict would.
            let tree = dag.commit(i).tree();
            read_tree_model(tree.store(), RepoPath::root(), tree.tree_ids().first())
        }
    }
}

struct StackGen {
    pool: Vec<Vec<u8>>,
    serial: u32,
}

fn add_stack_commit(
    rng: &mut Rng,
    mut_repo: &mut MutableRepo,
    dag: &mut Dag,
    g: &mut StackGen,
    parents: &[usize],
    max_line_edits: usize,
) -> usize {
    let store = mut_repo.store().clone();
    let (tree, model) = if parents.len() > 1 && rng.bool() {
        // Merge commit recording the automatic merge (possibly conflicted).
        let commits: Vec<Commit> = parents.iter().map(|p| dag.commit(*p).clone()).collect();
        let tree = merge_commit_trees(&*mut_repo, &commits).block_on().unwrap();
        let model = resolved_model(&tree);
        (tree, model)
    } else if rng.chance(1, 12) {
        // Empty commit (may keep a conflicted tree).
        (dag.commit(parents[0]).tree(), dag.nodes[parents[0]].tree.clone())
    } else {
        let base = model_of(dag, parents[0]);
        let model = edit_stack_model(rng, &base, &g.pool, &mut g.serial, max_line_edits);
        (write_tree(&store, &model), Some(model))
    };
    let description = if rng.chance(1, 5) { String::new() } else { format!("c{}", dag.len()) };
    let parent_ids = parents.iter().map(|p| dag.id(*p).clone()).collect();
    let commit = mut_repo
        .new_commit(parent_ids, tree)
        .set_description(description)
        .write()
        .block_on()
        .unwrap();
    dag.add(commit, model)
}

/// A source commit for absorb/split: edits lines of 1-3 *existing*
/// line-structured files (mostly replacing or deleting lines, which annotation
/// can attribute to the ancestor that wrote them), so that several paths and
/// several ancestors are involved.
fn add_rich_source(rng: &mut Rng, mut_repo: &mut MutableRepo, dag: &mut Dag, g: &mut StackGen, parent: usize) -> usize {
    let store = mut_repo.store().clone();
    let mut model = model_of(dag, parent);
    let mut files: Vec<String> = model
        .iter()
        .filter(|(_, e)| matches!(e, Entry::File { content, .. } if !content.is_empty() && !content.contains(&0)))
        .map(|(p, _)| p.clone())
        .collect();
    rng.shuffle(&mut files);
    files.truncate(rng.range(1, 3));
    for path in &files {
        let Some(Entry::File { content, exec }) = model.get(path).cloned() else { continue };
        let (mut lines, fin) = split_lines(&content);
        for _ in 0..rng.range(1, 4) {
            match rng.below(6) {
                0 => {
                    let at = rng.below(lines.len() + 1);
                    lines.insert(at, fresh_line(rng, &g.pool, &mut g.serial));
                }
                1 | 2 if lines.len() > 1 => {
                    let at = rng.below(lines.len());
                    lines.remove(at);
                }
                _ if !lines.is_empty() => {
                    let at = rng.below(lines.len());
                    lines[at] = fresh_line(rng, &g.pool, &mut g.serial);
                }
                _ => lines.push(fresh_line(rng, &g.pool, &mut g.serial)),
            }
        }
        model.insert(path.clone(), Entry::File { content: join_lf(&lines, fin), exec });
    }
    if files.is_empty() || rng.chance(1, 3) {
        model = edit_stack_model(rng, &model, &g.pool, &mut g.serial, 3);
    }
    let description = if rng.chance(1, 5) { String::new() } else { format!("c{}", dag.len()) };
    let commit = mut_repo
        .new_commit(vec![dag.id(parent).clone()], write_tree(&store, &model))
        .set_description(description)
        .write()
        .block_on()
        .unwrap();
    dag.add(commit, Some(model))
}

fn grow_stack(rng: &mut Rng, mut_repo: &mut MutableRepo, dag: &mut Dag, g: &mut StackGen, n: usize) {
    for _ in 0..n {
        let n_parents = if dag.len() >= 3 && rng.chance(20, 100) { rng.range(2, 3) } else { 1 };
        let mut parents: Vec<usize> = vec![];
        let mut tries = 0;
        while parents.len() < n_parents.min(dag.len()) && tries < 30 {
            tries += 1;
            let p = if rng.chance(3, 4) {
                dag.len() - 1 - rng.below(dag.len().min(3))
            } else {
                rng.below(dag.len())
            };
            if !parents.contains(&p) {
                parents.push(p);
            }
        }
        if parents.len() > 1 {
            parents.retain(|p| *p != 0);
        }
        if parents.is_empty() {
            parents.push(0);
        }
        add_stack_commit(rng, mut_repo, dag, g, &parents, 2);
    }
}

#[derive(Clone, Copy, Debug, PartialEq, Eq, Hash)]
enum Op {
    Squash { keep_emptied: bool },
    Absorb,
    Split,
}

impl Op {
    fn name(self) -> &'static str {
        match self {
            Self::Squash { keep_emptied: false } => "squash",
            Self::Squash { keep_emptied: true } => "squash_keep_emptied",
            Self::Absorb => "absorb",
            Self::Split => "split",
        }
    }
}

/// A commit write was refused because an identical commit (same content and
/// same millisecond timestamp) already exists: the case is skipped.
struct IdCollision;

fn no_collision<T>(result: Result<T, BackendError>) -> Result<T, IdCollision> {
    match result {
        Ok(value) => Ok(value),
        Err(err) if is_id_collision(&err) => Err(IdCollision),
        Err(err) => panic!("harness: unexpected backend error from the operation: {err}"),
    }
}

struct OpOutcome {
    /// Commits that received changes.
    receiver_ids: Vec<CommitId>,
    /// Absorb: dag indices the plan may legitimately name besides the source.
    allowed_receivers: Option<Vec<usize>>,
    /// Change id of the topmost resulting commit, whose tree must be the
    /// source's old tree (None: the source itself, checked with descendants).
    top_change: Option<ChangeId>,
    /// The source may legitimately disappear (abandoned as emptied).
    source_may_vanish: bool,
    /// Whether the operation moved anything.
    moved: bool,
    detail: Value,
}

/// Non-directory paths at which the two trees differ.
fn changed_leaf_paths(a: &MergedTree, b: &MergedTree) -> Vec<String> {
    let table = PathTable::new(&[a, b]);
    table.changed(0, 1).into_iter().collect()
}

fn random_selection(rng: &mut Rng, changed: &[String]) -> Vec<String> {
    let mut sel: Vec<String> = match rng.below(8) {
        0 => vec![],
        1 => changed.to_vec(),
        _ if changed.len() >= 2 => {
            // a proper, non-empty subset
            let keep = rng.below(changed.len());
            let drop = (keep + 1 + rng.below(changed.len() - 1)) % changed.len();
            changed
                .iter()
                .enumerate()
                .filter(|(i, _)| *i == keep || (*i != drop && rng.bool()))
                .map(|(_, p)| p.clone())
                .collect()
        }
        _ => changed.iter().filter(|_| rng.bool()).cloned().collect(),
    };
    if rng.chance(1, 6) {
        sel.push((*rng.pick(PATHS)).to_owned());
    }
    sel.sort();
    sel.dedup();
    sel
}

fn files_matcher(paths: &[String]) -> FilesMatcher {
    FilesMatcher::new(paths.iter().map(|p| rp(p)))
}

fn do_squash(mut_repo: &mut MutableRepo, dag: &Dag, s: usize, keep_emptied: bool) -> Result<OpOutcome, IdCollision> {
    let p = dag.nodes[s].parents[0];
    let source = dag.commit(s).clone();
    let destination = dag.commit(p).clone();
    let parent_tree = source.parent_tree(&*mut_repo).block_on().unwrap();
    let selection = CommitWithSelection {
        commit: source.clone(),
        selected_tree: source.tree(),
        parent_tree,
    };
    let moved = source.tree_ids() != destination.tree_ids();
    let squashed = no_collision(squash_commits(mut_repo, &[selection], &destination, keep_emptied).block_on())?;
    let mut happened = false;
    if let Some(squashed) = squashed {
        happened = true;
        no_collision(
            squashed
                .commit_builder
                .set_description(destination.description())
                .write()
                .block_on(),
        )?;
    }
    no_collision(mut_repo.rebase_descendants().block_on())?;
    Ok(OpOutcome {
        receiver_ids: if happened { vec![destination.id().clone()] } else { vec![] },
        allowed_receivers: None,
        top_change: happened.then(|| destination.change_id().clone()),
        source_may_vanish: !keep_emptied,
        moved: moved && happened,
        detail: json!({"destination": p, "squash_happened": happened}),
    })
}

fn do_absorb(rng: &mut Rng, mut_repo: &mut MutableRepo, dag: &Dag, s: usize) -> Result<OpOutcome, IdCollision> {
    let commit = dag.commit(s).clone();
    let parent_tree = commit.parent_tree(&*mut_repo).block_on().unwrap();
    let changed = changed_leaf_paths(&commit.tree(), &parent_tree);
    // Which hunks are offered: the whole commit, or (as `jj absorb -i` does) a
    // tree holding only part of its changes; and optionally a path filter.
    let partial = rng.chance(1, 3);
    let partial_paths = random_selection(rng, &changed);
    let source = if partial {
        let selected_tree = restore_tree(
            &commit.tree(),
            &parent_tree,
            commit.conflict_label(),
            commit.parents_conflict_label().block_on().unwrap(),
            &files_matcher(&partial_paths),
        )
        .block_on()
        .unwrap();
        AbsorbSource::from_tree(commit.clone(), selected_tree, parent_tree.clone())
            .block_on()
            .unwrap()
    } else {
        AbsorbSource::from_commit(&*mut_repo, commit.clone()).block_on().unwrap()
    };
    let filter_paths = rng.chance(1, 4).then(|| random_selection(rng, &changed));
    let matcher: Box<dyn Matcher> = match &filter_paths {
        Some(paths) => Box::new(files_matcher(paths)),
        None => Box::new(EverythingMatcher),
    };
    // Destination candidates: all proper ancestors but the root (what
    // `mutable()` gives the CLI), or a random subset of them; the source
    // itself is always part of the domain, as annotate assumes.
    let ancestors: Vec<usize> = dag.ancestors(s).into_iter().filter(|a| *a != 0 && *a != s).collect();
    let domain_nodes: Vec<usize> = if rng.chance(2, 3) {
        ancestors.clone()
    } else {
        ancestors.iter().copied().filter(|_| rng.chance(2, 3)).collect()
    };
    let mut domain_ids: Vec<CommitId> = domain_nodes.iter().map(|a| dag.id(*a).clone()).collect();
    domain_ids.push(commit.id().clone());
    let destinations: Arc<ResolvedRevsetExpression> = RevsetExpression::commits(domain_ids);
    let selected = split_hunks_to_trees(&*mut_repo, &source, &destinations, matcher.as_ref())
        .block_on()
        .unwrap_or_else(|err| panic!("harness: split_hunks_to_trees failed: {err}"));
    let receiver_ids: Vec<CommitId> = selected.target_commits.keys().cloned().collect();
    let skipped = selected.skipped_paths.len();
    let stats = no_collision(absorb_hunks(mut_repo, &source, selected.target_commits).block_on())?;
    no_collision(mut_repo.rebase_descendants().block_on())?;
    let moved = receiver_ids.iter().any(|id| id != commit.id());
    Ok(OpOutcome {
        detail: json!({"partial_selection": partial.then_some(partial_paths), "path_filter": filter_paths,
                       "destination_set": domain_nodes,
                       "receivers": receiver_ids.iter().map(|id| dag.idx(id)).collect::<Vec<_>>(),
                       "skipped_paths": skipped,
                       "rewritten_destinations": stats.rewritten_destinations.len(),
                       "source_rewritten": stats.rewritten_source.is_some(), "num_rebased": stats.num_rebased}),
        receiver_ids,
        allowed_receivers: Some(domain_nodes),
        top_change: None,
        source_may_vanish: true,
        moved,
    })
}

/// `jj split <paths>` (sequential, no move flags) spelled with the library
/// calls `cmd_split` makes.
fn do_split(
    rng: &mut Rng,
    mut_repo: &mut MutableRepo,
    dag: &Dag,
    s: usize,
    wc_is_target: bool,
) -> Result<OpOutcome, IdCollision> {
    let target = dag.commit(s).clone();
    let parent_tree = target.parent_tree(&*mut_repo).block_on().unwrap();
    let changed = changed_leaf_paths(&target.tree(), &parent_tree);
    let paths = random_selection(rng, &changed);
    let selected_tree = restore_tree(
        &target.tree(),
        &parent_tree,
        target.conflict_label(),
        target.parents_conflict_label().block_on().unwrap(),
        &files_matcher(&paths),
    )
    .block_on()
    .unwrap();
    let selection = CommitWithSelection {
        commit: target.clone(),
        selected_tree: selected_tree.clone(),
        parent_tree,
    };
    let moved = !selection.is_empty_selection() && !selection.is_full_selection();
    let first = no_collision(mut_repo.rewrite_commit(&target).set_tree(selected_tree).write().block_on())?;
    let second = no_collision(
        mut_repo
            .rewrite_commit(&target)
            .set_parents(vec![first.id().clone()])
            .set_tree(target.tree())
            .clear_rewrite_source()
            .generate_new_change_id()
            .write()
            .block_on(),
    )?;
    no_collision(
        mut_repo
            .transform_descendants(vec![target.id().clone()], async |mut rewriter| {
                rewriter.replace_parent(first.id(), [second.id()]);
                rewriter.rebase().await?.write().await?;
                Ok(())
            })
            .block_on(),
    )?;
    if wc_is_target {
        mut_repo
            .edit(WorkspaceName::DEFAULT.to_owned(), &second)
            .block_on()
            .unwrap();
    }
    no_collision(mut_repo.rebase_descendants().block_on())?;
    Ok(OpOutcome {
        receiver_ids: vec![target.id().clone()],
        allowed_receivers: None,
        top_change: Some(second.change_id().clone()),
        source_may_vanish: false,
        moved,
        detail: json!({"selected_paths": paths}),
    })
}

/// Signature of the one class of descendants for which the unchanged code
/// does not keep `tree_ids` (candidate finding, see `check_tree_above`).
const SIDE_BRANCH_CLAUSE: &str = "descendant_of_rebased_side_branch.tree_changed";

/// Validation aid: with `VERIF_REWRITE_TOLERATE_KNOWN=1` the two things the
/// unchanged code is known to do are counted instead of reported, so that the
/// remaining clauses can be observed past the 5-violation cap when the
/// signatures are not (yet) listed in known_findings.json:
/// * the C07 known finding (debug assertion in `MergedTree::resolve`, "merge
///   not idempotent"), which aborts a case before the oracle sees any value;
/// * `SIDE_BRANCH_CLAUSE`.
/// Without the variable both are reported through the normal channel.
fn tolerate_known() -> bool {
    std::env::var("VERIF_REWRITE_TOLERATE_KNOWN").is_ok_and(|v| v == "1")
}

fn run_case_tolerant(ctx: &Ctx, index: u64, case_seed: u64, describe: impl Fn() -> Value, oracle: impl FnOnce() -> Check) {
    if !tolerate_known() {
        return run_case(ctx, index, case_seed, describe, oracle);
    }
    match catch(oracle) {
        Caught::Ok(result) => run_case(ctx, index, case_seed, describe, || result),
        Caught::SubjectPanic { location, message }
            if location.contains("lib/src/merged_tree.rs") && message.starts_with("assertion `left == right` failed") =>
        {
            ctx.count("tolerated_known_C07_panic_resolve_not_idempotent");
        }
        Caught::SubjectPanic { location, message } => {
            ctx.violation(
                &panic_signature(&location, &message),
                &format!("code under test panicked at {location}: {message}"),
                json!({"case_index": index, "case_seed": case_seed, "case": describe(),
                       "panic_location": location, "panic_message": message}),
            );
        }
        Caught::HarnessPanic { location, message } => {
            ctx.inconclusive(&format!(
                "harness panic at {location}: {} (case {index}, seed {case_seed})",
                truncate(&message, 300)
            ));
        }
    }
}

/// The tree of a commit at or above the source must be what it was.
///
/// `via_side_branch`: the commit is a merge with (or sits above a merge with)
/// a side branch forking off a commit that received changes. Such a side
/// branch is legitimately rebased and inherits the moved hunk (DESIGN's
/// soundness note), so this descendant has a parent whose tree changed and its
/// own tree is recomputed by a real three-way merge instead of the
/// equal-parent-trees fast path. The statement still says "any of its
/// descendants", so identical `tree_ids` are demanded here too, but under the
/// separate signature `SIDE_BRANCH_CLAUSE`, because the unchanged code does
/// not satisfy it: conflicts are re-expressed against the rebased side branch
/// (3 -> 5 terms, or terms that now contain the moved hunk) and a resolved
/// merge can even become conflicted.
fn check_tree_above(
    ctx: &Ctx,
    name: &str,
    dag: &Dag,
    n: usize,
    via_side_branch: bool,
    kind: &str,
    actual: &Commit,
) -> Check {
    let expected = dag.commit(n);
    let same = actual.tree_ids() == expected.tree_ids();
    if via_side_branch {
        if same {
            ctx.count("via_rebased_side_branch_tree_ids_identical");
        } else if check_den_equal(&actual.tree(), &expected.tree(), "").is_ok() {
            ctx.count("via_rebased_side_branch_only_conflict_representation_changed");
        } else if expected.has_conflict() {
            ctx.count("via_rebased_side_branch_conflicted_tree_content_changed");
        } else {
            ctx.count("via_rebased_side_branch_resolved_tree_content_changed");
        }
        if tolerate_known() {
            return Ok(());
        }
    }
    let clause = if via_side_branch {
        SIDE_BRANCH_CLAUSE.to_owned()
    } else {
        format!("{name}.{kind}_tree_changed")
    };
    ensure!(
        same,
        clause,
        "{} {}: commit {} (dag index {}, parents {:?}) had tree {:?} and now is {} with tree {:?}: {}",
        name,
        kind,
        expected.id().hex(),
        n,
        dag.nodes[n].parents,
        expected.tree_ids(),
        actual.id().hex(),
        actual.tree_ids(),
        tree_desc_json(&actual.tree())
    );
    Ok(())
}

/// All commits reachable from the visible heads, by change id (own walk).
fn visible_by_change(mut_repo: &MutableRepo) -> HashMap<ChangeId, Vec<Commit>> {
    let store = mut_repo.store();
    let mut seen: HashSet<CommitId> = HashSet::new();
    let mut stack: Vec<CommitId> = mut_repo.view().heads().iter().cloned().collect();
    let mut out: HashMap<ChangeId, Vec<Commit>> = HashMap::new();
    while let Some(id) = stack.pop() {
        if !seen.insert(id.clone()) {
            continue;
        }
        let commit = store.get_commit(&id).unwrap();
        stack.extend(commit.parent_ids().iter().cloned());
        out.entry(commit.change_id().clone()).or_default().push(commit);
    }
    out
}

fn c09_case(ctx: &Ctx, rng: &mut Rng, test_repo: &TestRepo, log: &RefCell<Vec<Value>>) -> Check {
    let mut tx = test_repo.repo.start_transaction();
    let mut_repo = tx.repo_mut();
    let store = mut_repo.store().clone();
    let mut dag = Dag::new(&store);
    let mut g = StackGen { pool: r#gen::line_pool(rng, 5, false), serial: 0 };
    let n = rng.range(4, 9);
    grow_stack(rng, mut_repo, &mut dag, &mut g, n);

    // Operation and source commit.
    let mut op = [
        Op::Squash { keep_emptied: false },
        Op::Squash { keep_emptied: true },
        Op::Absorb,
        Op::Split,
    ][rng.weighted(&[3, 1, 4, 3])];
    let eligible = |op: Op, dag: &Dag| -> Vec<usize> {
        (1..dag.len())
            .filter(|&i| match op {
                Op::Squash { .. } => dag.nodes[i].parents.len() == 1 && dag.nodes[i].parents[0] != 0,
                Op::Absorb => dag.nodes[i].parents != [0],
                Op::Split => true,
            })
            .collect()
    };
    let mut cands = eligible(op, &dag);
    if cands.is_empty() {
        op = Op::Split;
        cands = eligible(op, &dag);
    }
    let with_children: Vec<usize> = cands.iter().copied().filter(|i| !dag.children(*i).is_empty()).collect();
    let s = if !with_children.is_empty() && rng.chance(2, 3) {
        *rng.pick(&with_children)
    } else {
        *rng.pick(&cands)
    };
    // The source of an absorb or split usually touches several lines and
    // files so that hunks can go to more than one ancestor and path selections
    // can be proper subsets: add such a commit on top of the chosen one.
    let s = if matches!(op, Op::Absorb | Op::Split) && rng.chance(2, 3) {
        add_rich_source(rng, mut_repo, &mut dag, &mut g, s)
    } else {
        s
    };
    // More commits above the source: a child, and a merge of that child with
    // a commit outside the source's descendants (side branch or older commit).
    if rng.chance(2, 3) {
        let x = add_stack_commit(rng, mut_repo, &mut dag, &mut g, &[s], 2);
        if rng.chance(1, 2) {
            let desc = dag.descendants(s);
            let outside: Vec<usize> = (1..dag.len()).filter(|i| !desc.contains(i)).collect();
            if !outside.is_empty() {
                let y = *rng.pick(&outside);
                let d = add_stack_commit(rng, mut_repo, &mut dag, &mut g, &[x, y], 2);
                if rng.bool() {
                    add_stack_commit(rng, mut_repo, &mut dag, &mut g, &[d], 2);
                }
            }
        }
    }
    // A side branch forking off an ancestor of the source.
    if rng.chance(1, 3) {
        let ancestors: Vec<usize> = dag.ancestors(s).into_iter().filter(|a| *a != s).collect();
        let a = *rng.pick(&ancestors);
        add_stack_commit(rng, mut_repo, &mut dag, &mut g, &[a], 2);
    }

    let desc_s = dag.descendants(s);
    let wc = if rng.chance(3, 4) {
        *rng.pick(&desc_s.iter().copied().collect::<Vec<_>>())
    } else {
        rng.range(1, dag.len() - 1)
    };
    mut_repo
        .set_wc_commit(WorkspaceName::DEFAULT.to_owned(), dag.id(wc).clone())
        .unwrap();
    log.borrow_mut()
        .push(json!({"dag": dag_json(&dag), "op": op.name(), "source": s, "working_copy": wc}));

    // Run the operation (each ends with rebase_descendants, as a command does).
    // Let the clock tick first so that a rewrite that changes nothing but the
    // committer timestamp does not collide with the commit it rewrites.
    std::thread::sleep(std::time::Duration::from_millis(2));
    let result = match op {
        Op::Squash { keep_emptied } => do_squash(mut_repo, &dag, s, keep_emptied),
        Op::Absorb => do_absorb(rng, mut_repo, &dag, s),
        Op::Split => do_split(rng, mut_repo, &dag, s, wc == s),
    };
    let Ok(outcome) = result else {
        ctx.count("skipped_commit_id_collision");
        return Ok(());
    };
    log.borrow_mut().push(json!({"outcome": outcome.detail}));

    // ---- Oracle ----
    let name = op.name();
    // Commits that received changes, as dag indices.
    let mut receivers: BTreeSet<usize> = BTreeSet::new();
    for id in &outcome.receiver_ids {
        let idx = dag.idx(id);
        let allowed = idx.is_some_and(|r| {
            dag.is_ancestor(r, s)
                && (r == s || outcome.allowed_receivers.as_ref().is_none_or(|allowed| allowed.contains(&r)))
        });
        ensure!(
            allowed,
            format!("{name}.destination_is_allowed_ancestor"),
            "changes assigned to commit {} (dag index {:?}) which is not an ancestor of the source within the destination set {:?}",
            id.hex(),
            idx,
            outcome.allowed_receivers
        );
        receivers.insert(idx.unwrap());
    }
    let visible = visible_by_change(mut_repo);
    let source_tree_ids = dag.commit(s).tree_ids().clone();
    let desc_r = dag.descendants_of_set(receivers.iter().copied());
    // Descendants of the source reached through a parent that is a rebased
    // side branch (descends from a receiver but not from the source): their
    // parents' trees changed, so their tree goes through a real re-merge.
    let mut via_side_branch: BTreeSet<usize> = BTreeSet::new();
    for &n in &desc_s {
        if n != s
            && dag.nodes[n]
                .parents
                .iter()
                .any(|q| via_side_branch.contains(q) || (!desc_s.contains(q) && desc_r.contains(q)))
        {
            via_side_branch.insert(n);
        }
    }

    // Topmost resulting commit.
    if let Some(change) = &outcome.top_change {
        let commits = visible.get(change).map_or(&[][..], |v| v.as_slice());
        ensure!(
            !commits.is_empty(),
            format!("{name}.topmost_commit_missing"),
            "no visible commit with the change id of the topmost resulting commit"
        );
        for commit in commits {
            ensure!(
                *commit.tree_ids() == source_tree_ids,
                format!("{name}.topmost_tree_changed"),
                "topmost resulting commit {} has tree {:?}, the source had {:?}: {}",
                commit.id().hex(),
                commit.tree_ids(),
                source_tree_ids,
                tree_desc_json(&commit.tree())
            );
        }
        ctx.count("topmost_commit_checked");
    }
    // The source itself and every descendant.
    let mut descendants_checked = 0;
    for &n in &desc_s {
        let commits = visible.get(dag.change_id(n)).map_or(&[][..], |v| v.as_slice());
        if n == s {
            if matches!(op, Op::Split) {
                continue; // the source's change id now names the first half
            }
            if commits.is_empty() {
                ensure!(
                    outcome.source_may_vanish,
                    format!("{name}.source_missing"),
                    "the source commit disappeared"
                );
                ctx.count(&format!("{name}_source_abandoned"));
                continue;
            }
            if matches!(op, Op::Squash { keep_emptied: false }) && outcome.moved {
                // abandoned source: whatever still carries its change id is not "above"
                continue;
            }
        } else {
            ensure!(
                !commits.is_empty(),
                format!("{name}.descendant_missing"),
                "descendant {} of the source is no longer visible",
                n
            );
        }
        let kind = if n == s { "source" } else { "descendant" };
        for commit in commits {
            check_tree_above(ctx, name, &dag, n, via_side_branch.contains(&n), kind, commit)?;
        }
        if n != s {
            descendants_checked += 1;
            if via_side_branch.contains(&n) {
                ctx.count("descendants_checked_via_rebased_side_branch");
            }
            if dag.nodes[n].parents.len() > 1 {
                ctx.count("merge_descendants_checked");
            }
            if dag.commit(n).has_conflict() {
                ctx.count("conflicted_descendants_checked");
            }
        }
    }
    ctx.count_n("descendants_checked", descendants_checked);
    // The working-copy commit, when it is the source or above it.
    let wc_above = desc_s.contains(&wc);
    if wc_above {
        let wc_id = mut_repo.view().get_wc_commit_id(WorkspaceName::DEFAULT).cloned();
        ensure!(wc_id.is_some(), format!("{name}.working_copy_missing"), "workspace lost its working-copy commit");
        let wc_commit = store.get_commit(&wc_id.unwrap()).unwrap();
        check_tree_above(ctx, name, &dag, wc, via_side_branch.contains(&wc), "working_copy", &wc_commit)?;
        ctx.count("working_copy_above_checked");
        if wc == s {
            ctx.count("working_copy_is_source");
        }
    }
    // Commits that are not descendants of a commit that received changes keep
    // their commit id.
    let mut untouched = 0;
    let mut side_rebased = 0;
    for n in 1..dag.len() {
        let commits = visible.get(dag.change_id(n)).map_or(&[][..], |v| v.as_slice());
        if desc_r.contains(&n) {
            if !desc_s.contains(&n)
                && !receivers.contains(&n)
                && commits.iter().any(|c| c.id() != dag.id(n))
            {
                side_rebased += 1;
            }
            continue;
        }
        ensure!(
            commits.len() == 1 && commits[0].id() == dag.id(n),
            format!("{name}.non_descendant_rewritten"),
            "commit {} (dag index {}) is not a descendant of a commit that received changes ({:?}) but is now {:?}",
            dag.id(n).hex(),
            n,
            receivers,
            commits.iter().map(|c| c.id().hex()).collect::<Vec<_>>()
        );
        untouched += 1;
    }
    ctx.count_n("non_descendants_checked", untouched);
    ctx.count_n("side_branch_commits_rebased_not_constrained", side_rebased);

    // Evidence
    ctx.count(&format!("op_{name}"));
    if outcome.moved {
        ctx.count(&format!("op_{name}_moved_changes"));
    }
    if op == Op::Absorb {
        let k = receivers.iter().filter(|r| **r != s).count();
        ctx.count(&format!("absorb_destinations_{}", if k >= 3 { "3+".to_owned() } else { k.to_string() }));
    }
    if dag.nodes[s].parents.len() > 1 {
        ctx.count("source_is_merge");
    }
    if dag.commit(s).has_conflict() {
        ctx.count("source_conflicted");
    }
    if descendants_checked > 0 && outcome.moved {
        ctx.count(&format!("op_{name}_moved_with_descendants"));
    }
    let nontrivial = outcome.moved && (descendants_checked > 0 || wc_above);
    let shape: Vec<(Vec<usize>, String)> = dag
        .nodes
        .iter()
        .map(|n| (n.parents.clone(), ids_str(n.commit.tree_ids())))
        .collect();
    ctx.case(stable_hash(&(name, s, wc, shape, outcome.detail.to_string())), nontrivial);
    if nontrivial && ctx.wants_sample() {
        ctx.sample(|| json!({"steps": log.borrow().clone()}));
    }
    Ok(())
}

pub fn run_c09(ctx: &Ctx) -> i32 {
    ctx.set_rule(
        "Library level. Random stacks (4-9 commits plus extras, deep-biased, 20% merges of which half \
         record the automatic, possibly conflicted, merge; line-structured files with mostly unique lines \
         edited commit by commit, plus symlinks/chmod/deletes/file<->directory swaps; empty descriptions \
         1/5) with a child, a merge of that child with an outside commit, a side branch off an ancestor, \
         and a working-copy commit usually at or above the source. Operations: squash_commits of a whole \
         single-parent commit into its parent (with and without keep_emptied), split_hunks_to_trees + \
         absorb_hunks (whole commit or a partial selected tree, optional path filter, all or a random \
         subset of ancestors as destinations), and a sequential split spelled with the library calls \
         cmd_split makes (restore_tree selection of random paths, two rewrite_commit writes, \
         transform_descendants with replace_parent); each followed by rebase_descendants. Commits are \
         tracked by change id through an own walk from the visible heads. Non-trivial: the operation \
         moved changes and the source has at least one descendant or the working copy at/above it. \
         Distinct: by (operation, source, working copy, graph shape with tree ids, selection/outcome).",
    );
    ctx.assume("the set of commits that received changes is taken from split_hunks_to_trees' own plan (checked to be ancestors within the destination set), not from an independent annotate model");
    let n = ctx.tier().pick(15_000, 200_000);
    par_cases(ctx, n, threads(), |i, cs, rng| {
        let log: RefCell<Vec<Value>> = RefCell::new(vec![]);
        run_case_tolerant(
            ctx,
            i,
            cs,
            || json!({"steps": log.borrow().clone()}),
            || with_repo(|test_repo| c09_case(ctx, rng, test_repo, &log)),
        );
    });
    ctx.finish(300)
}
