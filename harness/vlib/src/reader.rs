//! Read-only access to a repository on disk through jj-lib, for offline
//! oracles over the operation log. Never snapshots, never writes.

use std::collections::BTreeMap;
use std::collections::BTreeSet;
use std::collections::HashSet;
use std::path::Path;
use std::path::PathBuf;
use std::sync::Arc;

use futures::StreamExt as _;
use jj_lib::backend::CommitId;
use jj_lib::backend::TreeValue;
use jj_lib::commit::Commit;
use jj_lib::default_backend_factories::default_backend_factories;
use jj_lib::object_id::ObjectId as _;
use jj_lib::op_store::OperationId;
use jj_lib::op_store::RefTarget;
use jj_lib::operation::Operation;
use jj_lib::repo::ReadonlyRepo;
use jj_lib::repo::Repo as _;
use jj_lib::repo::RepoLoader;
use pollster::FutureExt as _;

use crate::model::read_file_bytes;

pub struct RepoReader {
    pub loader: RepoLoader,
    pub repo_path: PathBuf,
}

/// Resolves `<workspace>/.jj/repo` (a directory, or a file naming the main repo).
pub fn repo_dir_of_workspace(workspace: &Path) -> PathBuf {
    let p = workspace.join(".jj").join("repo");
    if p.is_file()
        && let Ok(text) = std::fs::read_to_string(&p)
    {
        let target = PathBuf::from(text.trim());
        if target.is_absolute() {
            return target;
        }
        return workspace.join(".jj").join(target);
    }
    p
}

#[derive(Clone, Debug, PartialEq, Eq, Default)]
pub struct ViewSummary {
    pub heads: BTreeSet<String>,
    /// name -> (adds, removes) as hex ids ("" for absent)
    pub bookmarks: BTreeMap<String, (Vec<String>, Vec<String>)>,
    pub tags: BTreeMap<String, (Vec<String>, Vec<String>)>,
    /// "name@remote" -> ((adds, removes), tracked)
    pub remote_bookmarks: BTreeMap<String, ((Vec<String>, Vec<String>), bool)>,
    pub wc_commits: BTreeMap<String, String>,
}

fn target_summary(t: &RefTarget) -> (Vec<String>, Vec<String>) {
    let adds = t.as_merge().adds().map(|i| i.as_ref().map(|c| c.hex()).unwrap_or_default()).collect();
    let removes = t.as_merge().removes().map(|i| i.as_ref().map(|c| c.hex()).unwrap_or_default()).collect();
    (adds, removes)
}

impl RepoReader {
    pub fn open(repo_path: &Path) -> Result<Self, String> {
        let settings = testutils::user_settings();
        let loader = RepoLoader::init_from_file_system(&settings, repo_path, &default_backend_factories())
            .map_err(|e| format!("cannot open repository at {}: {e}", repo_path.display()))?;
        Ok(Self { loader, repo_path: repo_path.to_owned() })
    }

    pub fn op_heads(&self) -> Result<Vec<OperationId>, String> {
        self.loader
            .op_heads_store()
            .get_op_heads()
            .block_on()
            .map_err(|e| format!("cannot read op heads: {e}"))
    }

    pub fn operation(&self, id: &OperationId) -> Result<Operation, String> {
        self.loader
            .load_operation(id)
            .block_on()
            .map_err(|e| format!("cannot read operation {}: {e}", id.hex()))
    }

    /// All operations reachable from the current op heads (heads first, BFS).
    pub fn all_ops(&self) -> Result<Vec<Operation>, String> {
        let mut out = vec![];
        let mut seen = HashSet::new();
        let mut queue: std::collections::VecDeque<OperationId> = self.op_heads()?.into();
        while let Some(id) = queue.pop_front() {
            if !seen.insert(id.clone()) {
                continue;
            }
            let op = self.operation(&id)?;
            for p in op.parent_ids() {
                queue.push_back(p.clone());
            }
            out.push(op);
        }
        Ok(out)
    }

    pub fn repo_at(&self, op: &Operation) -> Result<Arc<ReadonlyRepo>, String> {
        self.loader
            .load_at(op)
            .block_on()
            .map_err(|e| format!("cannot load repo at {}: {e}", op.id().hex()))
    }

    pub fn view_summary(&self, op: &Operation) -> Result<ViewSummary, String> {
        let repo = self.repo_at(op)?;
        let view = repo.view();
        let mut s = ViewSummary::default();
        s.heads = view.heads().iter().map(|h| h.hex()).collect();
        for (name, target) in view.local_bookmarks() {
            s.bookmarks.insert(name.as_str().to_owned(), target_summary(target));
        }
        for (name, target) in view.local_tags() {
            s.tags.insert(name.as_str().to_owned(), target_summary(target));
        }
        for (symbol, remote_ref) in view.all_remote_bookmarks() {
            s.remote_bookmarks.insert(
                format!("{}@{}", symbol.name.as_str(), symbol.remote.as_str()),
                (target_summary(&remote_ref.target), remote_ref.is_tracked()),
            );
        }
        for (ws, id) in view.wc_commit_ids() {
            s.wc_commits.insert(ws.as_str().to_owned(), id.hex());
        }
        Ok(s)
    }

    pub fn commit(&self, repo: &Arc<ReadonlyRepo>, id: &CommitId) -> Result<Commit, String> {
        repo.store()
            .get_commit(id)
            .map_err(|e| format!("cannot read commit {}: {e}", id.hex()))
    }

    /// path -> every file content / symlink target that any term of the
    /// commit's (possibly conflicted) tree has at that path.
    pub fn commit_files(
        &self,
        repo: &Arc<ReadonlyRepo>,
        commit: &Commit,
    ) -> Result<BTreeMap<String, Vec<Vec<u8>>>, String> {
        let tree = commit.tree();
        let mut out: BTreeMap<String, Vec<Vec<u8>>> = BTreeMap::new();
        let mut stream = tree.entries();
        for (path, value) in &mut stream {
            let value = value.map_err(|e| format!("cannot read tree entry {path:?}: {e}"))?;
            for term in value.iter().flatten() {
                let bytes = match term {
                    TreeValue::File { id, .. } => read_file_bytes(repo.store(), &path, id),
                    TreeValue::Symlink(id) => repo
                        .store()
                        .read_symlink(&path, id)
                        .block_on()
                        .map_err(|e| format!("cannot read symlink {path:?}: {e}"))?
                        .into_bytes(),
                    _ => continue,
                };
                out.entry(path.as_internal_file_string().to_owned()).or_default().push(bytes);
            }
        }
        Ok(out)
    }

    /// Checks that every commit reachable from the view heads of `op` can be
    /// read, returns how many were read.
    pub fn check_commits_readable(&self, op: &Operation) -> Result<usize, String> {
        let repo = self.repo_at(op)?;
        let mut seen = HashSet::new();
        let mut stack: Vec<CommitId> = repo.view().heads().iter().cloned().collect();
        for (_, id) in repo.view().wc_commit_ids() {
            stack.push(id.clone());
        }
        while let Some(id) = stack.pop() {
            if !seen.insert(id.clone()) {
                continue;
            }
            let commit = self.commit(&repo, &id)?;
            // touch the tree too
            let tree = commit.tree();
            for (path, value) in tree.entries() {
                value.map_err(|e| format!("commit {}: unreadable tree entry {path:?}: {e}", id.hex()))?;
            }
            stack.extend(commit.parent_ids().iter().cloned());
        }
        Ok(seen.len())
    }
}

#[allow(dead_code)]
fn _stream_unused() {
    let _ = futures::stream::empty::<()>().next();
}
