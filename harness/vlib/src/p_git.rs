//! C34: Git import and export converge without dropping updates.
//! C45: Pushing never overwrites remote changes jj has not seen.
//!
//! Both engines drive the hooked `jj` binary and plain `git` in a hermetic
//! environment (one environment per generated sequence, copied from a
//! template built once per process) and compare what jj and Git actually
//! contain with a per-name reference model.
//!
//! Independence: the expected values are computed from the harness' own model
//! (last synced `S`, jj value `J`, git value `G` per name; lease rule per
//! pushed name), ancestry is decided by a graph search over `git rev-list
//! --parents` output, Git's refs are read from the ref files (cross-checked
//! with `git for-each-ref`), jj's view is read through the read-only
//! `RepoReader`. Nothing is predicted by calling `import_refs` /
//! `export_refs` / `push_refs` / `merge_ref_targets`.
//!
//! Soundness notes (where less than the DESIGN oracle is enforced, and why):
//! * C34: a bookmark conflict is compared by its adds and term count; the
//!   remove term is not compared (the property only asks for "a conflict
//!   containing both"). An already conflicted bookmark hit by another git
//!   change is checked with the C12 reference (counting rule, else terms may
//!   only disappear in ancestry-justified (add, remove) pairs).
//! * C34, colocated: a command exports only when it commits a transaction
//!   (the implicit import does so only if git changed), so read-only commands
//!   are not required to export; convergence points use an explicit
//!   `jj git export --ignore-working-copy` after the implicit import.
//! * C34: jj bookmark commands that jj refuses are not judged.
//! * C45: if the lease is stale but the remote already sits at the local
//!   target, git reports "up to date" and jj records that position; nothing
//!   is overwritten, so only "remote and local bookmark unchanged, record is
//!   the old one or the remote's real position" is enforced.
//! * C45: "reports the rejection" = non-zero exit or a rejection message.
//! * C45: which bookmarks jj attempts is read from its own announcement
//!   (`Changes to push to origin:`); "accepted => remote and record at the
//!   local target" is enforced only for those.

use std::collections::BTreeMap;
use std::collections::BTreeSet;
use std::collections::HashMap;
use std::collections::HashSet;
use std::path::Path;
use std::path::PathBuf;

use jj_lib::object_id::ObjectId as _;
use serde_json::Value;
use serde_json::json;

use crate::common::*;
use crate::driver::*;
use crate::p_merge::Den;
use crate::p_merge::den_add;
use crate::p_merge::den_terms;
use crate::reader::RepoReader;
use crate::reader::ViewSummary;
use crate::reader::repo_dir_of_workspace;

// ===========================================================================
// Shared plumbing

/// Generous per-command watchdog; its firing is inconclusive, never a verdict.
const WATCHDOG: std::time::Duration = std::time::Duration::from_secs(900);

type Id = String;
/// Interleaved merge terms `[add, remove, add, ...]`, `None` = absent.
/// Length 1 = resolved (`[None]` = no such bookmark).
type Tgt = Vec<Option<Id>>;

enum CaseErr {
    Viol(Fail),
    /// Harness-side problem (setup failed, jj crashed where the oracle needs
    /// its output, timeout): inconclusive, never a violation.
    Harness(String),
}

type CaseResult<T> = Result<T, CaseErr>;

fn harness<T>(msg: impl Into<String>) -> CaseResult<T> {
    Err(CaseErr::Harness(msg.into()))
}

macro_rules! vensure {
    ($cond:expr, $clause:expr, $($arg:tt)*) => {
        if !($cond) {
            return Err(CaseErr::Viol(Fail {
                clause: ($clause).to_string(),
                message: format!($($arg)*),
            }));
        }
    };
}

fn short(id: &Option<Id>) -> String {
    match id {
        None => "-".to_owned(),
        Some(s) => s.chars().take(8).collect(),
    }
}

fn show_tgt(t: &Tgt) -> String {
    if t.len() == 1 {
        short(&t[0])
    } else {
        let parts: Vec<String> = t
            .iter()
            .enumerate()
            .map(|(i, x)| format!("{}{}", if i % 2 == 0 { "+" } else { "-" }, short(x)))
            .collect();
        format!("conflict[{}]", parts.join(" "))
    }
}

fn resolved(t: &Tgt) -> bool {
    t.len() == 1
}

fn adds_sorted(t: &Tgt) -> Vec<Option<Id>> {
    let mut a: Vec<Option<Id>> = t.iter().step_by(2).cloned().collect();
    a.sort();
    a
}

/// Runs jj; a timeout, a signal or a panic exit is a harness-level problem
/// (the oracle cannot see the values it needs), any other exit is returned.
fn jj_any(env: &JjEnv, cwd: &Path, args: &[&str], extra: &[(&str, &str)]) -> CaseResult<Output> {
    let out = env.run_env(cwd, args, extra);
    if out.timed_out || out.signal.is_some() || out.code == Some(101) || out.code.is_none() {
        return harness(format!("jj {args:?} crashed or timed out: {}", out.brief()));
    }
    Ok(out)
}

fn jj_ok(env: &JjEnv, cwd: &Path, args: &[&str]) -> CaseResult<Output> {
    let out = jj_any(env, cwd, args, &[])?;
    if !out.success() {
        return harness(format!("jj {args:?} failed: {}", out.brief()));
    }
    Ok(out)
}

fn git_any(env: &JjEnv, cwd: &Path, args: &[&str]) -> CaseResult<Output> {
    let out = env.git(cwd, args);
    if out.timed_out || out.code.is_none() {
        return harness(format!("git {args:?} crashed or timed out: {}", out.brief()));
    }
    Ok(out)
}

fn git_ok(env: &JjEnv, cwd: &Path, args: &[&str]) -> CaseResult<Output> {
    let out = git_any(env, cwd, args)?;
    if !out.success() {
        return harness(format!("git {args:?} failed: {}", out.brief()));
    }
    Ok(out)
}

fn parse_ref_lines(text: &str) -> BTreeMap<String, Id> {
    let mut map = BTreeMap::new();
    for line in text.lines() {
        if let Some((name, id)) = line.rsplit_once(' ')
            && let Some(short_name) = name.strip_prefix("refs/heads/")
        {
            map.insert(short_name.to_owned(), id.to_owned());
        }
    }
    map
}

const REF_FORMAT: &str = "--format=%(refname) %(objectname)";

/// `refs/heads/*` of a git directory, through git itself.
fn read_git_heads_via_git(env: &JjEnv, git_dir: &Path) -> CaseResult<BTreeMap<String, Id>> {
    let out = git_ok(env, git_dir, &["for-each-ref", REF_FORMAT, "refs/heads"])?;
    Ok(parse_ref_lines(&out.stdout))
}

/// `refs/heads/*` of a git directory: short name -> object id. Reads the ref
/// files directly (loose refs override `packed-refs`), which is much cheaper
/// than a subprocess; cross-checked against `git for-each-ref` at every
/// convergence point / push.
fn read_git_heads(_env: &JjEnv, git_dir: &Path) -> CaseResult<BTreeMap<String, Id>> {
    let mut map = BTreeMap::new();
    if let Ok(text) = std::fs::read_to_string(git_dir.join("packed-refs")) {
        for line in text.lines() {
            if line.starts_with('#') || line.starts_with('^') {
                continue;
            }
            if let Some((id, name)) = line.split_once(' ')
                && let Some(short_name) = name.trim().strip_prefix("refs/heads/")
            {
                map.insert(short_name.to_owned(), id.to_owned());
            }
        }
    }
    fn walk(dir: &Path, rel: &str, map: &mut BTreeMap<String, Id>) -> Result<(), String> {
        let Ok(rd) = std::fs::read_dir(dir) else { return Ok(()) };
        for e in rd.flatten() {
            let name = e.file_name().to_string_lossy().into_owned();
            let rel_name = if rel.is_empty() { name.clone() } else { format!("{rel}/{name}") };
            let path = e.path();
            if path.is_dir() {
                walk(&path, &rel_name, map)?;
            } else if name.ends_with(".lock") {
                return Err(format!("ref lock file left behind: {}", path.display()));
            } else {
                let text = std::fs::read_to_string(&path).map_err(|e| format!("{}: {e}", path.display()))?;
                let text = text.trim();
                if text.len() == 40 && text.chars().all(|c| c.is_ascii_hexdigit()) {
                    map.insert(rel_name, text.to_owned());
                } else {
                    return Err(format!("unexpected content of ref file {}: {text:?}", path.display()));
                }
            }
        }
        Ok(())
    }
    match walk(&git_dir.join("refs").join("heads"), "", &mut map) {
        Ok(()) => Ok(map),
        Err(e) => harness(e),
    }
}

fn cross_check_heads(env: &JjEnv, git_dir: &Path) -> CaseResult<BTreeMap<String, Id>> {
    let a = read_git_heads(env, git_dir)?;
    let b = read_git_heads_via_git(env, git_dir)?;
    if a != b {
        return harness(format!("ref file reader {a:?} disagrees with git for-each-ref {b:?}"));
    }
    Ok(a)
}

struct JjState {
    op_heads: BTreeSet<String>,
    view: ViewSummary,
}

fn read_jj(ws: &Path) -> CaseResult<JjState> {
    let reader = match RepoReader::open(&repo_dir_of_workspace(ws)) {
        Ok(r) => r,
        Err(e) => return harness(e),
    };
    let heads = match reader.op_heads() {
        Ok(h) => h,
        Err(e) => return harness(e),
    };
    if heads.len() != 1 {
        return harness(format!("{} op heads after sequential commands", heads.len()));
    }
    let op = match reader.operation(&heads[0]) {
        Ok(o) => o,
        Err(e) => return harness(e),
    };
    let view = match reader.view_summary(&op) {
        Ok(v) => v,
        Err(e) => return harness(e),
    };
    Ok(JjState { op_heads: heads.iter().map(|h| h.hex()).collect(), view })
}

fn tgt_of(summary: Option<&(Vec<String>, Vec<String>)>) -> Tgt {
    let Some((adds, removes)) = summary else {
        return vec![None];
    };
    let conv = |s: &String| if s.is_empty() { None } else { Some(s.clone()) };
    let mut out = vec![];
    for (i, a) in adds.iter().enumerate() {
        if i > 0 {
            out.push(removes.get(i - 1).and_then(conv));
        }
        out.push(conv(a));
    }
    if out.is_empty() {
        out.push(None);
    }
    out
}

fn local_bookmarks(view: &ViewSummary) -> BTreeMap<String, Tgt> {
    view.bookmarks.iter().map(|(n, s)| (n.clone(), tgt_of(Some(s)))).collect()
}

/// Own ancestry: parents as reported by `git rev-list --parents`.
#[derive(Clone, Default, Debug)]
struct Anc {
    parents: HashMap<Id, Vec<Id>>,
}

impl Anc {
    fn load(env: &JjEnv, git_dir: &Path, tips: &[Id]) -> CaseResult<Self> {
        let mut args = vec!["rev-list", "--parents"];
        args.extend(tips.iter().map(|s| s.as_str()));
        let out = git_ok(env, git_dir, &args)?;
        let mut parents = HashMap::new();
        for line in out.stdout.lines() {
            let mut it = line.split_whitespace();
            if let Some(id) = it.next() {
                parents.insert(id.to_owned(), it.map(|s| s.to_owned()).collect());
            }
        }
        Ok(Self { parents })
    }

    fn knows(&self, id: &Id) -> bool {
        self.parents.contains_key(id)
    }

    /// `a` is an ancestor of, or equal to, `b`.
    fn is_anc(&self, a: &Id, b: &Id) -> bool {
        let mut stack = vec![b.clone()];
        let mut seen = HashSet::new();
        while let Some(x) = stack.pop() {
            if &x == a {
                return true;
            }
            if !seen.insert(x.clone()) {
                continue;
            }
            if let Some(ps) = self.parents.get(&x) {
                stack.extend(ps.iter().cloned());
            }
        }
        false
    }
}

// ---------------------------------------------------------------------------
// Reference for the documented ref-merge rule (same rule the C12 monitor
// enforces on `merge_ref_targets`; re-stated here over commit ids as strings).

#[derive(Debug, Clone)]
enum Expect {
    /// Exactly these terms.
    Exact(Tgt),
    /// Must stay conflicted with exactly these adds (removes are not compared).
    Conflict { adds: Vec<Option<Id>>, terms: usize },
    /// Conflicted input: `f` is the flattened denotation; the result may drop
    /// (add, remove) pairs only by the ancestry rule.
    Pairs { f: Den<Option<Id>> },
}

/// Three non-conflicted terms: one side unchanged -> the other; both agree ->
/// that; both present, one a descendant of the other and the base absent or
/// an ancestor of the older one -> the descendant; otherwise a conflict whose
/// adds are both sides.
fn simple_merge(j: &Option<Id>, s: &Option<Id>, g: &Option<Id>, anc: &Anc) -> (Expect, &'static str) {
    if j == s {
        return (Expect::Exact(vec![g.clone()]), "jj_unchanged");
    }
    if g == s {
        return (Expect::Exact(vec![j.clone()]), "git_unchanged");
    }
    if j == g {
        return (Expect::Exact(vec![j.clone()]), "both_agree");
    }
    if let (Some(l), Some(r)) = (j, g) {
        let base_below = |x: &Id| match s {
            None => true,
            Some(b) => anc.is_anc(b, x),
        };
        if anc.is_anc(l, r) && base_below(l) {
            return (Expect::Exact(vec![g.clone()]), "fast_forward_to_git");
        }
        if anc.is_anc(r, l) && base_below(r) {
            return (Expect::Exact(vec![j.clone()]), "fast_forward_to_jj");
        }
        let mut adds = vec![j.clone(), g.clone()];
        adds.sort();
        return (Expect::Conflict { adds, terms: 3 }, "conflict_diverged");
    }
    let mut adds = vec![j.clone(), g.clone()];
    adds.sort();
    (Expect::Conflict { adds, terms: 3 }, "conflict_delete_vs_move")
}

fn den_resolve(d: &Den<Option<Id>>) -> Option<Option<Id>> {
    if d.len() == 1 {
        let (v, n) = d.iter().next().unwrap();
        (*n == 1).then(|| v.clone())
    } else if d.len() == 2 && d.values().sum::<i64>() == 1 {
        d.iter().find(|(_, n)| **n > 0).map(|(v, _)| v.clone())
    } else {
        None
    }
}

/// `f - den(result)` must decompose into pairs (+a, -r): `a` present, `r`
/// absent or an ancestor of `a`, `a` an ancestor-or-equal of a remaining add.
fn pairs_decompose(f: &Den<Option<Id>>, result: &Tgt, anc: &Anc) -> Result<usize, String> {
    let mut d = f.clone();
    den_add(&mut d, &den_terms(result), -1);
    let mut pos: Vec<Option<Id>> = vec![];
    let mut neg: Vec<Option<Id>> = vec![];
    for (v, c) in &d {
        for _ in 0..c.unsigned_abs() {
            if *c > 0 {
                pos.push(v.clone());
            } else {
                neg.push(v.clone());
            }
        }
    }
    if pos.len() != neg.len() {
        return Err(format!("terms were not dropped in (add, remove) pairs: adds {pos:?}, removes {neg:?}"));
    }
    let remaining: Vec<Id> = result.iter().step_by(2).flatten().cloned().collect();
    for p in &pos {
        match p {
            None => return Err("an absent add was dropped".to_owned()),
            Some(a) => {
                if !remaining.iter().any(|t| anc.is_anc(a, t)) {
                    return Err(format!("add {a} was dropped although no remaining add is a descendant of it"));
                }
            }
        }
    }
    fn rec(i: usize, pos: &[Option<Id>], neg: &[Option<Id>], used: &mut Vec<bool>, anc: &Anc) -> bool {
        if i == pos.len() {
            return true;
        }
        let a = pos[i].as_ref().unwrap();
        for j in 0..neg.len() {
            if used[j] {
                continue;
            }
            let ok = match &neg[j] {
                None => true,
                Some(r) => anc.is_anc(r, a),
            };
            if ok {
                used[j] = true;
                if rec(i + 1, pos, neg, used, anc) {
                    return true;
                }
                used[j] = false;
            }
        }
        false
    }
    let mut used = vec![false; neg.len()];
    if !rec(0, &pos, &neg, &mut used, anc) {
        return Err(format!("dropped adds {pos:?} cannot be paired with dropped removes {neg:?}"));
    }
    Ok(pos.len())
}

/// Expected local bookmark after importing a git-side change `s -> g`.
fn import_expect(j: &Tgt, s: &Option<Id>, g: &Option<Id>, anc: &Anc) -> (Expect, &'static str) {
    if resolved(j) {
        return simple_merge(&j[0], s, g, anc);
    }
    let mut f = den_terms(j);
    den_add(&mut f, &den_terms(&[s.clone()]), -1);
    den_add(&mut f, &den_terms(&[g.clone()]), 1);
    if let Some(v) = den_resolve(&f) {
        (Expect::Exact(vec![v]), "conflicted_jj.resolved_by_counting")
    } else {
        (Expect::Pairs { f }, "conflicted_jj.stays_or_pairs")
    }
}

fn check_expect(actual: &Tgt, expect: &Expect, anc: &Anc) -> Result<(), String> {
    match expect {
        Expect::Exact(t) => {
            if actual == t {
                Ok(())
            } else {
                Err(format!("expected {}, jj has {}", show_tgt(t), show_tgt(actual)))
            }
        }
        Expect::Conflict { adds, terms } => {
            if actual.len() == *terms && &adds_sorted(actual) == adds {
                Ok(())
            } else {
                Err(format!(
                    "expected a conflict with adds {:?}, jj has {}",
                    adds.iter().map(short).collect::<Vec<_>>(),
                    show_tgt(actual)
                ))
            }
        }
        Expect::Pairs { f } => {
            if actual.len() % 2 != 1 {
                return Err(format!("even number of terms: {}", show_tgt(actual)));
            }
            pairs_decompose(f, actual, anc).map(|_| ()).map_err(|why| format!("{why}; jj has {}", show_tgt(actual)))
        }
    }
}

fn finish_case(ctx: &Ctx, index: u64, cs: u64, describe: impl Fn() -> Value, result: CaseResult<()>) {
    match result {
        Ok(()) => {}
        Err(CaseErr::Viol(f)) => {
            run_case(ctx, index, cs, describe, || Err(f));
        }
        Err(CaseErr::Harness(msg)) => {
            ctx.count("harness_errors");
            ctx.inconclusive(&format!("case {index} (seed {cs}): {}", truncate(&msg, 1500)));
        }
    }
}

fn run_guarded<T>(ctx: &Ctx, f: impl FnOnce() -> CaseResult<T>) -> CaseResult<T> {
    match catch(f) {
        Caught::Ok(r) => r,
        Caught::SubjectPanic { location, message } => {
            // jj runs in child processes; an in-process panic comes from the
            // read-only reader (jj-lib) or the harness: inconclusive.
            ctx.count("reader_panics");
            harness(format!("panic at {location}: {message}"))
        }
        Caught::HarnessPanic { location, message } => harness(format!("harness panic at {location}: {message}")),
    }
}

// ===========================================================================
// C34

const C34_NAMES: &[&str] = &["main", "dev", "feat/x", "feat/y", "rel-1.0", "master", "x.y"];

struct Template34 {
    path: PathBuf,
    command_number: i64,
    commits: Vec<(String, Id)>,
    anc: Anc,
}

fn git_dir_of(ws: &Path, colocated: bool) -> PathBuf {
    if colocated { ws.join(".git") } else { ws.join(".jj").join("repo").join("store").join("git") }
}

fn build_template34(base: &Path, colocated: bool) -> CaseResult<Template34> {
    let path = base.join(if colocated { "tmpl-colocated" } else { "tmpl-plain" });
    std::fs::create_dir_all(&path).map_err(|e| CaseErr::Harness(e.to_string()))?;
    let mut env = JjEnv::new(&path);
    env.timeout = WATCHDOG;
    let root = env.root.clone();
    if colocated {
        jj_ok(&env, &root, &["git", "init", "--colocate", "ws"])?;
    } else {
        jj_ok(&env, &root, &["git", "init", "ws"])?;
    }
    let ws = root.join("ws");
    // a0 <- a1 <- a2 ; a0 <- b1 ; c0 <- c1 (unrelated root) ; working copy on the root.
    jj_ok(&env, &ws, &["new", "root()", "-m", "a0"])?;
    jj_ok(&env, &ws, &["new", "-m", "a1"])?;
    jj_ok(&env, &ws, &["new", "-m", "a2"])?;
    jj_ok(&env, &ws, &["new", "@--", "-m", "b1"])?;
    jj_ok(&env, &ws, &["new", "root()", "-m", "c0"])?;
    jj_ok(&env, &ws, &["new", "-m", "c1"])?;
    jj_ok(&env, &ws, &["new", "root()"])?;
    let out = jj_ok(
        &env,
        &ws,
        &["log", "--no-graph", "-r", "all()", "-T", "commit_id ++ \" \" ++ description.first_line() ++ \"\\n\""],
    )?;
    let mut commits = vec![];
    for line in out.stdout.lines() {
        if let Some((id, label)) = line.split_once(' ')
            && !label.trim().is_empty()
        {
            commits.push((label.trim().to_owned(), id.to_owned()));
        }
    }
    commits.sort();
    if commits.len() != 6 {
        return harness(format!("template has {} labelled commits: {:?}", commits.len(), commits));
    }
    let ids: Vec<Id> = commits.iter().map(|(_, id)| id.clone()).collect();
    let anc = Anc::load(&env, &git_dir_of(&ws, colocated), &ids)?;
    for id in &ids {
        if !anc.knows(id) {
            return harness(format!("commit {id} is not in the git object store"));
        }
    }
    Ok(Template34 { path: env.root.clone(), command_number: env.command_number.get(), commits, anc })
}

#[derive(Clone, Debug)]
struct NameState {
    /// Last value jj and git agreed on (what jj remembers of git).
    s: Option<Id>,
    j: Tgt,
    g: Option<Id>,
}

impl Default for NameState {
    fn default() -> Self {
        Self { s: None, j: vec![None], g: None }
    }
}

#[derive(Clone, Copy, PartialEq, Eq)]
enum ExportMode {
    No,
    Yes,
    IfImportChanged,
}

#[derive(Default)]
struct Model34 {
    names: BTreeMap<String, NameState>,
}

/// What the oracle expects for one name after a step.
struct Expected34 {
    j: Expect,
    /// Clause (violation signature) if the bookmark is not as expected.
    clause_j: String,
    /// Clause if the git ref changed although only an import ran.
    clause_g: String,
}

struct World34<'a> {
    ctx: &'a Ctx,
    env: JjEnv,
    ws: PathBuf,
    git_dir: PathBuf,
    colocated: bool,
    anc: &'a Anc,
    model: Model34,
    log: Vec<String>,
    nontrivial: bool,
}

impl World34<'_> {
    fn tag(&self) -> &'static str {
        if self.colocated { "colocated" } else { "plain" }
    }

    fn universe(&self, jj: &BTreeMap<String, Tgt>, git: &BTreeMap<String, Id>) -> BTreeSet<String> {
        let mut u: BTreeSet<String> = self.model.names.keys().cloned().collect();
        u.extend(jj.keys().cloned());
        u.extend(git.keys().cloned());
        u
    }

    fn state(&self, name: &str) -> NameState {
        self.model.names.get(name).cloned().unwrap_or_default()
    }

    /// Model of `jj git import` for every name; returns the expectation on `J`.
    fn model_import(&mut self, expects: &mut BTreeMap<String, Expected34>) {
        let names: Vec<String> = self.model.names.keys().cloned().collect();
        for name in names {
            let st = self.state(&name);
            let (cat, expect, branch) = if st.g == st.s {
                let cat = if st.j == vec![st.s.clone()] { "unchanged" } else { "only_jj_changed" };
                (cat, Expect::Exact(st.j.clone()), "kept")
            } else if st.j == vec![st.s.clone()] {
                ("only_git_changed", Expect::Exact(vec![st.g.clone()]), "jj_follows_git")
            } else {
                let (e, b) = import_expect(&st.j, &st.s, &st.g, self.anc);
                ("both_changed", e, b)
            };
            if cat != "unchanged" {
                self.ctx.count(&format!("import.{}.{cat}.{branch}", self.tag()));
                self.nontrivial = true;
            }
            if st.g.is_none() && st.s.is_some() {
                self.ctx.count("import.git_deletion_seen");
            }
            // Provisional model value; replaced by the observed one after the check.
            let new_j = match &expect {
                Expect::Exact(t) => t.clone(),
                Expect::Conflict { .. } | Expect::Pairs { .. } => vec![st.j[0].clone(), st.s.clone(), st.g.clone()],
            };
            let entry = self.model.names.get_mut(&name).unwrap();
            entry.j = new_j;
            entry.s = st.g.clone();
            expects.insert(
                name.clone(),
                Expected34 {
                    j: expect,
                    clause_j: format!("import.{cat}.{branch}"),
                    clause_g: "import.git_ref_untouched".to_owned(),
                },
            );
        }
    }

    /// Model of `jj git export` given the (observed or modelled) `J`.
    fn model_export(&mut self, clauses: &mut BTreeMap<String, String>) {
        let tag = self.tag();
        let ctx = self.ctx;
        let names: Vec<String> = self.model.names.keys().cloned().collect();
        for name in names {
            let st = self.state(&name);
            if !resolved(&st.j) {
                ctx.count(&format!("export.{tag}.conflicted_bookmark_skipped"));
                clauses.insert(name, "export.conflicted_bookmark.git_ref_unchanged".to_owned());
                continue;
            }
            let j = st.j[0].clone();
            if j == st.s {
                clauses.insert(name, "export.jj_unchanged.git_ref_untouched".to_owned());
                continue;
            }
            self.nontrivial = true;
            let entry = self.model.names.get_mut(&name).unwrap();
            if st.g == st.s {
                // only jj changed: propagated
                if j.is_none() {
                    ctx.count("export.jj_deletion_propagated");
                }
                ctx.count(&format!("export.{tag}.only_jj_changed"));
                entry.g = j.clone();
                entry.s = j;
                clauses.insert(name, "export.only_jj_changed.git_follows_jj".to_owned());
            } else if st.g == j {
                ctx.count(&format!("export.{tag}.both_changed_same_value"));
                entry.s = j;
                clauses.insert(name, "export.both_agree.git_ref_kept".to_owned());
            } else {
                ctx.count(&format!("export.{tag}.both_changed_git_kept"));
                clauses.insert(name, "export.both_changed.git_ref_not_overwritten".to_owned());
            }
        }
    }

    fn observe(&self) -> CaseResult<(JjState, BTreeMap<String, Tgt>, BTreeMap<String, Id>)> {
        let jj = read_jj(&self.ws)?;
        let bookmarks = local_bookmarks(&jj.view);
        let git = read_git_heads(&self.env, &self.git_dir)?;
        Ok((jj, bookmarks, git))
    }

    fn ensure_names(&mut self, jj: &BTreeMap<String, Tgt>, git: &BTreeMap<String, Id>) {
        for n in self.universe(jj, git) {
            self.model.names.entry(n).or_default();
        }
    }

    /// Compares the observed `J` with the expectations, then adopts it.
    fn check_j(
        &mut self,
        step: &str,
        jj: &BTreeMap<String, Tgt>,
        expects: &BTreeMap<String, Expected34>,
    ) -> CaseResult<()> {
        for (name, exp) in expects {
            let actual = jj.get(name).cloned().unwrap_or_else(|| vec![None]);
            if let Err(why) = check_expect(&actual, &exp.j, self.anc) {
                vensure!(false, &exp.clause_j, "{} step {step}: bookmark {name:?}: {why}; log: {:?}", self.tag(), self.log);
            }
            if !resolved(&actual) {
                self.ctx.count(&format!("conflicted_bookmark_observed.{}", self.tag()));
                if actual.iter().step_by(2).any(|a| a.is_none()) {
                    self.ctx.count("conflicted_bookmark_with_absent_side");
                }
            }
            self.model.names.get_mut(name).unwrap().j = actual;
        }
        Ok(())
    }

    fn check_g(&mut self, step: &str, git: &BTreeMap<String, Id>, clauses: &BTreeMap<String, String>) -> CaseResult<()> {
        let names: Vec<String> = self.model.names.keys().cloned().collect();
        for name in names {
            let expected = self.state(&name).g;
            let actual = git.get(&name).cloned();
            let clause = clauses.get(&name).cloned().unwrap_or_else(|| "git_ref.unexpected_change".to_owned());
            vensure!(
                actual == expected,
                &clause,
                "{} step {step}: git branch {name:?} is {} but must be {} (jj bookmark: {}); log: {:?}",
                self.tag(),
                short(&actual),
                short(&expected),
                show_tgt(&self.state(&name).j),
                self.log
            );
        }
        Ok(())
    }

    fn git_changed(&self) -> bool {
        self.model.names.values().any(|st| st.g != st.s)
    }

    /// Checks the state after an explicit import / export (plain repo) or
    /// after the implicit synchronisation of a colocated command.
    fn sync_check(&mut self, step: &str, import: bool, export: ExportMode) -> CaseResult<()> {
        let (_, jj, git) = self.observe()?;
        self.ensure_names(&jj, &git);
        let mut expects = BTreeMap::new();
        let mut clauses = BTreeMap::new();
        let export = match export {
            ExportMode::No => false,
            ExportMode::Yes => true,
            // A colocated command exports when it commits a transaction; the
            // implicit import commits one only if git had changed.
            ExportMode::IfImportChanged => self.git_changed(),
        };
        if import {
            self.model_import(&mut expects);
            self.check_j(step, &jj, &expects)?;
            for (n, e) in &expects {
                clauses.insert(n.clone(), e.clause_g.clone());
            }
        } else {
            // export alone never changes a bookmark
            for (name, st) in &self.model.names {
                let actual = jj.get(name).cloned().unwrap_or_else(|| vec![None]);
                vensure!(
                    actual == st.j,
                    "export.bookmark_untouched",
                    "{} step {step}: bookmark {name:?} changed from {} to {} by an export; log: {:?}",
                    self.tag(),
                    show_tgt(&st.j),
                    show_tgt(&actual),
                    self.log
                );
            }
        }
        if export {
            self.model_export(&mut clauses);
        }
        self.check_g(step, &git, &clauses)
    }

    fn run_jj(&mut self, args: &[&str]) -> CaseResult<Output> {
        let ws = self.ws.clone();
        jj_any(&self.env, &ws, args, &[])
    }

    fn must_jj(&mut self, args: &[&str]) -> CaseResult<Output> {
        let out = self.run_jj(args)?;
        if !out.success() {
            return harness(format!("jj {args:?} failed: {}; log: {:?}", out.brief(), self.log));
        }
        Ok(out)
    }

    /// A jj bookmark command. `target`: the value the bookmark has if the
    /// command succeeds.
    fn jj_bookmark_op(&mut self, label: &str, name: &str, target: Option<Id>, args: &[&str], ignore_wc: bool) -> CaseResult<()> {
        let mut full: Vec<&str> = vec![];
        if ignore_wc {
            full.push("--ignore-working-copy");
        }
        full.extend_from_slice(args);
        let out = self.run_jj(&full)?;
        // `bookmark move` / `delete` of a name that does not exist only warns.
        let ok = out.success() && !out.stderr.contains("No matching bookmarks");
        self.log.push(format!("{label}{}{}", if ignore_wc { " (ignore-wc)" } else { "" }, if ok { "" } else { " [refused]" }));
        self.ctx.count(&format!("jj_op.{}.{}", self.tag(), if ok { "applied" } else { "refused" }));
        let (_, jj, git) = self.observe()?;
        self.ensure_names(&jj, &git);
        self.model.names.entry(name.to_owned()).or_default();
        let mut clauses = BTreeMap::new();
        if self.colocated && !ignore_wc {
            // implicit import (and, if it changed anything, export) before the command body
            let changed = self.git_changed();
            let mut expects = BTreeMap::new();
            self.model_import(&mut expects);
            if ok {
                // the imported value of this name is overwritten by the command
                expects.remove(name);
            }
            self.check_j(label, &jj, &expects)?;
            for (n, e) in &expects {
                clauses.insert(n.clone(), e.clause_g.clone());
            }
            if changed {
                self.model_export(&mut clauses);
            }
        }
        if ok {
            let actual = jj.get(name).cloned().unwrap_or_else(|| vec![None]);
            if actual != vec![target.clone()] {
                return harness(format!(
                    "after successful {label} bookmark {name:?} is {} not {}; log: {:?}",
                    show_tgt(&actual),
                    short(&target),
                    self.log
                ));
            }
            self.model.names.get_mut(name).unwrap().j = vec![target];
        }
        // other names must not have been touched by the command itself
        for (n, st) in &self.model.names {
            let actual = jj.get(n).cloned().unwrap_or_else(|| vec![None]);
            if actual != st.j {
                return harness(format!(
                    "after {label} bookmark {n:?} is {} but the model has {}; log: {:?}",
                    show_tgt(&actual),
                    show_tgt(&st.j),
                    self.log
                ));
            }
        }
        if self.colocated {
            // every transaction of a colocated workspace ends with an export
            if ok {
                self.model_export(&mut clauses);
            }
            self.check_g(label, &git, &clauses)?;
        } else {
            self.check_g(label, &git, &BTreeMap::from([(name.to_owned(), "jj_op.git_ref_untouched_without_export".to_owned())]))?;
        }
        Ok(())
    }

    /// An external git command; the model adopts whatever git now has.
    fn git_op(&mut self, label: &str, args: &[&str]) -> CaseResult<()> {
        let out = git_any(&self.env, &self.git_dir.clone(), args)?;
        self.log.push(format!("{label}{}", if out.success() { "" } else { " [git refused]" }));
        self.ctx.count(&format!("git_op.{}.{}", self.tag(), if out.success() { "applied" } else { "refused" }));
        let git = read_git_heads(&self.env, &self.git_dir)?;
        for n in git.keys() {
            self.model.names.entry(n.clone()).or_default();
        }
        for (n, st) in &mut self.model.names {
            st.g = git.get(n).cloned();
        }
        Ok(())
    }

    /// import; export; then: git branches == resolved bookmarks, and a second
    /// import creates no operation and changes nothing.
    fn converge(&mut self) -> CaseResult<()> {
        self.log.push("converge".to_owned());
        if self.colocated {
            self.must_jj(&["status"])?;
            self.sync_check("converge(implicit import)", true, ExportMode::IfImportChanged)?;
            self.must_jj(&["--ignore-working-copy", "git", "export"])?;
            self.sync_check("converge(export)", false, ExportMode::Yes)?;
        } else {
            self.must_jj(&["git", "import"])?;
            self.sync_check("converge(import)", true, ExportMode::No)?;
            self.must_jj(&["git", "export"])?;
            self.sync_check("converge(export)", false, ExportMode::Yes)?;
        }
        let (before, jj, git) = self.observe()?;
        cross_check_heads(&self.env, &self.git_dir)?;
        let mut n_resolved = 0;
        let mut n_conflicted = 0;
        for name in self.universe(&jj, &git) {
            let j = jj.get(&name).cloned().unwrap_or_else(|| vec![None]);
            if resolved(&j) {
                n_resolved += 1;
                vensure!(
                    git.get(&name).cloned() == j[0],
                    "converge.git_branches_equal_resolved_bookmarks",
                    "{} after import;export: bookmark {name:?} is {} but git branch is {}; log: {:?}",
                    self.tag(),
                    show_tgt(&j),
                    short(&git.get(&name).cloned()),
                    self.log
                );
            } else {
                n_conflicted += 1;
            }
        }
        self.ctx.count_n("converge.names_compared", n_resolved);
        self.ctx.count_n("converge.names_conflicted", n_conflicted);
        self.ctx.count(&format!("converge.{}", self.tag()));
        if self.colocated {
            self.must_jj(&["status"])?;
        } else {
            self.must_jj(&["git", "import"])?;
        }
        let (after, jj2, git2) = self.observe()?;
        vensure!(
            after.op_heads == before.op_heads,
            "second_import.creates_no_operation",
            "{} a second import after import;export created an operation ({:?} -> {:?}); log: {:?}",
            self.tag(),
            before.op_heads,
            after.op_heads,
            self.log
        );
        vensure!(
            after.view == before.view && jj2 == jj && git2 == git,
            "second_import.changes_nothing",
            "{} a second import changed the view or the git refs; log: {:?}",
            self.tag(),
            self.log
        );
        self.ctx.count("second_import_checked");
        Ok(())
    }
}

fn pick_commit34(rng: &mut Rng, commits: &[(String, Id)]) -> (String, Id) {
    rng.pick(commits).clone()
}

fn run_case34(ctx: &Ctx, tmpl: &Template34, colocated: bool, case_dir: &Path, rng: &mut Rng, log_out: &mut Vec<String>) -> CaseResult<bool> {
    if !copy_tree(&tmpl.path, case_dir) {
        return harness("cannot copy the template");
    }
    let mut env = JjEnv::attach(case_dir, tmpl.command_number);
    env.timeout = WATCHDOG;
    let abandon = rng.bool();
    env.add_config(&format!("[git]\nabandon-unreachable-commits = {abandon}\n"));
    ctx.count(if abandon { "config.abandon_unreachable_on" } else { "config.abandon_unreachable_off" });
    let ws = case_dir.join("ws");
    let git_dir = git_dir_of(&ws, colocated);
    let mut w = World34 {
        ctx,
        env,
        ws,
        git_dir,
        colocated,
        anc: &tmpl.anc,
        model: Model34::default(),
        log: vec![format!("abandon-unreachable={abandon}")],
        nontrivial: false,
    };
    let mut names: Vec<&str> = C34_NAMES.to_vec();
    rng.shuffle(&mut names);
    let names: Vec<String> = names[..3].iter().map(|s| (*s).to_owned()).collect();
    for n in &names {
        w.model.names.insert(n.clone(), NameState::default());
    }
    let steps = ctx.tier().pick(12, 28);
    let mut last: Option<(bool, String)> = None; // (was jj side, name)
    let result = (|| -> CaseResult<()> {
        for _ in 0..steps {
            // prefer touching the same name from the other side before a sync
            let name = match &last {
                Some((_, n)) if rng.chance(3, 5) => n.clone(),
                _ => rng.pick(&names).clone(),
            };
            let (label, id) = pick_commit34(rng, &tmpl.commits);
            let mut weights: [usize; 5] = if colocated {
                // jj op, jj op without the implicit import, git op, read-only command, converge
                [18, 20, 40, 8, 14]
            } else {
                // jj op, (unused), git op, import or export alone, converge
                [32, 0, 36, 20, 12]
            };
            match &last {
                Some((true, _)) => weights[2] *= 2,
                Some((false, _)) => {
                    weights[0] *= 2;
                    weights[1] *= 2;
                }
                None => {}
            }
            let kind = rng.weighted(&weights);
            match kind {
                0 | 1 => {
                    let ignore_wc = kind == 1;
                    // mostly commands jj will accept given what the model knows
                    let exists = w.state(&name).j != vec![None];
                    let weights: [usize; 4] = if exists { [5, 1, 3, 4] } else { [5, 4, 1, 1] };
                    match rng.weighted(&weights) {
                        0 => w.jj_bookmark_op(
                            &format!("jj set {name}={label}"),
                            &name,
                            Some(id.clone()),
                            &["bookmark", "set", &name, "-r", &id, "--allow-backwards"],
                            ignore_wc,
                        )?,
                        1 => w.jj_bookmark_op(
                            &format!("jj create {name}={label}"),
                            &name,
                            Some(id.clone()),
                            &["bookmark", "create", &name, "-r", &id],
                            ignore_wc,
                        )?,
                        2 => w.jj_bookmark_op(
                            &format!("jj move {name}={label}"),
                            &name,
                            Some(id.clone()),
                            &["bookmark", "move", &name, "--to", &id, "--allow-backwards"],
                            ignore_wc,
                        )?,
                        _ => w.jj_bookmark_op(&format!("jj delete {name}"), &name, None, &["bookmark", "delete", &name], ignore_wc)?,
                    }
                    last = Some((true, name));
                }
                2 => {
                    let full = format!("refs/heads/{name}");
                    let exists = w.state(&name).g.is_some();
                    let weights: [usize; 3] = if exists { [6, 2, 2] } else { [18, 1, 1] };
                    match rng.weighted(&weights) {
                        0 => w.git_op(&format!("git set {name}={label}"), &["update-ref", &full, &id])?,
                        1 => w.git_op(&format!("git branch -D {name}"), &["branch", "-D", &name])?,
                        _ => w.git_op(&format!("git update-ref -d {name}"), &["update-ref", "-d", &full])?,
                    }
                    last = Some((false, name));
                }
                3 => {
                    if colocated {
                        let cmd: &[&str] = match rng.below(3) {
                            0 => &["status"],
                            1 => &["bookmark", "list"],
                            _ => &["git", "import"],
                        };
                        w.log.push(format!("jj {}", cmd.join(" ")));
                        w.must_jj(cmd)?;
                        w.sync_check("implicit sync", true, ExportMode::IfImportChanged)?;
                    } else if rng.bool() {
                        w.log.push("jj git import".to_owned());
                        w.must_jj(&["git", "import"])?;
                        w.sync_check("import", true, ExportMode::No)?;
                    } else {
                        w.log.push("jj git export".to_owned());
                        w.must_jj(&["git", "export"])?;
                        w.sync_check("export", false, ExportMode::Yes)?;
                    }
                    last = None;
                }
                _ => {
                    w.converge()?;
                    last = None;
                }
            }
        }
        w.converge()
    })();
    *log_out = w.log.clone();
    result.map(|()| w.nontrivial)
}

pub fn run_c34(ctx: &Ctx) -> i32 {
    ctx.set_rule(
        "one hermetic repository per case, alternately non-colocated (`jj git init`, explicit `jj git import` / \
         `jj git export`) and colocated (`jj git init --colocate`, implicit import/export around every command, \
         `--ignore-working-copy` to skip the implicit import); 6 pre-made commits (a chain of 3, a sibling, an \
         unrelated chain of 2); 3 prefix-free names; 12 (quick) / 28 (thorough) random steps of jj bookmark \
         set/create/move/delete, external `git update-ref` / `git branch -D` / `git update-ref -d`, lone imports \
         and exports, and convergence points (import; export; second import), always ending with one. After \
         every step jj's local bookmarks (read-only view reader) and git's refs/heads (`git for-each-ref`) are \
         compared with the per-name model (S, J, G). Non-trivial: at least one import or export had a changed \
         name to act on. Distinct: by the executed step log.",
    );
    ctx.assume("bookmark conflicts are compared by their adds and term count; the remove term is not compared");
    ctx.assume("jj bookmark commands that jj refuses (already exists / no such bookmark) are skipped, not judged");
    let base = scratch_dir("c34");
    let mut templates: Vec<Option<Template34>> = vec![None, None];
    std::thread::scope(|scope| {
        let handles: Vec<_> = [false, true]
            .into_iter()
            .map(|colocated| {
                let base = &base;
                scope.spawn(move || run_guarded(ctx, || build_template34(base, colocated)))
            })
            .collect();
        for (slot, h) in templates.iter_mut().zip(handles) {
            match h.join() {
                Ok(Ok(t)) => *slot = Some(t),
                Ok(Err(CaseErr::Harness(m))) => ctx.inconclusive(&format!("template: {m}")),
                Ok(Err(CaseErr::Viol(f))) => ctx.inconclusive(&format!("template: {}", f.message)),
                Err(_) => ctx.inconclusive("template thread panicked"),
            }
        }
    });
    if templates.iter().any(|t| t.is_none()) {
        std::fs::remove_dir_all(&base).ok();
        return ctx.finish(1);
    }
    let n = ctx.tier().pick(64, 640);
    par_cases(ctx, n, threads(), |i, cs, rng| {
        let colocated = i % 2 == 1;
        let tmpl = templates[usize::from(colocated)].as_ref().unwrap();
        let case_dir = base.join(format!("case-{i}"));
        let mut log = vec![];
        let result = run_guarded(ctx, || run_case34(ctx, tmpl, colocated, &case_dir, rng, &mut log));
        let nontrivial = matches!(result, Ok(true));
        let describe = || json!({"colocated": colocated, "steps": log});
        finish_case(ctx, i, cs, describe, result.map(|_| ()));
        ctx.case(stable_hash(&(colocated, &log)), nontrivial);
        ctx.count(if colocated { "cases.colocated" } else { "cases.plain" });
        ctx.sample(describe);
        std::fs::remove_dir_all(&case_dir).ok();
    });
    std::fs::remove_dir_all(&base).ok();
    ctx.finish(ctx.tier().pick(24, 200))
}

// ===========================================================================
// C45

const C45_NAMES: &[&str] = &["master", "dev", "feat/x", "rel-1.0", "topic"];

struct Template45 {
    path: PathBuf,
    command_number: i64,
    /// Commits made by the jj clone (label, id).
    a_commits: Vec<(String, Id)>,
    /// Commits made by the other clone; they exist in the bare remote.
    b_commits: Vec<(String, Id)>,
}

/// `jj git fetch` needs `git fetch --porcelain` (git >= 2.41). With an older
/// git, jj is pointed (`git.executable-path`) at a wrapper that drops that one
/// flag; jj uses the porcelain output of a fetch only to detect rejected ref
/// updates, which forced refspecs never produce. `git push` is passed through
/// unchanged. Returns the configuration text to add, if any.
fn git_shim_config(ctx: &Ctx, base: &Path) -> CaseResult<Option<String>> {
    let out = run_command(std::process::Command::new("git").arg("--version"), std::time::Duration::from_secs(60));
    let version: Vec<u32> = out
        .stdout
        .split_whitespace()
        .nth(2)
        .unwrap_or("")
        .split('.')
        .filter_map(|p| p.parse().ok())
        .collect();
    if version.len() < 2 {
        return harness(format!("cannot parse git version: {}", out.brief()));
    }
    if (version[0], version[1]) >= (2, 41) {
        return Ok(None);
    }
    let shim = base.join("git-shim.sh");
    let script = "#!/bin/sh\n# git < 2.41: drop `--porcelain` right after `fetch`\nn=$#\nprev=\ni=0\nwhile [ $i -lt $n ]; do\n  a=$1\n  shift\n  if [ \"$prev\" = fetch ] && [ \"$a\" = --porcelain ]; then :; else set -- \"$@\" \"$a\"; fi\n  prev=$a\n  i=$((i+1))\ndone\nexec git \"$@\"\n";
    std::fs::write(&shim, script).map_err(|e| CaseErr::Harness(e.to_string()))?;
    {
        use std::os::unix::fs::PermissionsExt as _;
        std::fs::set_permissions(&shim, std::fs::Permissions::from_mode(0o755)).map_err(|e| CaseErr::Harness(e.to_string()))?;
    }
    ctx.assume(&format!(
        "system git is {} (< 2.41, no `fetch --porcelain`): jj runs git through a wrapper that drops that flag from \
         `git fetch`; `git push --porcelain --force-with-lease` is passed through unchanged",
        out.stdout.trim()
    ));
    Ok(Some(format!("[git]\nexecutable-path = '{}'\n", shim.display())))
}

fn build_template45(base: &Path, shim_config: &Option<String>) -> CaseResult<Template45> {
    let path = base.join("tmpl");
    std::fs::create_dir_all(&path).map_err(|e| CaseErr::Harness(e.to_string()))?;
    let mut env = JjEnv::new(&path);
    env.timeout = WATCHDOG;
    if let Some(text) = shim_config {
        env.add_config(text);
    }
    let root = env.root.clone();
    let remote = root.join("remote.git");
    git_ok(&env, &root, &["init", "-q", "--bare", "remote.git"])?;
    // The bare remote's HEAD names `master`; by default receive-pack refuses to
    // delete that branch for a reason unrelated to the lease.
    git_ok(&env, &remote, &["config", "receive.denyDeleteCurrent", "ignore"])?;
    git_ok(&env, &remote, &["config", "gc.auto", "0"])?;
    git_ok(&env, &root, &["clone", "-q", remote.to_str().unwrap(), "B"])?;
    let b = root.join("B");
    git_ok(&env, &b, &["config", "gc.auto", "0"])?;
    let mut b_commits = vec![];
    let commit = |env: &JjEnv, label: &str, parent: Option<&str>| -> CaseResult<Id> {
        match parent {
            Some(p) => {
                git_ok(env, &b, &["checkout", "-q", "--detach", p])?;
            }
            None => {}
        }
        git_ok(env, &b, &["commit", "-q", "--allow-empty", "-m", label])?;
        Ok(git_ok(env, &b, &["rev-parse", "HEAD"])?.stdout.trim().to_owned())
    };
    let base_id = commit(&env, "base", None)?;
    git_ok(&env, &b, &["push", "-q", "origin", &format!("{base_id}:refs/heads/master")])?;
    let p0 = commit(&env, "p0", Some(&base_id))?;
    let p1 = commit(&env, "p1", Some(&p0))?;
    let q0 = commit(&env, "q0", Some(&base_id))?;
    let q1 = commit(&env, "q1", Some(&q0))?;
    for (label, id) in [("base", &base_id), ("p0", &p0), ("p1", &p1), ("q0", &q0), ("q1", &q1)] {
        git_ok(&env, &b, &["push", "-q", "origin", &format!("{id}:refs/pool/{label}")])?;
        b_commits.push((label.to_owned(), id.clone()));
    }
    jj_ok(&env, &root, &["git", "clone", remote.to_str().unwrap(), "A"])?;
    let a = root.join("A");
    jj_ok(&env, &a, &["new", "master", "-m", "a0"])?;
    jj_ok(&env, &a, &["new", "-m", "a1"])?;
    jj_ok(&env, &a, &["new", "master", "-m", "s0"])?;
    jj_ok(&env, &a, &["new", "root()", "-m", "u0"])?;
    jj_ok(&env, &a, &["new", "root()"])?;
    let out = jj_ok(
        &env,
        &a,
        &["log", "--no-graph", "-r", "all()", "-T", "commit_id ++ \" \" ++ description.first_line() ++ \"\\n\""],
    )?;
    let mut a_commits = vec![];
    for line in out.stdout.lines() {
        if let Some((id, label)) = line.split_once(' ')
            && ["a0", "a1", "s0", "u0"].contains(&label.trim())
        {
            a_commits.push((label.trim().to_owned(), id.to_owned()));
        }
    }
    a_commits.sort();
    if a_commits.len() != 4 {
        return harness(format!("template has {} commits of the jj clone: {a_commits:?}", a_commits.len()));
    }
    Ok(Template45 { path: env.root.clone(), command_number: env.command_number.get(), a_commits, b_commits })
}

fn replace_in_file(path: &Path, from: &str, to: &str) -> CaseResult<()> {
    let text = std::fs::read_to_string(path).map_err(|e| CaseErr::Harness(format!("{}: {e}", path.display())))?;
    if !text.contains(from) {
        return harness(format!("{} does not mention {from}", path.display()));
    }
    std::fs::write(path, text.replace(from, to)).map_err(|e| CaseErr::Harness(e.to_string()))
}

/// jj's record of a remote branch.
#[derive(Clone, Debug, PartialEq, Eq)]
struct RemoteRec {
    tgt: Tgt,
    tracked: bool,
}

fn remote_records(view: &ViewSummary, remote: &str) -> BTreeMap<String, RemoteRec> {
    let suffix = format!("@{remote}");
    view.remote_bookmarks
        .iter()
        .filter_map(|(k, (t, tracked))| {
            k.strip_suffix(&suffix).map(|n| (n.to_owned(), RemoteRec { tgt: tgt_of(Some(t)), tracked: *tracked }))
        })
        .collect()
}

struct World45<'a> {
    ctx: &'a Ctx,
    env: JjEnv,
    a: PathBuf,
    b: PathBuf,
    bare: PathBuf,
    names: Vec<String>,
    a_pool: Vec<(String, Id)>,
    b_pool: Vec<(String, Id)>,
    labels: HashMap<Id, String>,
    log: Vec<String>,
    pushes_with_git: u64,
}

#[derive(Clone, Debug)]
enum BAction {
    Set { name: String, id: Id, via_push: bool },
    Delete { name: String, via_push: bool },
}

impl World45<'_> {
    fn label(&self, id: &Option<Id>) -> String {
        match id {
            None => "-".to_owned(),
            Some(i) => self.labels.get(i).cloned().unwrap_or_else(|| short(id)),
        }
    }

    fn gen_b_action(&self, rng: &mut Rng, prefer: &[String], remote: &BTreeMap<String, Id>) -> BAction {
        let name = if !prefer.is_empty() && rng.chance(3, 4) { rng.pick(prefer).clone() } else { rng.pick(&self.names).clone() };
        let via_push = rng.bool();
        if remote.contains_key(&name) && rng.chance(1, 4) {
            return BAction::Delete { name, via_push };
        }
        // commits that exist in the bare repository: B's pool and whatever the branches point at
        let mut candidates: Vec<Id> = self.b_pool.iter().map(|(_, id)| id.clone()).collect();
        candidates.extend(remote.values().cloned());
        candidates.retain(|c| remote.get(&name) != Some(c));
        let id = rng.pick(&candidates).clone();
        BAction::Set { name, id, via_push }
    }

    /// The shell command performing B's update (quoted paths contain no quotes).
    fn b_action_shell(&self, action: &BAction) -> String {
        let bare = self.bare.display();
        let b = self.b.display();
        match action {
            // B only has its own commits; A's commits reach it through the remote, so fetch them first.
            BAction::Set { name, id, via_push: true } => format!(
                "git -C '{b}' fetch -q origin '+refs/heads/*:refs/remotes/origin/*' && git -C '{b}' push -q -f origin {id}:refs/heads/{name}"
            ),
            BAction::Set { name, id, via_push: false } => format!("git -C '{bare}' update-ref refs/heads/{name} {id}"),
            BAction::Delete { name, via_push: true } => format!("git -C '{b}' push -q origin :refs/heads/{name}"),
            BAction::Delete { name, via_push: false } => format!("git -C '{bare}' update-ref -d refs/heads/{name}"),
        }
    }

    fn describe_b(&self, action: &BAction) -> String {
        match action {
            BAction::Set { name, id, via_push } => {
                format!("B sets {name}={}{}", self.label(&Some(id.clone())), if *via_push { " (push)" } else { " (update-ref)" })
            }
            BAction::Delete { name, via_push } => format!("B deletes {name}{}", if *via_push { " (push)" } else { " (update-ref)" }),
        }
    }

    fn run_b_action(&mut self, action: &BAction) -> CaseResult<()> {
        let script = self.b_action_shell(action);
        let mut cmd = std::process::Command::new("sh");
        cmd.arg("-c").arg(&script).current_dir(&self.env.root);
        cmd.env_clear();
        cmd.env("PATH", std::env::var_os("PATH").unwrap_or_default());
        cmd.env("HOME", &self.env.home);
        cmd.env("GIT_CONFIG_SYSTEM", "/dev/null");
        cmd.env("GIT_CONFIG_GLOBAL", "/dev/null");
        let out = run_command(&mut cmd, self.env.timeout);
        if out.timed_out {
            return harness(format!("B action timed out: {script}"));
        }
        self.log.push(format!("{}{}", self.describe_b(action), if out.success() { "" } else { " [failed]" }));
        self.ctx.count(if out.success() { "b_update.applied" } else { "b_update.failed" });
        Ok(())
    }

    fn observe(&self) -> CaseResult<(BTreeMap<String, Tgt>, BTreeMap<String, RemoteRec>, BTreeMap<String, Id>)> {
        let jj = read_jj(&self.a)?;
        Ok((local_bookmarks(&jj.view), remote_records(&jj.view, "origin"), read_git_heads(&self.env, &self.bare)?))
    }

    fn a_local_op(&mut self, rng: &mut Rng) -> CaseResult<()> {
        let (locals, records, _) = self.observe()?;
        let name = rng.pick(&self.names).clone();
        let exists = locals.contains_key(&name);
        let a = self.a.clone();
        if exists && rng.chance(1, 4) {
            let out = jj_any(&self.env, &a, &["bookmark", "delete", &name], &[])?;
            self.log.push(format!("A deletes {name}{}", if out.success() { "" } else { " [refused]" }));
            self.ctx.count("a_local.delete");
            return Ok(());
        }
        let mut candidates: Vec<Id> = self.a_pool.iter().map(|(_, id)| id.clone()).collect();
        // commits A has fetched
        for rec in records.values() {
            candidates.extend(rec.tgt.iter().step_by(2).flatten().cloned());
        }
        let id = rng.pick(&candidates).clone();
        let out = jj_any(&self.env, &a, &["bookmark", "set", &name, "-r", &id, "--allow-backwards"], &[])?;
        self.log.push(format!("A sets {name}={}{}", self.label(&Some(id)), if out.success() { "" } else { " [refused]" }));
        self.ctx.count("a_local.set");
        // a bookmark created locally while an untracked remote bookmark of the same name exists
        // can only be pushed once tracked; do that sometimes
        if let Some(rec) = records.get(&name)
            && !rec.tracked
            && rng.bool()
        {
            let out = jj_any(&self.env, &a, &["bookmark", "track", &name, "--remote", "origin"], &[])?;
            self.log.push(format!("A tracks {name}@origin{}", if out.success() { "" } else { " [refused]" }));
        }
        Ok(())
    }

    fn fetch(&mut self) -> CaseResult<()> {
        let a = self.a.clone();
        let out = jj_any(&self.env, &a, &["git", "fetch"], &[])?;
        if !out.success() {
            return harness(format!("jj git fetch failed: {}; log: {:?}", out.brief(), self.log));
        }
        self.log.push("A fetches".to_owned());
        self.ctx.count("fetches");
        Ok(())
    }

    fn push(&mut self, rng: &mut Rng, step: usize) -> CaseResult<()> {
        // A quarter of the pushes meet a concurrent pusher on the server (see
        // below); give those several bookmarks to push, so that one of them
        // can be refused by the remote while the others go through.
        let want_hook = rng.chance(1, 4);
        if want_hook {
            for _ in 0..2 {
                self.a_local_op(rng)?;
            }
        }
        let (locals, records, remote_pre) = self.observe()?;
        let local_of = |n: &str| locals.get(n).cloned().unwrap_or_else(|| vec![None]);
        let rec_of = |m: &BTreeMap<String, RemoteRec>, n: &str| m.get(n).cloned().unwrap_or(RemoteRec { tgt: vec![None], tracked: false });
        // names whose local bookmark differs from jj's record of the remote
        let dirty: Vec<String> = self.names.iter().filter(|n| local_of(n) != rec_of(&records, n).tgt).cloned().collect();
        let variant_weights: [usize; 4] = if want_hook && dirty.len() >= 2 { [15, 20, 5, 60] } else { [60, 20, 10, 10] };
        let (args, explicit): (Vec<String>, Vec<String>) = match rng.weighted(&variant_weights) {
            0 => {
                let name = if !dirty.is_empty() && rng.chance(5, 6) { rng.pick(&dirty).clone() } else { rng.pick(&self.names).clone() };
                (vec!["git".into(), "push".into(), "--bookmark".into(), name.clone()], vec![name])
            }
            1 => (vec!["git".into(), "push".into(), "--all".into()], vec![]),
            2 => (vec!["git".into(), "push".into(), "--deleted".into()], vec![]),
            _ => (vec!["git".into(), "push".into(), "--all".into(), "--deleted".into()], vec![]),
        };
        let variant = args[2..].join(" ");
        // interference while the push is in flight
        let in_flight = if !want_hook && rng.chance(8, 15) {
            let prefer: Vec<String> = if explicit.is_empty() { dirty.clone() } else { explicit.clone() };
            Some(self.gen_b_action(rng, &prefer, &remote_pre))
        } else {
            None
        };
        // A concurrent pusher that wins the race on the server: an `update`
        // hook of the bare repository moves (or deletes) the branch after
        // git's client-side lease check has passed, so the remote itself
        // refuses jj's update ("remote rejected").
        let hook_file = self.bare.join("hooks").join("update");
        let hook_marker = self.env.root.join(format!("hook-fired-{step}"));
        std::fs::remove_file(&hook_marker).ok();
        let in_hook: Option<BAction> = if want_hook {
            let prefer: Vec<String> = if explicit.is_empty() { dirty.clone() } else { explicit.clone() };
            let name = if !prefer.is_empty() { rng.pick(&prefer).clone() } else { rng.pick(&self.names).clone() };
            let t = local_of(&name);
            let mut candidates: Vec<Option<Id>> = self.b_pool.iter().map(|(_, id)| Some(id.clone())).collect();
            candidates.extend(remote_pre.values().cloned().map(Some));
            if remote_pre.contains_key(&name) {
                candidates.push(None);
            }
            candidates.retain(|c| remote_pre.get(&name) != c.as_ref() && !(resolved(&t) && t[0] == *c));
            if candidates.is_empty() {
                None
            } else {
                Some(match rng.pick(&candidates).clone() {
                    Some(id) => BAction::Set { name, id, via_push: false },
                    None => BAction::Delete { name, via_push: false },
                })
            }
        } else {
            None
        };
        if let Some(action) = &in_hook {
            let (name, cmd) = match action {
                BAction::Set { name, id, .. } => (name, format!("git update-ref refs/heads/{name} {id}")),
                BAction::Delete { name, .. } => (name, format!("git update-ref -d refs/heads/{name}")),
            };
            let script = format!(
                "#!/bin/sh\nif [ \"$1\" = \"refs/heads/{name}\" ]; then\n  {cmd} && : > '{}'\nfi\nexit 0\n",
                hook_marker.display()
            );
            std::fs::create_dir_all(hook_file.parent().unwrap()).ok();
            if std::fs::write(&hook_file, script).is_err() {
                return harness("cannot write the update hook".to_owned());
            }
            #[cfg(unix)]
            {
                use std::os::unix::fs::PermissionsExt as _;
                std::fs::set_permissions(&hook_file, std::fs::Permissions::from_mode(0o755)).ok();
            }
        }
        let r0_file = self.env.root.join(format!("r0-{step}"));
        std::fs::remove_file(&r0_file).ok();
        let dump = format!("git -C '{}' for-each-ref '{REF_FORMAT}' refs/heads > '{}.tmp' && mv '{}.tmp' '{}'",
            self.bare.display(), r0_file.display(), r0_file.display(), r0_file.display());
        let script = match &in_flight {
            Some(action) => format!("({}) ; {dump}", self.b_action_shell(action)),
            None => dump,
        };
        let run_at = format!("git.push.before_spawn={script}");
        let argv: Vec<&str> = args.iter().map(|s| s.as_str()).collect();
        let a = self.a.clone();
        let out = jj_any(&self.env, &a, &argv, &[("JJ_VERIF_RUN_AT", &run_at)])?;
        let git_ran = r0_file.exists();
        let mut r0: BTreeMap<String, Id> = if git_ran {
            parse_ref_lines(&std::fs::read_to_string(&r0_file).unwrap_or_default())
        } else {
            remote_pre.clone()
        };
        if in_hook.is_some() {
            std::fs::remove_file(&hook_file).ok();
        }
        // The position the remote had when it decided about jj's update.
        let hook_fired = hook_marker.exists();
        if hook_fired {
            match in_hook.as_ref().unwrap() {
                BAction::Set { name, id, .. } => {
                    r0.insert(name.clone(), id.clone());
                }
                BAction::Delete { name, .. } => {
                    r0.remove(name);
                }
            }
        }
        let (locals_post, records_post, remote_post) = self.observe()?;
        cross_check_heads(&self.env, &self.bare)?;
        let in_flight_desc = match (&in_flight, &in_hook, git_ran) {
            (Some(a), _, true) => format!(" while {}", self.describe_b(a)),
            (_, Some(a), true) => format!(
                " with an update hook on the remote in which {}{}",
                self.describe_b(a),
                if hook_fired { " (fired)" } else { " (not reached)" }
            ),
            _ => String::new(),
        };
        self.log.push(format!(
            "A pushes {variant}{in_flight_desc} -> exit {:?}{}",
            out.code,
            if git_ran { "" } else { " (git not run)" }
        ));
        self.ctx.count(&format!("push.variant.{}", if explicit.is_empty() { variant.replace(' ', "") } else { "--bookmark".to_owned() }));
        if git_ran {
            self.pushes_with_git += 1;
            self.ctx.count("push.git_ran");
            if in_flight.is_some() {
                self.ctx.count("push.in_flight_update_by_b");
            }
            if in_hook.is_some() {
                self.ctx.count(if hook_fired { "push.update_hook_by_b.fired" } else { "push.update_hook_by_b.not_reached" });
            }
        } else {
            self.ctx.count("push.git_not_run");
        }
        // Which names did jj announce it would push?
        let mut announced: BTreeSet<String> = BTreeSet::new();
        if git_ran {
            let text = format!("{}\n{}", out.stderr, out.stdout);
            let mut in_list = false;
            for line in text.lines() {
                if line.starts_with("Changes to push to origin:") {
                    in_list = true;
                    continue;
                }
                if in_list {
                    if let Some(rest) = line.strip_prefix("  bookmark: ")
                        && let Some((name, _)) = rest.split_once(" [")
                    {
                        announced.insert(name.trim_matches('"').to_owned());
                    } else {
                        in_list = false;
                    }
                }
            }
            if announced.is_empty() {
                return harness(format!("git ran but no announced bookmark was parsed: {}", out.brief()));
            }
        }
        let mut universe: BTreeSet<String> = self.names.iter().cloned().collect();
        for m in [&remote_pre, &r0, &remote_post] {
            universe.extend(m.keys().cloned());
        }
        universe.extend(locals.keys().cloned());
        universe.extend(records.keys().cloned());
        let ctx_line = |w: &Self| format!("push `{variant}`; log: {:?}; jj said: {}", w.log, truncate(&out.stderr, 700));
        if !git_ran {
            vensure!(
                remote_post == remote_pre,
                "remote.unchanged_when_git_not_run",
                "the remote changed although jj never ran git push: {:?} -> {:?}; {}",
                remote_pre,
                remote_post,
                ctx_line(self)
            );
        }
        for name in &universe {
            let t = local_of(name);
            let e = rec_of(&records, name);
            let e_post = rec_of(&records_post, name);
            let l_post = locals_post.get(name).cloned().unwrap_or_else(|| vec![None]);
            let r0v = r0.get(name).cloned();
            let rpost = remote_post.get(name).cloned();
            let e_val: Option<Option<Id>> = resolved(&e.tgt).then(|| e.tgt[0].clone());
            let t_val: Option<Option<Id>> = resolved(&t).then(|| t[0].clone());
            let lease_ok = e_val.as_ref() == Some(&r0v);
            let detail = |w: &Self| {
                format!(
                    "branch {name:?}: local {} recorded {}{} remote-when-git-ran {} remote-after {} recorded-after {}; {}",
                    show_tgt(&t),
                    show_tgt(&e.tgt),
                    if e.tracked { "" } else { " (untracked)" },
                    w.label(&r0v),
                    w.label(&rpost),
                    show_tgt(&e_post.tgt),
                    ctx_line(w)
                )
            };
            // (a) the remote moves only under a matching lease, and only to the local target
            if rpost != r0v {
                vensure!(lease_ok, "remote.overwritten_although_moved_since_last_seen", "{}", detail(self));
                vensure!(t_val.as_ref() == Some(&rpost), "remote.moved_to_something_else_than_local_target", "{}", detail(self));
                self.ctx.count(match (&r0v, &rpost) {
                    (None, Some(_)) => "push.accepted.created",
                    (Some(_), None) => "push.accepted.deleted",
                    _ => "push.accepted.moved",
                });
            }
            let attempted = announced.contains(name);
            if !lease_ok {
                // (b) jj has not seen the remote's current position
                let already_there = t_val.as_ref() == Some(&r0v);
                vensure!(l_post == t, "stale.local_bookmark_changed", "{}", detail(self));
                if already_there {
                    // Weaker than DESIGN on purpose: the remote already is where the push
                    // wants it, git reports "up to date", nothing is overwritten; jj may
                    // record the position it now knows.
                    if attempted {
                        self.ctx.count("push.stale_but_remote_already_at_target");
                    }
                    vensure!(
                        e_post == e || e_post.tgt == vec![r0v.clone()],
                        "stale.record_changed_to_unseen_value",
                        "{}",
                        detail(self)
                    );
                } else {
                    vensure!(e_post == e, "stale.remote_record_changed", "{}", detail(self));
                    if attempted {
                        if hook_fired && in_hook.as_ref().is_some_and(|a| match a {
                            BAction::Set { name: n, .. } | BAction::Delete { name: n, .. } => n == name,
                        }) {
                            self.ctx.count("push.rejected.by_remote_after_lease_check");
                        }
                        self.ctx.count(if in_flight.as_ref().is_some_and(|a| match a {
                            BAction::Set { name: n, .. } | BAction::Delete { name: n, .. } => n == name,
                        }) {
                            "push.rejected.moved_in_flight"
                        } else {
                            "push.rejected.moved_before_push"
                        });
                        self.ctx.count(match (&e_val, &t_val) {
                            (Some(None), _) => "push.rejected.creation",
                            (_, Some(None)) => "push.rejected.deletion",
                            _ => "push.rejected.move",
                        });
                        let reported = !out.success()
                            || out.stderr.contains("unexpectedly moved")
                            || out.stderr.to_lowercase().contains("reject");
                        vensure!(reported, "stale.rejection_not_reported", "{}", detail(self));
                    }
                }
            } else if attempted {
                // (c) lease matches: the push goes through and is recorded
                vensure!(t_val.as_ref() == Some(&rpost), "accepted.remote_not_at_local_target", "{}", detail(self));
                vensure!(
                    e_post.tgt == t && (e_post.tracked || t == vec![None]),
                    "accepted.remote_record_not_updated",
                    "{}",
                    detail(self)
                );
                vensure!(l_post == t, "accepted.local_bookmark_changed", "{}", detail(self));
                self.ctx.count("push.accepted.checked");
            }
        }
        Ok(())
    }
}

fn run_case45(ctx: &Ctx, tmpl: &Template45, case_dir: &Path, rng: &mut Rng, log_out: &mut Vec<String>) -> CaseResult<bool> {
    if !copy_tree(&tmpl.path, case_dir) {
        return harness("cannot copy the template");
    }
    let from = tmpl.path.to_str().unwrap();
    let to = case_dir.to_str().unwrap();
    replace_in_file(&case_dir.join("A/.jj/repo/store/git/config"), from, to)?;
    replace_in_file(&case_dir.join("B/.git/config"), from, to)?;
    let mut env = JjEnv::attach(case_dir, tmpl.command_number);
    env.timeout = WATCHDOG;
    let auto_track = rng.chance(2, 3);
    if auto_track {
        env.add_config("[remotes.origin]\nauto-track-bookmarks = \"*\"\n");
    }
    ctx.count(if auto_track { "config.auto_track_on" } else { "config.auto_track_off" });
    let mut names: Vec<&str> = C45_NAMES[1..].to_vec();
    rng.shuffle(&mut names);
    let mut names: Vec<String> = names[..2].iter().map(|s| (*s).to_owned()).collect();
    names.push("master".to_owned());
    let mut labels = HashMap::new();
    for (l, id) in tmpl.a_commits.iter().chain(&tmpl.b_commits) {
        labels.insert(id.clone(), l.clone());
    }
    let mut w = World45 {
        ctx,
        a: case_dir.join("A"),
        b: case_dir.join("B"),
        bare: case_dir.join("remote.git"),
        env,
        names,
        a_pool: tmpl.a_commits.clone(),
        b_pool: tmpl.b_commits.clone(),
        labels,
        log: vec![format!("auto-track={auto_track}")],
        pushes_with_git: 0,
    };
    let steps = ctx.tier().pick(11, 24);
    let result = (|| -> CaseResult<()> {
        for step in 0..steps {
            match rng.weighted(&[30, 18, 14, 38]) {
                0 => w.a_local_op(rng)?,
                1 => {
                    let remote = read_git_heads(&w.env, &w.bare)?;
                    let action = w.gen_b_action(rng, &[], &remote);
                    w.run_b_action(&action)?;
                }
                2 => w.fetch()?,
                _ => {
                    // make sure there usually is something to push
                    let (locals, records, _) = w.observe()?;
                    let dirty = w.names.iter().any(|n| {
                        locals.get(n).cloned().unwrap_or_else(|| vec![None])
                            != records.get(n).map(|r| r.tgt.clone()).unwrap_or_else(|| vec![None])
                    });
                    if !dirty && rng.chance(4, 5) {
                        w.a_local_op(rng)?;
                    }
                    w.push(rng, step)?
                }
            }
        }
        w.push(rng, steps)
    })();
    *log_out = w.log.clone();
    result.map(|()| w.pushes_with_git > 0)
}

pub fn run_c45(ctx: &Ctx) -> i32 {
    ctx.set_rule(
        "one hermetic environment per case: bare remote, jj clone A (non-colocated), plain git clone B; 3 branch \
         names; 11 (quick) / 24 (thorough) random steps of A's local bookmark set/delete, B's updates of the \
         remote (force push / delete push from B, or update-ref in the bare repository), `jj git fetch`, and \
         `jj git push --bookmark <b>` / `--all` / `--deleted` / `--all --deleted`, 40% of the pushes with an \
         update by B executed at the `git.push.before_spawn` hook (while the push is in flight), 25% with an \
         `update` hook on the remote in which B moves or deletes the branch after git's client-side lease check \
         (the remote itself then refuses the update); the remote's \
         refs are dumped at that hook (R0), before and after the command; jj's local bookmarks and `@origin` \
         records are read before and after with the read-only view reader. Non-trivial: at least one push for \
         which jj spawned `git push`. Distinct: by the executed step log.",
    );
    ctx.assume(
        "stale lease but the remote already is at the local target (git says up to date): only `nothing is \
         overwritten, local unchanged, record is old or the remote's real position` is enforced",
    );
    ctx.assume("the set of bookmarks jj attempts is taken from its `Changes to push to origin:` announcement");
    let base = scratch_dir("c45");
    let tmpl = run_guarded(ctx, || {
        let shim = git_shim_config(ctx, &base)?;
        build_template45(&base, &shim)
    });
    let tmpl = match tmpl {
        Ok(t) => t,
        Err(CaseErr::Harness(m)) => {
            ctx.inconclusive(&format!("template: {m}"));
            std::fs::remove_dir_all(&base).ok();
            return ctx.finish(1);
        }
        Err(CaseErr::Viol(f)) => {
            ctx.inconclusive(&format!("template: {}", f.message));
            std::fs::remove_dir_all(&base).ok();
            return ctx.finish(1);
        }
    };
    let n = ctx.tier().pick(48, 640);
    par_cases(ctx, n, threads(), |i, cs, rng| {
        let case_dir = base.join(format!("case-{i}"));
        let mut log = vec![];
        let result = run_guarded(ctx, || run_case45(ctx, &tmpl, &case_dir, rng, &mut log));
        let nontrivial = matches!(result, Ok(true));
        let describe = || json!({"steps": log});
        finish_case(ctx, i, cs, describe, result.map(|_| ()));
        ctx.case(stable_hash(&log), nontrivial);
        ctx.sample(describe);
        std::fs::remove_dir_all(&case_dir).ok();
    });
    std::fs::remove_dir_all(&base).ok();
    ctx.finish(ctx.tier().pick(20, 200))
}
