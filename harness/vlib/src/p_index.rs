//! C18: the commit index answers exactly as the commit graph.
//! C20: shortest unique id prefixes are unique, minimal and resolvable.
//!
//! Both engines drive the real default index (`DefaultMutableIndex`,
//! `DefaultReadonlyIndex`, `DefaultIndexStore`) through real transactions on a
//! `TestRepo` and compare every answer with the harness' own `Dag` record
//! (ancestry by graph search) or with a brute-force scan over the recorded
//! ids. jj's index / revset engine is never used to compute an expectation,
//! with one stated exception in C20: the disambiguation revset handed to
//! `IdPrefixContext::disambiguate_within` is *evaluated* by jj (monitored by
//! C19); the expected member set is computed from the `Dag`.

use std::collections::BTreeMap;
use std::collections::BTreeSet;
use std::sync::Arc;

use jj_lib::backend::ChangeId;
use jj_lib::backend::CommitId;
use jj_lib::commit::Commit;
use jj_lib::config::ConfigLayer;
use jj_lib::config::ConfigSource;
use jj_lib::default_index::DefaultIndexStore;
use jj_lib::default_index::DefaultMutableIndex;
use jj_lib::default_index::DefaultReadonlyIndex;
use jj_lib::id_prefix::IdPrefixContext;
use jj_lib::id_prefix::IdPrefixIndex;
use jj_lib::index::ChangeIdIndex;
use jj_lib::index::Index;
use jj_lib::index::MutableIndex;
use jj_lib::index::ReadonlyIndex;
use jj_lib::index::ResolvedChangeState;
use jj_lib::index::ResolvedChangeTargets;
use jj_lib::object_id::HexPrefix;
use jj_lib::object_id::ObjectId as _;
use jj_lib::object_id::PrefixResolution;
use jj_lib::repo::MutableRepo;
use jj_lib::repo::ReadonlyRepo;
use jj_lib::repo::Repo;
use jj_lib::revset::RevsetExpression;
use jj_lib::revset::UserRevsetExpression;
use jj_lib::settings::UserSettings;
use pollster::FutureExt as _;
use serde_json::Value;
use serde_json::json;
use testutils::TestRepo;

use crate::common::*;
use crate::dag::Dag;
use crate::dag::add_commit;
use crate::ensure;

// ---------------------------------------------------------------------------
// Shared helpers

/// Settings with a fixed commit timestamp: commit ids become a function of
/// (parents, tree, change id, description) only, so cases replay exactly and
/// two concurrent transactions can be made to write the very same commit.
fn stable_settings() -> UserSettings {
    let mut config = testutils::base_user_config();
    let mut layer = ConfigLayer::empty(ConfigSource::User);
    layer
        .set_value("debug.commit-timestamp", "2001-02-03T04:05:06+07:00")
        .unwrap();
    config.add_layer(layer);
    UserSettings::from_config(config).unwrap()
}

/// Unwraps the result of an index query. The default index never returns
/// `Err`; if it does the values the oracle needs are missing, which is a
/// harness-level "inconclusive" (DESIGN 1.3), not a refutation.
#[track_caller]
fn q<T, E: std::fmt::Debug>(r: Result<T, E>) -> T {
    match r {
        Ok(v) => v,
        Err(e) => panic!("index query returned an error: {e:?}"),
    }
}

fn readonly_index(repo: &ReadonlyRepo) -> &DefaultReadonlyIndex {
    repo.readonly_index()
        .downcast_ref::<DefaultReadonlyIndex>()
        .expect("default readonly index")
}

fn mutable_index(repo: &MutableRepo) -> &DefaultMutableIndex {
    repo.mutable_index()
        .downcast_ref::<DefaultMutableIndex>()
        .expect("default mutable index")
}

fn levels_of(index: &DefaultReadonlyIndex) -> Vec<u32> {
    index
        .stats()
        .commit_levels
        .iter()
        .map(|l| l.num_commits)
        .collect()
}

fn random_change_id(rng: &mut Rng) -> ChangeId {
    let mut bytes = [0u8; 16];
    for chunk in bytes.chunks_mut(8) {
        chunk.copy_from_slice(&rng.next_u64().to_le_bytes());
    }
    ChangeId::from_bytes(&bytes)
}

fn short(id: &CommitId) -> String {
    let h = id.hex();
    h[..h.len().min(10)].to_owned()
}

enum Ix<'a> {
    Ro(&'a DefaultReadonlyIndex),
    Mu(&'a DefaultMutableIndex),
}

impl<'a> Ix<'a> {
    fn index(&self) -> &'a dyn Index {
        match self {
            Ix::Ro(r) => *r,
            Ix::Mu(m) => *m,
        }
    }
    fn num_commits(&self) -> u32 {
        match self {
            Ix::Ro(r) => r.num_commits(),
            Ix::Mu(m) => m.num_commits(),
        }
    }
    fn change_id_index(&self, heads: &[CommitId]) -> Box<dyn ChangeIdIndex + 'a> {
        match self {
            Ix::Ro(r) => ReadonlyIndex::change_id_index(*r, &mut heads.iter()),
            Ix::Mu(m) => MutableIndex::change_id_index(*m, &mut heads.iter()),
        }
    }
}

// ---------------------------------------------------------------------------
// C18

/// Ancestor sets of the `Dag` (computed by `Dag::ancestors`, i.e. plain graph
/// search over the harness' own records), cached per node as bit rows so that
/// heads / common ancestors of large sets stay cheap. Rows never change when
/// the dag grows.
#[derive(Clone, Default)]
struct Table {
    anc: Vec<Vec<u64>>,
    generation: Vec<u32>,
}

impl Table {
    fn sync(&mut self, dag: &Dag) {
        for i in self.anc.len()..dag.len() {
            let mut row = vec![0u64; i / 64 + 1];
            for a in dag.ancestors(i) {
                row[a / 64] |= 1 << (a % 64);
            }
            self.anc.push(row);
            self.generation.push(dag.generation(i));
        }
    }

    /// `a` is an ancestor of, or equal to, `b`.
    fn is_anc(&self, a: usize, b: usize) -> bool {
        let row = &self.anc[b];
        a / 64 < row.len() && row[a / 64] >> (a % 64) & 1 == 1
    }

    fn ancestors_of(&self, set: &[usize], n: usize) -> Vec<bool> {
        let mut out = vec![false; n];
        for &s in set {
            for (a, slot) in out.iter_mut().enumerate().take(s + 1) {
                if self.is_anc(a, s) {
                    *slot = true;
                }
            }
        }
        out
    }

    fn heads_of(&self, set: &BTreeSet<usize>) -> BTreeSet<usize> {
        set.iter()
            .copied()
            .filter(|&h| !set.iter().any(|&o| o != h && self.is_anc(h, o)))
            .collect()
    }

    fn common_ancestors(&self, a: &[usize], b: &[usize], n: usize) -> BTreeSet<usize> {
        let aa = self.ancestors_of(a, n);
        let bb = self.ancestors_of(b, n);
        let common: BTreeSet<usize> = (0..n).filter(|&i| aa[i] && bb[i]).collect();
        self.heads_of(&common)
    }
}

#[derive(Clone, Debug)]
struct GrowOpts {
    max_parents: usize,
    merge_percent: usize,
    shared_change_percent: usize,
}

/// Adds `n` commits with change ids drawn from `rng` (so cases replay), reusing
/// the change id of an existing commit with the configured probability.
fn grow(rng: &mut Rng, mut_repo: &mut MutableRepo, dag: &mut Dag, n: usize, opts: &GrowOpts, tag: &str) -> Vec<usize> {
    let mut added = vec![];
    for _ in 0..n {
        let n_parents = if dag.len() >= 3 && rng.chance(opts.merge_percent, 100) {
            rng.range(2, opts.max_parents.max(2))
        } else {
            1
        };
        let mut parents: Vec<usize> = vec![];
        let mut tries = 0;
        while parents.len() < n_parents.min(dag.len()) && tries < 50 {
            tries += 1;
            let p = if rng.chance(2, 3) {
                dag.len() - 1 - rng.below(dag.len().min(5))
            } else {
                rng.below(dag.len())
            };
            if !parents.contains(&p) {
                parents.push(p);
            }
        }
        if parents.len() > 1 {
            parents.retain(|p| *p != 0);
            if parents.is_empty() {
                parents.push(0);
            }
        }
        let change_id = if dag.len() > 1 && rng.chance(opts.shared_change_percent, 100) {
            dag.change_id(rng.range(1, dag.len() - 1)).clone()
        } else {
            random_change_id(rng)
        };
        let description = format!("{tag}-{}", dag.len());
        added.push(add_commit(mut_repo, dag, &parents, None, Some(change_id), &description));
    }
    added
}

struct Effort {
    pairs: usize,
    sets: usize,
    changes: usize,
}

fn pick_nodes(rng: &mut Rng, n: usize, lo: usize, hi: usize) -> Vec<usize> {
    let k = rng.range(lo, hi);
    (0..k)
        .map(|_| {
            if rng.chance(1, 2) {
                n - 1 - rng.below(n.min(12))
            } else {
                rng.below(n)
            }
        })
        .collect()
}

/// Compares every kind of answer of one index with the dag. `dag` must hold
/// exactly the commits the index is expected to contain.
fn check_index(
    ctx: &Ctx,
    rng: &mut Rng,
    stage: &str,
    ix: &Ix,
    dag: &Dag,
    table: &Table,
    absent: &[CommitId],
    effort: &Effort,
) -> Check {
    let n = dag.len();
    let index = ix.index();
    let ids = |set: &BTreeSet<usize>| -> BTreeSet<String> { set.iter().map(|i| short(dag.id(*i))).collect() };
    let node_ids = |v: &[usize]| -> Vec<CommitId> { v.iter().map(|i| dag.id(*i).clone()).collect() };
    ctx.count(&format!("stage.{stage}"));

    ensure!(
        ix.num_commits() as usize == n,
        "num_commits",
        "[{stage}] index holds {} commits, the graph has {}",
        ix.num_commits(),
        n
    );

    // has_id
    for i in 0..n {
        ensure!(
            q(index.has_id(dag.id(i)).block_on()),
            "has_id.indexed_commit_missing",
            "[{stage}] has_id({}) = false for commit #{i} of the graph",
            short(dag.id(i))
        );
    }
    let id_len = dag.id(0).as_bytes().len();
    let mut absent: Vec<CommitId> = absent.to_vec();
    for _ in 0..4 {
        let bytes: Vec<u8> = (0..id_len).map(|_| rng.below(256) as u8).collect();
        absent.push(CommitId::new(bytes));
    }
    for id in &absent {
        if dag.idx(id).is_some() {
            continue;
        }
        ensure!(
            !q(index.has_id(id).block_on()),
            "has_id.unindexed_commit_reported",
            "[{stage}] has_id({}) = true for a commit that was never added to this index",
            short(id)
        );
        ctx.count("q.has_id.absent");
    }

    // is_ancestor
    let mut pairs: Vec<(usize, usize)> = vec![];
    if n <= 24 {
        for a in 0..n {
            for b in 0..n {
                pairs.push((a, b));
            }
        }
    }
    for _ in 0..effort.pairs {
        let b = pick_nodes(rng, n, 1, 1)[0];
        let a = if rng.chance(1, 2) {
            // a random ancestor of b, so that both outcomes are frequent
            let ancs: Vec<usize> = (0..=b).filter(|&a| table.is_anc(a, b)).collect();
            *rng.pick(&ancs)
        } else {
            pick_nodes(rng, n, 1, 1)[0]
        };
        pairs.push((a, b));
    }
    for (a, b) in pairs {
        let expected = table.is_anc(a, b);
        let got = q(index.is_ancestor(dag.id(a), dag.id(b)).block_on());
        ensure!(
            got == expected,
            "is_ancestor",
            "[{stage}] is_ancestor(#{a} {}, #{b} {}) = {got}, graph search says {expected}",
            short(dag.id(a)),
            short(dag.id(b))
        );
        ctx.count(if expected { "q.is_ancestor.true" } else { "q.is_ancestor.false" });
    }

    // common_ancestors
    for _ in 0..effort.sets {
        let s1 = pick_nodes(rng, n, 1, 3);
        let s2 = pick_nodes(rng, n, 1, 3);
        let expected = table.common_ancestors(&s1, &s2, n);
        let got = q(index.common_ancestors(&node_ids(&s1), &node_ids(&s2)).block_on());
        let got_set: BTreeSet<CommitId> = got.iter().cloned().collect();
        ensure!(
            got_set.len() == got.len(),
            "common_ancestors.duplicates",
            "[{stage}] common_ancestors({s1:?}, {s2:?}) returned duplicates: {:?}",
            got.iter().map(short).collect::<Vec<_>>()
        );
        ensure!(
            got_set == dag.ids(&expected),
            "common_ancestors",
            "[{stage}] common_ancestors(#{s1:?}, #{s2:?}) = {:?}, maximal common ancestors by graph search = {:?} (#{expected:?})",
            got.iter().map(short).collect::<BTreeSet<_>>(),
            ids(&expected)
        );
        ctx.count(match expected.len() {
            0 => "q.common_ancestors.none",
            1 => "q.common_ancestors.one",
            _ => "q.common_ancestors.several",
        });
    }

    // heads
    for k in 0..effort.sets {
        let cand: Vec<usize> = match k {
            0 => vec![],
            1 => (0..n).collect(),
            _ => {
                let hi = *rng.pick(&[1usize, 2, 3, 5, 8, 20]);
                let mut c = pick_nodes(rng, n, 1, hi);
                if rng.chance(1, 3) {
                    let d = c[0];
                    c.push(d); // duplicate candidate
                }
                c
            }
        };
        let set: BTreeSet<usize> = cand.iter().copied().collect();
        let expected = table.heads_of(&set);
        let cand_ids = node_ids(&cand);
        let got = q(index.heads(&mut cand_ids.iter()).block_on());
        let got_set: BTreeSet<CommitId> = got.iter().cloned().collect();
        ensure!(
            got_set.len() == got.len(),
            "heads.duplicates",
            "[{stage}] heads(#{cand:?}) returned duplicates: {:?}",
            got.iter().map(short).collect::<Vec<_>>()
        );
        ensure!(
            got_set == dag.ids(&expected),
            "heads",
            "[{stage}] heads(#{cand:?}) = {:?}, graph search says {:?} (#{expected:?})",
            got.iter().map(short).collect::<BTreeSet<_>>(),
            ids(&expected)
        );
        ctx.count("q.heads");
        if expected.len() < set.len() {
            ctx.count("q.heads.some_candidate_removed");
        }
    }

    // all heads
    let mut has_child = vec![false; n];
    for i in 0..n {
        for p in &dag.nodes[i].parents {
            has_child[*p] = true;
        }
    }
    let all_heads: BTreeSet<usize> = (0..n).filter(|i| !has_child[*i]).collect();
    {
        let got: Vec<CommitId> = match index.all_heads_for_gc() {
            Ok(it) => it.collect(),
            Err(e) => panic!("all_heads_for_gc unsupported: {e:?}"),
        };
        let got_set: BTreeSet<CommitId> = got.iter().cloned().collect();
        ensure!(
            got_set.len() == got.len() && got_set == dag.ids(&all_heads),
            "all_heads_for_gc",
            "[{stage}] all_heads_for_gc = {:?}, childless commits of the graph = {:?}",
            got.iter().map(short).collect::<Vec<_>>(),
            ids(&all_heads)
        );
    }

    // change ids
    let mut by_change: BTreeMap<ChangeId, Vec<usize>> = BTreeMap::new();
    for i in 0..n {
        by_change.entry(dag.change_id(i).clone()).or_default().push(i);
    }
    let multi: Vec<&ChangeId> = by_change.iter().filter(|(_, v)| v.len() > 1).map(|(c, _)| c).collect();
    let all_changes: Vec<&ChangeId> = by_change.keys().collect();
    for round in 0..2 {
        let head_nodes: Vec<usize> = if round == 0 {
            all_heads.iter().copied().collect()
        } else {
            pick_nodes(rng, n, 1, 4)
        };
        let visible = table.ancestors_of(&head_nodes, n);
        let cix = ix.change_id_index(&node_ids(&head_nodes));
        for k in 0..effort.changes {
            let c: &ChangeId = if !multi.is_empty() && k % 2 == 0 { *rng.pick(&multi) } else { *rng.pick(&all_changes) };
            let nodes = &by_change[c];
            let exp_visible: BTreeSet<CommitId> =
                nodes.iter().filter(|i| visible[**i]).map(|i| dag.id(*i).clone()).collect();
            let exp_hidden: BTreeSet<CommitId> =
                nodes.iter().filter(|i| !visible[**i]).map(|i| dag.id(*i).clone()).collect();
            let got = q(cix.resolve_prefix(&HexPrefix::from_id(c)).block_on());
            let PrefixResolution::SingleMatch(targets) = got else {
                return fail(
                    "change_id.full_id_not_resolved",
                    format!("[{stage}] full change id {} (commits #{nodes:?}) resolved to {got:?}", c.hex()),
                );
            };
            check_targets(stage, c, &targets, &exp_visible, &exp_hidden, "change_id")?;
            ctx.count("q.change_id");
            if nodes.len() > 1 {
                ctx.count("q.change_id.several_commits");
            }
            if !exp_hidden.is_empty() {
                ctx.count("q.change_id.with_hidden_commits");
            }
        }
        let unknown = random_change_id(rng);
        if !by_change.contains_key(&unknown) {
            let got = q(cix.resolve_prefix(&HexPrefix::from_id(&unknown)).block_on());
            ensure!(
                got == PrefixResolution::NoMatch,
                "change_id.unknown_id_resolved",
                "[{stage}] change id {} is not in the graph but resolved to {got:?}",
                unknown.hex()
            );
        }
    }

    // generation numbers and statistics (readonly API only)
    if let Ix::Ro(ro) = ix {
        let mut max_generation = 0;
        for i in 0..n {
            let expected = table.generation[i];
            max_generation = max_generation.max(expected);
            let got = ro.generation_number(dag.id(i));
            ensure!(
                got == Some(expected),
                "generation_number",
                "[{stage}] generation_number(#{i} {}) = {got:?}, longest path from the root = {expected}",
                short(dag.id(i))
            );
        }
        ctx.count_n("q.generation_number", n as u64);
        let stats = ro.stats();
        let merges = (0..n).filter(|i| dag.nodes[*i].parents.len() > 1).count();
        ensure!(
            stats.num_commits as usize == n
                && stats.num_merges as usize == merges
                && stats.max_generation_number == max_generation
                && stats.num_heads as usize == all_heads.len()
                && stats.num_changes as usize == by_change.len(),
            "stats",
            "[{stage}] stats = commits {} merges {} max_generation {} heads {} changes {}; graph = {} {} {} {} {}",
            stats.num_commits,
            stats.num_merges,
            stats.max_generation_number,
            stats.num_heads,
            stats.num_changes,
            n,
            merges,
            max_generation,
            all_heads.len(),
            by_change.len()
        );
        let levels = stats.commit_levels.len();
        ctx.count(&format!("segment_levels.{levels}"));
        ctx.max("segment_levels_max", levels as u64);
    }
    Ok(())
}

/// Targets of a resolved change id: the commits flagged visible must be
/// exactly the visible commits of the change; commits flagged hidden must be
/// hidden commits of the change (the trait allows hidden ones to be omitted).
fn check_targets(
    stage: &str,
    c: &ChangeId,
    targets: &ResolvedChangeTargets,
    exp_visible: &BTreeSet<CommitId>,
    exp_hidden: &BTreeSet<CommitId>,
    clause: &str,
) -> Check {
    let all: Vec<&CommitId> = targets.targets.iter().map(|(id, _)| id).collect();
    let all_set: BTreeSet<&CommitId> = all.iter().copied().collect();
    ensure!(
        all.len() == all_set.len(),
        format!("{clause}.duplicate_targets"),
        "[{stage}] change {} resolved with duplicates: {:?}",
        c.hex(),
        targets.targets
    );
    let got_visible: BTreeSet<CommitId> = targets
        .targets
        .iter()
        .filter(|(_, s)| *s == ResolvedChangeState::Visible)
        .map(|(id, _)| id.clone())
        .collect();
    ensure!(
        &got_visible == exp_visible,
        format!("{clause}.visible_commits_mismatch"),
        "[{stage}] change {} ({}): visible targets {:?}, visible commits of that change in the graph {:?} (hidden ones: {:?})",
        c.hex(),
        c.reverse_hex(),
        got_visible.iter().map(short).collect::<Vec<_>>(),
        exp_visible.iter().map(short).collect::<Vec<_>>(),
        exp_hidden.iter().map(short).collect::<Vec<_>>()
    );
    for (id, state) in &targets.targets {
        if *state == ResolvedChangeState::Hidden {
            ensure!(
                exp_hidden.contains(id),
                format!("{clause}.hidden_target_not_a_hidden_commit_of_change"),
                "[{stage}] change {}: target {} is flagged hidden but is not a hidden commit of that change",
                c.hex(),
                short(id)
            );
        }
    }
    Ok(())
}

#[derive(Clone, Debug)]
enum Round {
    Seq(usize),
    /// Sizes of transactions started from the same operation; `true` plants
    /// one identical commit in every one of them.
    Concurrent(Vec<usize>, bool),
}

#[derive(Clone, Debug)]
struct Plan18 {
    pattern: &'static str,
    rounds: Vec<Round>,
    opts: GrowOpts,
    stale_merge: bool,
    rebuild: bool,
}

fn gen_plan18(rng: &mut Rng, budget: usize) -> Plan18 {
    let patterns = ["descending", "ones", "random", "ascending", "sawtooth"];
    let pattern = patterns[rng.below(patterns.len())];
    let mut sizes: Vec<usize> = vec![];
    match pattern {
        "descending" => {
            let mut s = rng.range(24, 64);
            while s >= 1 {
                sizes.push(s);
                s = s * rng.range(25, 48) / 100;
            }
            for _ in 0..rng.range(0, 4) {
                sizes.push(1);
            }
        }
        "ones" => {
            sizes.push(rng.range(1, 12));
            for _ in 0..rng.range(8, 22) {
                sizes.push(rng.range(1, 2));
            }
        }
        "random" => {
            for _ in 0..rng.range(4, 12) {
                sizes.push(if rng.chance(1, 4) { rng.range(10, 40) } else { rng.range(1, 8) });
            }
        }
        "ascending" => {
            let mut s = 1;
            for _ in 0..rng.range(4, 8) {
                sizes.push(s);
                s = s * 2 + rng.below(2);
            }
        }
        _ => {
            for _ in 0..rng.range(2, 3) {
                let mut s = rng.range(12, 32);
                while s >= 1 {
                    sizes.push(s);
                    s = s * rng.range(30, 45) / 100;
                }
            }
        }
    }
    let mut total = 0;
    let mut rounds = vec![];
    for s in sizes {
        if total + s > budget {
            break;
        }
        if rng.chance(1, 4) {
            let k = rng.range(2, 3);
            let mut v = vec![s];
            for _ in 1..k {
                v.push(rng.range(1, s.max(2)));
            }
            total += v.iter().sum::<usize>() + 1;
            rounds.push(Round::Concurrent(v, rng.chance(1, 2)));
        } else {
            total += s;
            rounds.push(Round::Seq(s));
        }
    }
    if !rounds.iter().any(|r| matches!(r, Round::Concurrent(..))) && rng.chance(2, 3) {
        let at = rng.below(rounds.len() + 1);
        rounds.insert(at, Round::Concurrent(vec![rng.range(1, 6), rng.range(1, 6)], rng.bool()));
    }
    Plan18 {
        pattern,
        rounds,
        opts: GrowOpts {
            max_parents: rng.range(2, 5),
            merge_percent: *rng.pick(&[10usize, 25, 40]),
            shared_change_percent: *rng.pick(&[0usize, 15, 40]),
        },
        stale_merge: rng.chance(2, 3),
        rebuild: rng.chance(1, 2),
    }
}

fn plan18_json(plan: &Plan18) -> Value {
    json!({
        "pattern": plan.pattern,
        "rounds": plan.rounds.iter().map(|r| format!("{r:?}")).collect::<Vec<_>>(),
        "opts": format!("{:?}", plan.opts),
        "stale_merge": plan.stale_merge,
        "rebuild": plan.rebuild,
    })
}

#[derive(Default)]
struct Seen18 {
    max_levels: usize,
    merges: usize,
    octopus: usize,
    shared_changes: usize,
    graph_hash: u64,
}

fn run_case18(ctx: &Ctx, rng: &mut Rng, plan: &Plan18, seen: &mut Seen18) -> Check {
    let settings = stable_settings();
    let test_repo = TestRepo::init_with_settings(&settings);
    let mut repo: Arc<ReadonlyRepo> = test_repo.repo.clone();
    let mut dag = Dag::new(repo.store());
    let mut table = Table::default();
    table.sync(&dag);
    let effort = Effort { pairs: 40, sets: 10, changes: 6 };
    let mut history: Vec<(Arc<ReadonlyRepo>, Dag)> = vec![(repo.clone(), dag.clone())];
    let mut prev_levels = levels_of(readonly_index(&repo)).len();

    for (r, round) in plan.rounds.iter().enumerate() {
        match round {
            Round::Seq(size) => {
                let mut tx = repo.start_transaction();
                grow(rng, tx.repo_mut(), &mut dag, *size, &plan.opts, &format!("r{r}"));
                table.sync(&dag);
                if rng.chance(2, 3) {
                    let ix = Ix::Mu(mutable_index(tx.repo()));
                    check_index(ctx, rng, "mutable_in_transaction", &ix, &dag, &table, &[], &effort)?;
                }
                repo = tx.commit("seq").block_on().expect("transaction commit");
            }
            Round::Concurrent(sizes, twins) => {
                let base = repo.clone();
                let base_len = dag.len();
                let twin_change = random_change_id(rng);
                let twin_parent = rng.below(base_len);
                let mut sides: Vec<(Dag, Table)> = vec![];
                let mut committed: Vec<Arc<ReadonlyRepo>> = vec![];
                let mut txs = vec![];
                for (k, size) in sizes.iter().enumerate() {
                    let mut tx = base.start_transaction();
                    let mut d = dag.clone();
                    let mut t = table.clone();
                    if *twins {
                        // Same parents, change id, description and (fixed) timestamp in
                        // every transaction: the very same commit on all sides.
                        add_commit(tx.repo_mut(), &mut d, &[twin_parent], None, Some(twin_change.clone()), &format!("twin-r{r}"));
                    }
                    grow(rng, tx.repo_mut(), &mut d, *size, &plan.opts, &format!("r{r}t{k}"));
                    t.sync(&d);
                    sides.push((d, t));
                    txs.push(tx);
                }
                if *twins {
                    let id0 = sides[0].0.id(base_len).clone();
                    assert!(sides.iter().all(|(d, _)| d.id(base_len) == &id0), "twin commits must be identical");
                    ctx.count("twin_commit_written_by_concurrent_transactions");
                }
                for (k, tx) in txs.iter().enumerate() {
                    let (d, t) = &sides[k];
                    let absent: Vec<CommitId> = sides
                        .iter()
                        .enumerate()
                        .filter(|(j, _)| *j != k)
                        .flat_map(|(_, (od, _))| (base_len..od.len()).map(|i| od.id(i).clone()).collect::<Vec<_>>())
                        .collect();
                    let ix = Ix::Mu(mutable_index(tx.repo()));
                    check_index(ctx, rng, "mutable_in_concurrent_transaction", &ix, d, t, &absent, &effort)?;
                }
                for tx in txs {
                    committed.push(tx.commit("concurrent").block_on().expect("transaction commit"));
                }
                for (k, side_repo) in committed.iter().enumerate() {
                    let (d, t) = &sides[k];
                    let ix = Ix::Ro(readonly_index(side_repo));
                    check_index(ctx, rng, "readonly_one_concurrent_side", &ix, d, t, &[], &effort)?;
                }
                // The union of all sides, and the index-level merge on its own (what
                // load_at_head does before it merges the views): a transaction on the
                // first side pulls in the indexes of the others.
                let (d0, t0) = sides.remove(0);
                let mut union = d0;
                let mut union_table = t0;
                for (d, _) in &sides {
                    for i in base_len..d.len() {
                        union.add(d.commit(i).clone(), None);
                    }
                }
                union_table.sync(&union);
                {
                    let mut tx = committed[0].start_transaction();
                    for other in &committed[1..] {
                        q(tx.repo_mut().merge_index(other));
                    }
                    let ix = Ix::Mu(mutable_index(tx.repo()));
                    check_index(ctx, rng, "mutable_after_merge_index_of_concurrent_sides", &ix, &union, &union_table, &[], &effort)?;
                }
                // Same steps as testutils::commit_transactions (without its
                // assertion on operation parent order, which is not part of C18).
                repo = base.loader().load_at_head().block_on().expect("load_at_head merges the operations");
                assert!(repo.operation().parent_ids().len() == sizes.len(), "expected a merge operation");
                dag = union;
                table = union_table;
                let ix = Ix::Ro(readonly_index(&repo));
                check_index(ctx, rng, "readonly_after_merging_concurrent_operations", &ix, &dag, &table, &[], &effort)?;
            }
        }
        if matches!(round, Round::Seq(_)) {
            let ix = Ix::Ro(readonly_index(&repo));
            check_index(ctx, rng, "readonly_after_commit", &ix, &dag, &table, &[], &effort)?;
        }
        let levels = levels_of(readonly_index(&repo));
        if levels.len() <= prev_levels && levels.len() > 0 && r > 0 {
            ctx.count("squash_or_same_depth_after_commit");
        }
        if levels.len() < prev_levels {
            ctx.count("squash_reduced_stack_depth");
        }
        prev_levels = levels.len();
        seen.max_levels = seen.max_levels.max(levels.len());
        history.push((repo.clone(), dag.clone()));
        if rng.chance(1, 4) || r + 1 == plan.rounds.len() {
            let fresh = test_repo.env.load_repo_at_head(&settings, test_repo.repo_path());
            assert!(fresh.op_id() == repo.op_id(), "fresh load must see the same head operation");
            let ix = Ix::Ro(readonly_index(&fresh));
            check_index(ctx, rng, "readonly_reloaded_from_disk", &ix, &dag, &table, &[], &effort)?;
        }
    }

    if plan.stale_merge && history.len() >= 3 {
        // A transaction on an old operation pulls in the newest index (merge_in
        // across different segment stacks), and the other way round.
        let (old_repo, old_dag) = &history[rng.below(history.len() - 1)];
        let mut tx = old_repo.start_transaction();
        let mut side = old_dag.clone();
        let extra = rng.range(0, 5);
        grow(rng, tx.repo_mut(), &mut side, extra, &plan.opts, "stale");
        q(tx.repo_mut().merge_index(&repo));
        let mut union = dag.clone();
        for i in old_dag.len()..side.len() {
            union.add(side.commit(i).clone(), None);
        }
        let mut t = table.clone();
        t.sync(&union);
        let ix = Ix::Mu(mutable_index(tx.repo()));
        check_index(ctx, rng, "mutable_after_merge_index_of_newer_operation", &ix, &union, &t, &[], &effort)?;
        drop(tx);
        let mut tx = repo.start_transaction();
        q(tx.repo_mut().merge_index(old_repo));
        let ix = Ix::Mu(mutable_index(tx.repo()));
        check_index(ctx, rng, "mutable_after_merge_index_of_older_operation", &ix, &dag, &table, &[], &effort)?;
    }

    if plan.rebuild {
        let store: &DefaultIndexStore = repo.index_store().downcast_ref().expect("default index store");
        store.reinit().expect("reinit index store");
        let rebuilt = store
            .build_index_at_operation(repo.operation(), repo.store())
            .block_on()
            .expect("rebuild index from scratch");
        let ix = Ix::Ro(&rebuilt);
        check_index(ctx, rng, "readonly_rebuilt_from_scratch", &ix, &dag, &table, &[], &effort)?;
    }

    seen.merges = dag.nodes.iter().filter(|n| n.parents.len() > 1).count();
    seen.octopus = dag.nodes.iter().filter(|n| n.parents.len() > 2).count();
    let mut per_change: BTreeMap<&ChangeId, usize> = BTreeMap::new();
    for i in 0..dag.len() {
        *per_change.entry(dag.change_id(i)).or_default() += 1;
    }
    seen.shared_changes = per_change.values().filter(|c| **c > 1).count();
    seen.graph_hash = stable_hash(
        &dag.nodes
            .iter()
            .map(|n| (n.commit.id().to_bytes(), n.parents.clone()))
            .collect::<Vec<_>>(),
    );
    ctx.count_n("commits_total", dag.len() as u64);
    ctx.count_n("commits_with_more_than_two_parents_overflow_encoding", seen.octopus as u64);
    ctx.count_n("change_ids_with_several_commits", seen.shared_changes as u64);
    ctx.max("commits_in_one_case_max", dag.len() as u64);
    Ok(())
}

pub fn run_c18(ctx: &Ctx) -> i32 {
    ctx.set_rule(
        "A fresh on-disk repo per case; random DAGs (1-5 parents, up to 40% merges, up to 40% of commits \
         reusing an existing change id) added over 4-25 transactions whose sizes follow a pattern \
         (descending / all ones / random / ascending / sawtooth) so that segment files stack and squash; \
         some rounds are 2-3 concurrent transactions on the same operation (optionally all writing one \
         identical commit) merged by load_at_head. After every step has_id, is_ancestor, common_ancestors, \
         heads, all_heads_for_gc, generation numbers, stats and change-id lookups (with all heads and with \
         random heads as the visible set) are compared with graph search on the harness' own Dag: on the \
         mutable index inside the transaction, the readonly index after commit, a fresh load from disk, \
         after merge_index with an older/newer operation, and after reindexing from scratch. \
         Non-trivial: the case reached a segment stack of depth >= 2 and contains a merge commit. \
         Distinct: by (commit ids, parent lists) of the final graph.",
    );
    let n = ctx.tier().pick(160, 6000);
    let budget = ctx.tier().pick(150, 400);
    par_cases(ctx, n, threads(), |i, cs, rng| {
        let plan = gen_plan18(rng, budget);
        let mut seen = Seen18::default();
        let mut oracle_rng = rng.fork();
        run_case(ctx, i, cs, || plan18_json(&plan), || run_case18(ctx, &mut oracle_rng, &plan, &mut seen));
        let nontrivial = seen.max_levels >= 2 && seen.merges > 0;
        ctx.case(seen.graph_hash, nontrivial);
        ctx.count(&format!("pattern.{}", plan.pattern));
        if nontrivial {
            ctx.sample(|| plan18_json(&plan));
        }
    });
    ctx.assume("index answers are compared as sets; the order of returned ids is not part of the property");
    ctx.finish(ctx.tier().pick(60, 1500))
}

// ---------------------------------------------------------------------------
// C20

fn nibble(bytes: &[u8], i: usize) -> u8 {
    let b = bytes[i / 2];
    if i % 2 == 0 { b >> 4 } else { b & 0xf }
}

/// First `n` hex digits of `bytes`, one digit per element.
fn digits(bytes: &[u8], n: usize) -> Vec<u8> {
    (0..n).map(|i| nibble(bytes, i)).collect()
}

fn has_prefix(bytes: &[u8], prefix: &[u8]) -> bool {
    prefix.len() <= bytes.len() * 2 && prefix.iter().enumerate().all(|(i, d)| nibble(bytes, i) == *d)
}

fn common_digits(a: &[u8], b: &[u8]) -> usize {
    let n = a.len().min(b.len()) * 2;
    (0..n).take_while(|&i| nibble(a, i) == nibble(b, i)).count()
}

fn hex_string(prefix: &[u8]) -> String {
    prefix.iter().map(|d| b"0123456789abcdef"[*d as usize] as char).collect()
}

fn reverse_hex_string(prefix: &[u8]) -> String {
    prefix.iter().map(|d| b"zyxwvutsrqponmlk"[*d as usize] as char).collect()
}

/// Commit id prefix as a user would type it (plain hex).
fn commit_prefix(prefix: &[u8]) -> HexPrefix {
    HexPrefix::try_from_hex(hex_string(prefix)).expect("valid hex prefix")
}

/// Change id prefix as a user would type it ("reverse" hex, as displayed).
fn change_prefix(prefix: &[u8]) -> HexPrefix {
    HexPrefix::try_from_reverse_hex(reverse_hex_string(prefix)).expect("valid reverse hex prefix")
}

struct Model20<'a> {
    dag: &'a Dag,
    /// Per node: reachable from the visible heads.
    visible: Vec<bool>,
    by_change: BTreeMap<ChangeId, Vec<usize>>,
}

impl<'a> Model20<'a> {
    fn new(dag: &'a Dag, hidden: &BTreeSet<usize>) -> Self {
        let visible: Vec<bool> = (0..dag.len()).map(|i| !hidden.contains(&i)).collect();
        let mut by_change: BTreeMap<ChangeId, Vec<usize>> = BTreeMap::new();
        for i in 0..dag.len() {
            by_change.entry(dag.change_id(i).clone()).or_default().push(i);
        }
        Self { dag, visible, by_change }
    }

    fn commits_matching(&self, prefix: &[u8]) -> Vec<usize> {
        (0..self.dag.len()).filter(|i| has_prefix(self.dag.id(*i).as_bytes(), prefix)).collect()
    }

    fn changes_matching(&self, prefix: &[u8]) -> Vec<&ChangeId> {
        self.by_change.keys().filter(|c| has_prefix(c.as_bytes(), prefix)).collect()
    }

    fn expected_targets(&self, c: &ChangeId) -> (BTreeSet<CommitId>, BTreeSet<CommitId>) {
        let nodes = self.by_change.get(c).cloned().unwrap_or_default();
        let vis = nodes.iter().filter(|i| self.visible[**i]).map(|i| self.dag.id(*i).clone()).collect();
        let hid = nodes.iter().filter(|i| !self.visible[**i]).map(|i| self.dag.id(*i).clone()).collect();
        (vis, hid)
    }
}

/// Which lengths shorter than `n` to probe: all of them when `n` is small.
fn shorter_lengths(rng: &mut Rng, n: usize) -> Vec<usize> {
    if n <= 12 {
        (0..n).collect()
    } else {
        let mut v = vec![0, 1, 2, 7, 8, 9, n - 3, n - 2, n - 1];
        for _ in 0..3 {
            v.push(rng.below(n));
        }
        v.sort_unstable();
        v.dedup();
        v.retain(|m| *m < n);
        v
    }
}

/// Property clauses for one commit id. `dset`: the disambiguation set (node
/// indices) the `IdPrefixIndex` was built from, if any.
///
/// Scope of "unique/minimal" (as id_prefix.rs documents): ids inside the
/// disambiguation set are disambiguated among the set only; every other id
/// among all indexed commits (visible or not). Resolution looks in the set
/// first and falls back to the whole index when nothing in the set matches.
fn check_commit_prefix(
    ctx: &Ctx,
    rng: &mut Rng,
    stage: &str,
    pidx: &IdPrefixIndex,
    repo: &dyn Repo,
    model: &Model20,
    dset: Option<&BTreeSet<usize>>,
    x: usize,
) -> Check {
    let id = model.dag.id(x);
    let bytes = id.as_bytes();
    let n = q(pidx.shortest_commit_prefix_len(repo, id));
    ensure!(
        n >= 1 && n <= bytes.len() * 2,
        "commit.length_out_of_range",
        "[{stage}] shortest prefix length of {} is {n}",
        id.hex()
    );
    let in_set = dset.is_some_and(|d| d.contains(&x));
    let in_scope = |i: usize| if in_set { dset.unwrap().contains(&i) } else { true };
    let scope_matches = |p: &[u8]| model.commits_matching(p).into_iter().filter(|i| in_scope(*i)).count();

    // unique (brute-force scan of the scope)
    let p = digits(bytes, n);
    ensure!(
        scope_matches(&p) == 1,
        "commit.shortest_prefix_not_unique",
        "[{stage}] commit {} reported length {n}, but prefix {} matches {} ids in scope ({})",
        id.hex(),
        hex_string(&p),
        scope_matches(&p),
        if in_set { "disambiguation set" } else { "all indexed commits" }
    );
    // resolvable
    let r = q(pidx.resolve_commit_prefix(repo, &commit_prefix(&p)));
    ensure!(
        r == PrefixResolution::SingleMatch(id.clone()),
        "commit.shortest_prefix_does_not_resolve_back",
        "[{stage}] commit {} reported length {n}, but prefix {} resolves to {r:?}",
        id.hex(),
        hex_string(&p)
    );
    if n % 2 == 1 {
        ctx.count("commit.odd_length_shortest_prefix");
    }
    // minimal (scan)
    if n > 1 {
        ensure!(
            scope_matches(&p[..n - 1]) >= 2,
            "commit.not_minimal_per_scan",
            "[{stage}] commit {} reported length {n}, but the {}-digit prefix {} is already unique in scope",
            id.hex(),
            n - 1,
            hex_string(&p[..n - 1])
        );
    }
    // minimal (every shorter prefix is ambiguous or resolves to something else)
    for m in shorter_lengths(rng, n) {
        let pm = &p[..m];
        let r = q(pidx.resolve_commit_prefix(repo, &commit_prefix(pm)));
        match &r {
            PrefixResolution::AmbiguousMatch => {
                ensure!(
                    model.commits_matching(pm).len() >= 2,
                    "commit.ambiguous_but_scan_finds_one",
                    "[{stage}] prefix {} of {} is reported ambiguous but only one indexed commit has it",
                    hex_string(pm),
                    id.hex()
                );
                ctx.count("commit.shorter_prefix.ambiguous");
            }
            PrefixResolution::SingleMatch(other) => {
                ensure!(
                    other != id,
                    "commit.shorter_prefix_still_resolves",
                    "[{stage}] commit {} reported length {n}, but the shorter prefix {} also resolves to it",
                    id.hex(),
                    hex_string(pm)
                );
                ensure!(
                    has_prefix(other.as_bytes(), pm) && model.dag.idx(other).is_some(),
                    "commit.resolved_id_lacks_prefix",
                    "[{stage}] prefix {} resolved to {}",
                    hex_string(pm),
                    other.hex()
                );
                ctx.count("commit.shorter_prefix.resolves_elsewhere");
            }
            PrefixResolution::NoMatch => {
                return fail(
                    "commit.shorter_prefix_no_match",
                    format!("[{stage}] prefix {} of the indexed commit {} resolves to NoMatch", hex_string(pm), id.hex()),
                );
            }
        }
        if m % 2 == 1 {
            ctx.count("commit.odd_length_probe");
        }
    }
    ctx.count("commit.checked");
    ctx.max("commit.shortest_len_max", n as u64);
    if dset.is_some() {
        ctx.count(if in_set { "commit.in_disambiguation_set" } else { "commit.fallback_to_whole_index" });
    }
    Ok(())
}

/// Property clauses for one change id (see `check_commit_prefix` for scope).
fn check_change_prefix(
    ctx: &Ctx,
    rng: &mut Rng,
    stage: &str,
    pidx: &IdPrefixIndex,
    repo: &dyn Repo,
    model: &Model20,
    dchanges: Option<&BTreeSet<ChangeId>>,
    c: &ChangeId,
) -> Check {
    let bytes = c.as_bytes();
    let n = q(pidx.shortest_change_prefix_len(repo, c).block_on());
    ensure!(
        n >= 1 && n <= bytes.len() * 2,
        "change.length_out_of_range",
        "[{stage}] shortest prefix length of change {} is {n}",
        c.hex()
    );
    let in_set = dchanges.is_some_and(|d| d.contains(c));
    let scope_matches = |p: &[u8]| {
        model
            .changes_matching(p)
            .into_iter()
            .filter(|o| if in_set { dchanges.unwrap().contains(*o) } else { true })
            .count()
    };
    let (exp_visible, exp_hidden) = model.expected_targets(c);
    let p = digits(bytes, n);
    ensure!(
        scope_matches(&p) == 1,
        "change.shortest_prefix_not_unique",
        "[{stage}] change {} ({}) reported length {n}, but prefix {} matches {} change ids in scope ({})",
        c.hex(),
        c.reverse_hex(),
        hex_string(&p),
        scope_matches(&p),
        if in_set { "disambiguation set" } else { "all indexed commits incl. hidden" }
    );
    let r = q(pidx.resolve_change_prefix(repo, &change_prefix(&p)).block_on());
    match &r {
        PrefixResolution::SingleMatch(targets) => {
            check_targets(stage, c, targets, &exp_visible, &exp_hidden, "change")?;
            if !exp_hidden.is_empty() && targets.targets.iter().any(|(_, s)| *s == ResolvedChangeState::Hidden) {
                ctx.count("change.hidden_targets_flagged");
            }
            if exp_visible.len() > 1 {
                ctx.count("change.divergent_resolved");
            }
            if exp_visible.is_empty() {
                ctx.count("change.hidden_only_resolved");
            }
        }
        // A change without visible commits has nothing to resolve to.
        PrefixResolution::NoMatch if exp_visible.is_empty() => {
            ctx.count("change.hidden_only_no_match");
        }
        _ => {
            return fail(
                "change.shortest_prefix_does_not_resolve_back",
                format!(
                    "[{stage}] change {} ({}) reported length {n}, but prefix {} resolves to {r:?}",
                    c.hex(),
                    c.reverse_hex(),
                    reverse_hex_string(&p)
                ),
            );
        }
    }
    if n % 2 == 1 {
        ctx.count("change.odd_length_shortest_prefix");
    }
    if n > 1 {
        ensure!(
            scope_matches(&p[..n - 1]) >= 2,
            "change.not_minimal_per_scan",
            "[{stage}] change {} reported length {n}, but the {}-digit prefix is already unique in scope",
            c.hex(),
            n - 1
        );
    }
    for m in shorter_lengths(rng, n) {
        let pm = &p[..m];
        let r = q(pidx.resolve_change_prefix(repo, &change_prefix(pm)).block_on());
        match &r {
            PrefixResolution::AmbiguousMatch => {
                ensure!(
                    model.changes_matching(pm).len() >= 2,
                    "change.ambiguous_but_scan_finds_one",
                    "[{stage}] prefix {} of change {} is reported ambiguous but only one indexed change id has it",
                    hex_string(pm),
                    c.hex()
                );
                ctx.count("change.shorter_prefix.ambiguous");
            }
            PrefixResolution::SingleMatch(targets) => {
                let own: BTreeSet<&CommitId> = exp_visible.iter().chain(exp_hidden.iter()).collect();
                ensure!(
                    !targets.targets.iter().any(|(id, _)| own.contains(id)),
                    "change.shorter_prefix_still_resolves",
                    "[{stage}] change {} reported length {n}, but the shorter prefix {} also resolves to its commits",
                    c.hex(),
                    hex_string(pm)
                );
                // "resolves to something else": all targets belong to one other change with that prefix
                let mut others: BTreeSet<&ChangeId> = BTreeSet::new();
                for (id, _) in &targets.targets {
                    match model.dag.idx(id) {
                        Some(i) => {
                            others.insert(model.dag.change_id(i));
                        }
                        None => {
                            return fail(
                                "change.resolved_to_unknown_commit",
                                format!("[{stage}] prefix {} resolved to unknown commit {}", hex_string(pm), id.hex()),
                            );
                        }
                    }
                }
                ensure!(
                    others.len() == 1 && others.iter().all(|o| has_prefix(o.as_bytes(), pm)),
                    "change.resolved_change_lacks_prefix",
                    "[{stage}] prefix {} resolved to commits of changes {:?}",
                    hex_string(pm),
                    others.iter().map(|o| o.hex()).collect::<Vec<_>>()
                );
                let other = *others.iter().next().unwrap();
                let (ov, oh) = model.expected_targets(other);
                check_targets(stage, other, targets, &ov, &oh, "change")?;
                ctx.count("change.shorter_prefix.resolves_elsewhere");
            }
            PrefixResolution::NoMatch => {
                ensure!(
                    exp_visible.is_empty(),
                    "change.shorter_prefix_no_match",
                    "[{stage}] prefix {} of the visible change {} resolves to NoMatch",
                    hex_string(pm),
                    c.hex()
                );
            }
        }
        if m % 2 == 1 {
            ctx.count("change.odd_length_probe");
        }
    }
    ctx.count("change.checked");
    ctx.max("change.shortest_len_max", n as u64);
    if n > 8 {
        ctx.count("change.shortest_len_beyond_4_bytes");
    }
    if dchanges.is_some() {
        ctx.count(if in_set { "change.in_disambiguation_set" } else { "change.fallback_to_whole_index" });
    }
    Ok(())
}

/// Index-level API (no `IdPrefixContext`): scope is all indexed ids; the
/// brute-force scan decides NoMatch / SingleMatch / AmbiguousMatch for
/// arbitrary probes, including prefixes that match nothing.
fn check_index_level(ctx: &Ctx, rng: &mut Rng, stage: &str, repo: &dyn Repo, model: &Model20, nodes: &[usize]) -> Check {
    let index = repo.index();
    let dag = model.dag;
    for &x in nodes {
        let id = dag.id(x);
        let n = q(index.shortest_unique_commit_id_prefix_len(id).block_on());
        let expected = 1 + (0..dag.len())
            .filter(|o| *o != x)
            .map(|o| common_digits(id.as_bytes(), dag.id(o).as_bytes()))
            .max()
            .unwrap_or(0);
        ensure!(
            n == expected,
            "index.shortest_unique_commit_id_prefix_len",
            "[{stage}] shortest_unique_commit_id_prefix_len({}) = {n}; longest prefix shared with another indexed commit + 1 = {expected}",
            id.hex()
        );
        ctx.count("index.commit_len_checked");
        if expected >= 4 {
            ctx.count("index.commit_shares_3_or_more_digits");
        }
        if expected >= 5 {
            ctx.count("index.commit_shares_4_or_more_digits");
        }
        if expected >= 6 {
            ctx.count("index.commit_shares_5_or_more_digits");
        }
    }
    // probes
    for _ in 0..nodes.len().min(150) {
        let x = *rng.pick(nodes);
        let bytes = dag.id(x).as_bytes();
        let len = rng.range(1, 7);
        let mut p = digits(bytes, len);
        if rng.chance(1, 2) {
            let last = p.len() - 1;
            p[last] = (p[last] + 1 + rng.below(15) as u8) % 16;
        }
        let matches = model.commits_matching(&p);
        let expected = match matches.len() {
            0 => PrefixResolution::NoMatch,
            1 => PrefixResolution::SingleMatch(dag.id(matches[0]).clone()),
            _ => PrefixResolution::AmbiguousMatch,
        };
        let got = q(index.resolve_commit_id_prefix(&commit_prefix(&p)).block_on());
        ensure!(
            got == expected,
            "index.resolve_commit_id_prefix",
            "[{stage}] resolve_commit_id_prefix({}) = {got:?}; a scan of all indexed commits gives {expected:?}",
            hex_string(&p)
        );
        ctx.count(match expected {
            PrefixResolution::NoMatch => "index.commit_probe.no_match",
            PrefixResolution::SingleMatch(_) => "index.commit_probe.single",
            PrefixResolution::AmbiguousMatch => "index.commit_probe.ambiguous",
        });
    }
    let changes: Vec<&ChangeId> = model.by_change.keys().collect();
    for _ in 0..changes.len().min(150) {
        let c = *rng.pick(&changes);
        let len = *rng.pick(&[1usize, 2, 3, 4, 7, 8, 9, 10, 15, 16, 17, 24, 31, 32]);
        let mut p = digits(c.as_bytes(), len);
        if rng.chance(1, 3) {
            let last = p.len() - 1;
            p[last] = (p[last] + 1 + rng.below(15) as u8) % 16;
        }
        let matches = model.changes_matching(&p);
        let got = q(repo.resolve_change_id_prefix(&change_prefix(&p)).block_on());
        match (matches.len(), &got) {
            (0, PrefixResolution::NoMatch) => ctx.count("index.change_probe.no_match"),
            (1, PrefixResolution::SingleMatch(targets)) => {
                let (v, h) = model.expected_targets(matches[0]);
                check_targets(stage, matches[0], targets, &v, &h, "index.change_probe")?;
                ctx.count("index.change_probe.single");
            }
            (k, PrefixResolution::AmbiguousMatch) if k >= 2 => ctx.count("index.change_probe.ambiguous"),
            _ => {
                return fail(
                    "index.resolve_change_id_prefix",
                    format!(
                        "[{stage}] resolve_change_id_prefix({}) = {got:?}; a scan of all indexed change ids finds {} match(es): {:?}",
                        reverse_hex_string(&p),
                        matches.len(),
                        matches.iter().take(4).map(|m| m.hex()).collect::<Vec<_>>()
                    ),
                );
            }
        }
    }
    Ok(())
}

#[derive(Clone, Debug)]
enum DSpec {
    Commits(Vec<usize>),
    Ancestors(usize),
    Union(Vec<usize>, usize),
    Visible,
    Empty,
}

fn dspec_expression(spec: &DSpec, dag: &Dag) -> Arc<UserRevsetExpression> {
    let ids = |v: &[usize]| -> Vec<CommitId> { v.iter().map(|i| dag.id(*i).clone()).collect() };
    match spec {
        DSpec::Commits(v) => RevsetExpression::commits(ids(v)),
        DSpec::Ancestors(x) => RevsetExpression::commit(dag.id(*x).clone()).ancestors(),
        DSpec::Union(v, x) => {
            RevsetExpression::commits(ids(v)).union(&RevsetExpression::commit(dag.id(*x).clone()).ancestors())
        }
        DSpec::Visible => RevsetExpression::visible_heads().ancestors(),
        DSpec::Empty => RevsetExpression::none(),
    }
}

fn dspec_members(spec: &DSpec, model: &Model20) -> BTreeSet<usize> {
    match spec {
        DSpec::Commits(v) => v.iter().copied().collect(),
        DSpec::Ancestors(x) => model.dag.ancestors(*x),
        DSpec::Union(v, x) => {
            let mut s = model.dag.ancestors(*x);
            s.extend(v.iter().copied());
            s
        }
        DSpec::Visible => (0..model.dag.len()).filter(|i| model.visible[*i]).collect(),
        DSpec::Empty => BTreeSet::new(),
    }
}

fn sample_of<T: Clone>(rng: &mut Rng, items: &[T], max: usize) -> Vec<T> {
    let mut v: Vec<T> = items.to_vec();
    rng.shuffle(&mut v);
    v.truncate(max);
    v
}

struct Budget20 {
    commits: usize,
    changes: usize,
    dsets: usize,
}

/// All C20 checks against one repo state (readonly or inside a transaction).
fn check_prefixes(
    ctx: &Ctx,
    rng: &mut Rng,
    stage: &str,
    repo: &dyn Repo,
    model: &Model20,
    family_changes: &[ChangeId],
    close_commits: &[usize],
    budget: &Budget20,
) -> Check {
    let dag = model.dag;
    let n = dag.len();
    ctx.count(&format!("stage.{stage}"));
    // Harness sanity: the commits reachable from the view's heads are what the
    // model thinks is visible. (Inside a transaction the view's head set may
    // still contain ancestors of other heads, so reachability is compared.)
    let view_heads: Vec<usize> = repo
        .view()
        .heads()
        .iter()
        .map(|id| dag.idx(id).expect("view head is a recorded commit"))
        .collect();
    let reachable = dag.ancestors_of_set(view_heads);
    let model_visible: BTreeSet<usize> = (0..n).filter(|i| model.visible[*i]).collect();
    assert!(
        reachable == model_visible,
        "[{stage}] model of visible commits disagrees with the view (harness bookkeeping): only in view {:?}, only in model {:?}",
        reachable.difference(&model_visible).collect::<Vec<_>>(),
        model_visible.difference(&reachable).collect::<Vec<_>>()
    );

    let all_nodes: Vec<usize> = (0..n).collect();
    let mut nodes = sample_of(rng, &all_nodes, budget.commits);
    nodes.extend(close_commits.iter().copied());
    nodes.sort_unstable();
    nodes.dedup();
    check_index_level(ctx, rng, stage, repo, model, &nodes)?;

    // No disambiguation set.
    let context = IdPrefixContext::default();
    let pidx = context.populate(repo).expect("populate without disambiguation");
    for &x in &sample_of(rng, &nodes, budget.commits / 2 + close_commits.len()) {
        check_commit_prefix(ctx, rng, stage, &pidx, repo, model, None, x)?;
    }
    let all_changes: Vec<ChangeId> = model.by_change.keys().cloned().collect();
    let mut changes = sample_of(rng, &all_changes, budget.changes);
    changes.extend(family_changes.iter().filter(|c| model.by_change.contains_key(*c)).cloned());
    changes.sort();
    changes.dedup();
    for c in &changes {
        check_change_prefix(ctx, rng, stage, &pidx, repo, model, None, c)?;
    }

    // Custom disambiguation sets.
    for _ in 0..budget.dsets {
        let k_big = rng.range(1, 40);
        let k_small = rng.range(1, 10);
        let k_fam = rng.range(2, 30);
        let empty = rng.chance(1, 4);
        let spec = match rng.below(8) {
            0 => DSpec::Commits(sample_of(rng, &all_nodes, k_big)),
            1 => DSpec::Ancestors(rng.below(n)),
            2 => DSpec::Union(sample_of(rng, &all_nodes, k_small), rng.below(n)),
            3 => DSpec::Visible,
            4 if empty => DSpec::Empty,
            5 if !close_commits.is_empty() => {
                // commits with colliding ids, plus a few others
                let mut v = sample_of(rng, close_commits, 12);
                v.extend(sample_of(rng, &all_nodes, 5));
                v.sort_unstable();
                v.dedup();
                DSpec::Commits(v)
            }
            _ => {
                // commits of change-id families (long shared prefixes inside the set), incl. hidden ones
                let fam: Vec<usize> = family_changes
                    .iter()
                    .filter_map(|c| model.by_change.get(c))
                    .flatten()
                    .copied()
                    .collect();
                let mut v = sample_of(rng, &fam, k_fam);
                v.extend(sample_of(rng, &all_nodes, 4));
                v.sort_unstable();
                v.dedup();
                DSpec::Commits(v)
            }
        };
        let members = dspec_members(&spec, model);
        let dchanges: BTreeSet<ChangeId> = members.iter().map(|i| dag.change_id(*i).clone()).collect();
        let kind = match &spec {
            DSpec::Commits(_) => "commits",
            DSpec::Ancestors(_) => "ancestors",
            DSpec::Union(..) => "union",
            DSpec::Visible => "visible",
            DSpec::Empty => "empty",
        };
        ctx.count(&format!("disambiguation_set.{kind}"));
        if members.iter().any(|i| !model.visible[*i]) {
            ctx.count("disambiguation_set.contains_hidden_commits");
        }
        let dstage = format!("{stage}/within {}", truncate(&format!("{spec:?}"), 160));
        let context = IdPrefixContext::default().disambiguate_within(dspec_expression(&spec, dag));
        let pidx = context.populate(repo).expect("populate disambiguation index");

        let member_vec: Vec<usize> = members.iter().copied().collect();
        let mut xs = sample_of(rng, &member_vec, budget.commits / 3);
        xs.extend(sample_of(rng, &all_nodes, budget.commits / 6));
        xs.extend(sample_of(rng, close_commits, 10));
        xs.sort_unstable();
        xs.dedup();
        for &x in &xs {
            check_commit_prefix(ctx, rng, &dstage, &pidx, repo, model, Some(&members), x)?;
        }
        let dchange_vec: Vec<ChangeId> = dchanges.iter().cloned().collect();
        let mut cs = sample_of(rng, &dchange_vec, budget.changes / 3);
        cs.extend(sample_of(rng, &all_changes, budget.changes / 6));
        cs.extend(sample_of(rng, family_changes, 12).into_iter().filter(|c| model.by_change.contains_key(c)));
        cs.sort();
        cs.dedup();
        for c in &cs {
            check_change_prefix(ctx, rng, &dstage, &pidx, repo, model, Some(&dchanges), c)?;
        }
    }
    Ok(())
}

#[derive(Clone, Debug)]
struct Plan20 {
    tx_sizes: Vec<usize>,
    mined: usize,
    families: usize,
    doomed_percent: usize,
    abandon_at: Vec<usize>,
    reload: bool,
}

fn gen_plan20(rng: &mut Rng, total: usize, mined: usize) -> Plan20 {
    let mut tx_sizes = vec![];
    let mut s = total * rng.range(45, 60) / 100;
    while s >= 2 && tx_sizes.len() < 7 {
        tx_sizes.push(s);
        s = s * rng.range(30, 48) / 100;
    }
    for _ in 0..rng.range(0, 2) {
        tx_sizes.push(1);
    }
    let k = tx_sizes.len();
    let mut abandon_at = vec![rng.range(1, k - 1)];
    if rng.bool() {
        abandon_at.push(k - 1);
    }
    Plan20 {
        tx_sizes,
        mined,
        families: rng.range(2, 6),
        doomed_percent: *rng.pick(&[5usize, 12, 25]),
        abandon_at,
        reload: rng.bool(),
    }
}

/// Generator state of one C20 case.
struct Build20 {
    dag: Dag,
    /// Nodes that may be used as parents (never to be abandoned).
    alive: Vec<usize>,
    /// Leaf commits (and chains of them) that will be abandoned.
    doomed: Vec<usize>,
    hidden: BTreeSet<usize>,
    families: Vec<ChangeId>,
    family_changes: Vec<ChangeId>,
    counter: usize,
}

/// A change id sharing the first `k` hex digits with `base` and differing at digit `k`.
fn family_member(rng: &mut Rng, base: &ChangeId, k: usize, random_tail: bool) -> ChangeId {
    let mut bytes = base.to_bytes();
    let set = |bytes: &mut Vec<u8>, i: usize, d: u8| {
        let b = &mut bytes[i / 2];
        *b = if i % 2 == 0 { (*b & 0x0f) | (d << 4) } else { (*b & 0xf0) | d };
    };
    let old = nibble(&bytes, k);
    set(&mut bytes, k, (old + 1 + rng.below(15) as u8) % 16);
    if random_tail {
        for i in k + 1..32 {
            set(&mut bytes, i, rng.below(16) as u8);
        }
    }
    ChangeId::new(bytes)
}

impl Build20 {
    fn next_change_id(&mut self, rng: &mut Rng) -> ChangeId {
        match rng.below(100) {
            0..50 => random_change_id(rng),
            50..85 => {
                let base = rng.pick(&self.families).clone();
                let k = *rng.pick(&[1usize, 2, 3, 6, 7, 8, 9, 10, 15, 16, 17, 23, 30, 31]);
                let random_tail = rng.bool();
                let c = family_member(rng, &base, k, random_tail);
                self.family_changes.push(c.clone());
                c
            }
            _ => {
                if self.dag.len() > 1 {
                    // rewritten-like / divergent: reuse an existing change id
                    let i = rng.range(1, self.dag.len() - 1);
                    self.dag.change_id(i).clone()
                } else {
                    random_change_id(rng)
                }
            }
        }
    }

    fn add_one(&mut self, rng: &mut Rng, mut_repo: &mut MutableRepo, doomed_percent: usize) {
        let doomed = self.dag.len() > 3 && rng.chance(doomed_percent, 100);
        let parents: Vec<usize> = if doomed && !self.doomed.is_empty() && rng.chance(1, 3) {
            // chain of commits that will all be abandoned
            let live_doomed: Vec<usize> = self.doomed.iter().copied().filter(|d| !self.hidden.contains(d)).collect();
            if live_doomed.is_empty() { vec![*rng.pick(&self.alive)] } else { vec![*rng.pick(&live_doomed)] }
        } else {
            let pick = |rng: &mut Rng, alive: &[usize]| {
                if rng.chance(2, 3) { alive[alive.len() - 1 - rng.below(alive.len().min(4))] } else { *rng.pick(alive) }
            };
            let mut ps = vec![pick(rng, &self.alive)];
            if self.alive.len() > 3 && rng.chance(1, 10) {
                for _ in 0..rng.range(1, 2) {
                    let p = pick(rng, &self.alive);
                    if !ps.contains(&p) && p != 0 {
                        ps.push(p);
                    }
                }
                if ps.len() > 1 {
                    ps.retain(|p| *p != 0);
                }
            }
            ps
        };
        let change_id = self.next_change_id(rng);
        self.counter += 1;
        let description = format!("c{}", self.counter);
        let before = self.dag.len();
        let i = add_commit(mut_repo, &mut self.dag, &parents, None, Some(change_id), &description);
        assert!(i == before, "generated commit must be new");
        if doomed {
            self.doomed.push(i);
        } else {
            self.alive.push(i);
        }
    }

    fn abandon_doomed(&mut self, mut_repo: &mut MutableRepo) -> usize {
        let mut count = 0;
        for &d in &self.doomed {
            if self.hidden.insert(d) {
                mut_repo.record_abandoned_commit(self.dag.commit(d));
                count += 1;
            }
        }
        if count > 0 {
            let rebased = mut_repo.rebase_descendants().block_on().expect("rebase_descendants");
            assert!(rebased == 0, "abandoned commits are leaves; nothing to rebase");
        }
        count
    }
}

#[derive(Default)]
struct Seen20 {
    max_levels: usize,
    hidden: usize,
    max_commit_shared: usize,
    max_change_shared: usize,
    hash: u64,
}

fn run_case20(ctx: &Ctx, rng: &mut Rng, plan: &Plan20, seen: &mut Seen20, budget: &Budget20) -> Check {
    let settings = stable_settings();
    let test_repo = TestRepo::init_with_settings(&settings);
    let mut repo: Arc<ReadonlyRepo> = test_repo.repo.clone();
    let mut b = Build20 {
        dag: Dag::new(repo.store()),
        alive: vec![0],
        doomed: vec![],
        hidden: BTreeSet::new(),
        families: (0..plan.families).map(|_| random_change_id(rng)).collect(),
        family_changes: vec![],
        counter: 0,
    };
    // One family sits next to the root change id (all zeros).
    b.families[0] = ChangeId::new(vec![0; 16]);
    let mut pending_mined: Vec<Commit> = vec![];
    let n_tx = plan.tx_sizes.len();

    for (t, size) in plan.tx_sizes.iter().enumerate() {
        let mut tx = repo.start_transaction();
        for _ in 0..*size {
            b.add_one(rng, tx.repo_mut(), plan.doomed_percent);
        }
        if t == 0 {
            // Mine commit ids: many cheap commits written to the store only; the
            // ones whose ids collide on the longest prefixes are added to the repo
            // (over several transactions, hence several index segments).
            let parents: Vec<usize> = (0..3).map(|_| *rng.pick(&b.alive)).collect();
            let mut mined: Vec<Commit> = vec![];
            for (k, p) in parents.iter().enumerate() {
                let tree = b.dag.commit(*p).tree();
                let mut builder = tx.repo_mut().new_commit(vec![b.dag.id(*p).clone()], tree).detach();
                for j in 0..plan.mined / 3 {
                    builder.set_description(format!("mined-{k}-{j}"));
                    builder.set_change_id(random_change_id(rng));
                    mined.push(builder.write_hidden().block_on().expect("write mined commit"));
                }
            }
            mined.sort_by(|x, y| x.id().cmp(y.id()));
            let mut scored: Vec<(usize, usize)> = (0..mined.len().saturating_sub(1))
                .map(|i| (common_digits(mined[i].id().as_bytes(), mined[i + 1].id().as_bytes()), i))
                .collect();
            scored.sort_by(|x, y| y.cmp(x));
            let mut chosen: BTreeSet<usize> = BTreeSet::new();
            for (_, i) in scored.iter().take(14) {
                chosen.insert(*i);
                chosen.insert(*i + 1);
            }
            for _ in 0..10.min(mined.len()) {
                chosen.insert(rng.below(mined.len()));
            }
            pending_mined = chosen.into_iter().map(|i| mined[i].clone()).collect();
            rng.shuffle(&mut pending_mined);
            ctx.count_n("mined_commits_written", mined.len() as u64);
        }
        // add a share of the mined commits in this transaction
        // (in proportion to the transaction size, so that the segment stack keeps its shape)
        let remaining: usize = plan.tx_sizes[t..].iter().sum();
        let share = if t + 1 == n_tx { pending_mined.len() } else { pending_mined.len() * size / remaining.max(1) };
        for _ in 0..share {
            let commit = pending_mined.pop().unwrap();
            if b.dag.idx(commit.id()).is_some() {
                continue;
            }
            tx.repo_mut().add_head(&commit).block_on().expect("add mined commit");
            let i = b.dag.add(commit, None);
            if rng.chance(1, 5) {
                b.doomed.push(i);
            } else {
                b.alive.push(i);
            }
            ctx.count("mined_commits_added");
        }
        if plan.abandon_at.contains(&t) {
            let k = b.abandon_doomed(tx.repo_mut());
            ctx.count_n("commits_abandoned", k as u64);
        }
        repo = tx.commit("build").block_on().expect("transaction commit");
        let levels = levels_of(readonly_index(&repo)).len();
        seen.max_levels = seen.max_levels.max(levels);
    }
    let final_levels = levels_of(readonly_index(&repo)).len();
    ctx.count(&format!("segment_levels_at_check.{final_levels}"));
    ctx.max("segment_levels_max", seen.max_levels as u64);

    // Commits whose ids share the longest prefixes with another commit.
    let close_of = |dag: &Dag| -> (Vec<usize>, usize) {
        let mut order: Vec<usize> = (0..dag.len()).collect();
        order.sort_by(|x, y| dag.id(*x).cmp(dag.id(*y)));
        let mut scored: Vec<(usize, usize, usize)> = order
            .windows(2)
            .map(|w| (common_digits(dag.id(w[0]).as_bytes(), dag.id(w[1]).as_bytes()), w[0], w[1]))
            .collect();
        scored.sort_by(|x, y| y.cmp(x));
        let best = scored.first().map_or(0, |s| s.0);
        let mut close: Vec<usize> = scored.iter().take(25).flat_map(|s| [s.1, s.2]).collect();
        close.sort_unstable();
        close.dedup();
        (close, best)
    };

    {
        let model = Model20::new(&b.dag, &b.hidden);
        let (close, best) = close_of(&b.dag);
        seen.max_commit_shared = best;
        ctx.max("commit_ids_longest_shared_prefix_digits", best as u64);
        let mut changes: Vec<&ChangeId> = model.by_change.keys().collect();
        changes.sort();
        seen.max_change_shared =
            changes.windows(2).map(|w| common_digits(w[0].as_bytes(), w[1].as_bytes())).max().unwrap_or(0);
        ctx.max("change_ids_longest_shared_prefix_digits", seen.max_change_shared as u64);
        seen.hidden = b.hidden.len();
        check_prefixes(ctx, rng, "readonly", repo.as_ref(), &model, &b.family_changes, &close, budget)?;
        if plan.reload {
            let fresh = test_repo.env.load_repo_at_head(&settings, test_repo.repo_path());
            assert!(fresh.op_id() == repo.op_id(), "fresh load must see the same head operation");
            let light = Budget20 { commits: budget.commits / 3, changes: budget.changes / 3, dsets: 1 };
            check_prefixes(ctx, rng, "reloaded", fresh.as_ref(), &model, &b.family_changes, &close, &light)?;
        }
    }

    // Inside a transaction: new ids live in the mutable segment on top of the stack.
    let mut tx = repo.start_transaction();
    for _ in 0..rng.range(3, 30) {
        b.add_one(rng, tx.repo_mut(), plan.doomed_percent);
    }
    if rng.bool() {
        let k = b.abandon_doomed(tx.repo_mut());
        ctx.count_n("commits_abandoned", k as u64);
    }
    {
        let model = Model20::new(&b.dag, &b.hidden);
        let (close, _) = close_of(&b.dag);
        let light = Budget20 { commits: budget.commits / 2, changes: budget.changes / 2, dsets: budget.dsets.div_ceil(2) };
        check_prefixes(ctx, rng, "mutable_in_transaction", tx.repo(), &model, &b.family_changes, &close, &light)?;
        seen.hidden = seen.hidden.max(b.hidden.len());
    }
    seen.hash = stable_hash(
        &b.dag
            .nodes
            .iter()
            .map(|n| (n.commit.id().to_bytes(), n.commit.change_id().to_bytes()))
            .collect::<Vec<_>>(),
    );
    ctx.count_n("commits_total", b.dag.len() as u64);
    ctx.count_n("hidden_commits_total", b.hidden.len() as u64);
    Ok(())
}

pub fn run_c20(ctx: &Ctx) -> i32 {
    ctx.set_rule(
        "A fresh on-disk repo per case with a few hundred commits written over 3-9 transactions of \
         decreasing size (stacked index segments). Change ids are set explicitly: random, members of \
         families that share the first k hex digits with a base id (k from 1 to 31, on and across byte \
         boundaries and the 4-byte short key of IdIndex), or reused from an existing commit (divergent / \
         rewritten-like). Commit ids are mined: thousands of store-only commits, those colliding on the \
         longest prefixes are added to the repo. Leaf commits and leaf chains are abandoned so they stay \
         in the index but are hidden. For sampled commit ids and change ids, without a disambiguation set \
         and within random sets (commits(..) incl. hidden ones, ancestors(x), unions, all visible, empty, \
         whole change-id families), the reported shortest length n is checked: prefix(n) is unique per a \
         brute-force scan of the scope and resolves back to exactly that commit / exactly the visible \
         commits of that change; prefix(n-1) is not unique per the scan; every shorter prefix (odd lengths \
         included, reverse hex for change ids) is ambiguous or resolves to something else. Index-level \
         resolve/shortest functions are compared with the scan for arbitrary probes. Checked on the \
         readonly repo, a fresh load and inside a transaction. Non-trivial: >= 2 segment levels, >= 1 \
         hidden commit, commit ids sharing >= 3 digits and change ids sharing >= 9 digits. Distinct: by \
         (commit id, change id) list.",
    );
    let n = ctx.tier().pick(64, 1600);
    let total = ctx.tier().pick(260, 700);
    let mined = ctx.tier().pick(6000, 24000);
    let budget = Budget20 {
        commits: ctx.tier().pick(90, 240),
        changes: ctx.tier().pick(70, 200),
        dsets: ctx.tier().pick(4, 8),
    };
    par_cases(ctx, n, threads(), |i, cs, rng| {
        let case_total = rng.range(total / 2, total);
        let plan = gen_plan20(rng, case_total, mined);
        let mut seen = Seen20::default();
        let mut oracle_rng = rng.fork();
        let describe = || json!({"plan": format!("{plan:?}")});
        run_case(ctx, i, cs, describe, || run_case20(ctx, &mut oracle_rng, &plan, &mut seen, &budget));
        let nontrivial =
            seen.max_levels >= 2 && seen.hidden >= 1 && seen.max_commit_shared >= 3 && seen.max_change_shared >= 9;
        ctx.case(seen.hash, nontrivial);
        if nontrivial {
            ctx.sample(|| {
                json!({"plan": format!("{plan:?}"), "segment_levels": seen.max_levels, "hidden_commits": seen.hidden,
                       "commit_ids_shared_digits": seen.max_commit_shared, "change_ids_shared_digits": seen.max_change_shared})
            });
        }
    });
    ctx.assume(
        "commit ids cannot be chosen, only mined: shared commit-id prefixes reach about 4-6 hex digits; longer \
         shared prefixes (up to 31 digits) are covered for change ids only",
    );
    ctx.assume(
        "the disambiguation revset is evaluated by jj's revset engine (monitored by C19); its expected member \
         set is computed from the harness' Dag",
    );
    ctx.assume(
        "without a disambiguation set the scope of uniqueness is all indexed ids including hidden ones, as \
         index.rs/composite.rs document; a change without visible commits may resolve to NoMatch or to \
         targets all flagged hidden",
    );
    ctx.finish(ctx.tier().pick(24, 600))
}
