//! C10: visible heads are normalized and cover everything referenced.
//! C11: rewrites leave no orphans and references follow.
//!
//! Both engines drive the real `MutableRepo` / `Transaction` / `RepoLoader`
//! code on a `testutils::TestRepo` (test backend, real op store, op heads
//! store and index on disk) and judge the resulting views with the harness'
//! own commit graph (`dag.rs`): every commit the harness or jj creates is
//! recorded in the `Dag`, and ancestry / visibility / heads are computed by
//! plain graph search over those records, never through jj's index or revset
//! engine.

use std::cell::RefCell;
use std::collections::BTreeMap;
use std::collections::BTreeSet;
use std::collections::HashMap;
use std::collections::HashSet;
use std::sync::Arc;
use std::sync::Mutex;

use jj_lib::backend::ChangeId;
use jj_lib::backend::CommitId;
use jj_lib::commit::Commit;
use jj_lib::merge::Merge;
use jj_lib::object_id::ObjectId as _;
use jj_lib::op_store::RefTarget;
use jj_lib::ref_name::RefName;
use jj_lib::ref_name::WorkspaceNameBuf;
use jj_lib::repo::EditCommitError;
use jj_lib::repo::MutableRepo;
use jj_lib::repo::ReadonlyRepo;
use jj_lib::repo::Repo as _;
use jj_lib::repo::RepoLoader;
use jj_lib::revset::ResolvedRevsetExpression;
use jj_lib::rewrite::EmptyBehavior;
use jj_lib::rewrite::RebaseOptions;
use jj_lib::rewrite::RebasedCommit;
use jj_lib::rewrite::RewriteRefsOptions;
use jj_lib::settings::UserSettings;
use jj_lib::store::Store;
use jj_lib::view::View;
use pollster::FutureExt as _;
use serde_json::Value;
use serde_json::json;
use testutils::TestRepo;

use crate::common::*;
use crate::dag::Dag;
use crate::dag::add_commit;
use crate::ensure;
use crate::model::Entry;
use crate::model::TreeModel;

// ---------------------------------------------------------------------------
// Shared plumbing

/// Why a case (or a transaction) stops early.
enum Stop {
    /// The oracle refuted the property.
    Fail(Fail),
    /// The current transaction cannot be completed for a reason the property
    /// does not cover (jj refused to write a commit whose id already exists:
    /// commit ids are content hashes that include a millisecond timestamp, so
    /// a rewrite can collide with an earlier commit). The transaction is
    /// dropped and the case goes on from the last committed operation.
    Abort(String),
    /// The harness could not do its job (unexpected error): inconclusive.
    Harness(String),
}

impl From<Fail> for Stop {
    fn from(f: Fail) -> Self {
        Self::Fail(f)
    }
}

type Step<T = ()> = Result<T, Stop>;

fn is_commit_exists_error(text: &str) -> bool {
    text.contains("already exists")
}

/// Classifies an error returned by a jj call that may legitimately fail only
/// with "Newly-created commit … already exists".
fn stop_for(what: &str, err: &dyn std::fmt::Debug) -> Stop {
    let text = format!("{err:?}");
    if is_commit_exists_error(&text) {
        Stop::Abort(format!("{what}: commit id collision"))
    } else {
        Stop::Harness(format!("{what}: unexpected error {}", truncate(&text, 400)))
    }
}

// `TestRepo::init()` calls `hermetic_git()`, which sets process environment
// variables; serialize it between worker threads.
static INIT_LOCK: Mutex<()> = Mutex::new(());

fn new_test_repo() -> TestRepo {
    let _guard = INIT_LOCK.lock().unwrap_or_else(|e| e.into_inner());
    TestRepo::init()
}

/// Per-case counters, flushed to the context once per case.
#[derive(Default)]
struct Counts(RefCell<BTreeMap<String, u64>>);

impl Counts {
    fn add(&self, key: &str) {
        self.add_n(key, 1);
    }
    fn add_n(&self, key: &str, n: u64) {
        *self.0.borrow_mut().entry(key.to_owned()).or_insert(0) += n;
    }
    fn max(&self, key: &str, v: u64) {
        let mut map = self.0.borrow_mut();
        let e = map.entry(format!("max.{key}")).or_insert(0);
        if v > *e {
            *e = v;
        }
    }
    fn get(&self, key: &str) -> u64 {
        self.0.borrow().get(key).copied().unwrap_or(0)
    }
    fn flush(&self, ctx: &Ctx) {
        for (k, v) in self.0.borrow().iter() {
            if let Some(name) = k.strip_prefix("max.") {
                ctx.max(&format!("max_{name}"), *v);
            } else {
                ctx.count_n(k, *v);
            }
        }
    }
}

/// Records `ids` and all their not yet recorded ancestors (read from the
/// store) in the dag, parents first.
fn sync_dag<'a>(
    dag: &mut Dag,
    store: &Arc<Store>,
    ids: impl IntoIterator<Item = &'a CommitId>,
) -> Step<usize> {
    let read = |id: &CommitId| -> Step<Commit> {
        store
            .get_commit(id)
            .map_err(|e| Stop::Harness(format!("cannot read commit {}: {e:?}", id.hex())))
    };
    let mut added = 0;
    let mut stack: Vec<(Commit, bool)> = vec![];
    for id in ids {
        if dag.idx(id).is_none() {
            stack.push((read(id)?, false));
        }
    }
    while let Some((commit, expanded)) = stack.pop() {
        if dag.idx(commit.id()).is_some() {
            continue;
        }
        let missing: Vec<CommitId> = commit
            .parent_ids()
            .iter()
            .filter(|p| dag.idx(p).is_none())
            .cloned()
            .collect();
        if missing.is_empty() {
            dag.add(commit, None);
            added += 1;
        } else {
            if expanded {
                return Err(Stop::Harness("commit graph read from the store has a cycle".into()));
            }
            stack.push((commit, true));
            for p in missing {
                stack.push((read(&p)?, false));
            }
        }
    }
    Ok(added)
}

fn merge_dag(into: &mut Dag, other: &Dag) {
    for node in &other.nodes {
        into.add(node.commit.clone(), node.tree.clone());
    }
}

fn view_ref_ids(view: &View) -> Vec<CommitId> {
    let mut ids: Vec<CommitId> = view.heads().iter().cloned().collect();
    for (_, target) in view.local_bookmarks() {
        ids.extend(target.added_ids().cloned());
    }
    ids.extend(view.wc_commit_ids().values().cloned());
    ids.sort();
    ids.dedup();
    ids
}

fn sync_view(dag: &mut Dag, store: &Arc<Store>, view: &View) -> Step<usize> {
    let ids = view_ref_ids(view);
    sync_dag(dag, store, ids.iter())
}

fn head_indices(dag: &Dag, view: &View) -> Vec<usize> {
    let mut heads: Vec<usize> = view.heads().iter().filter_map(|id| dag.idx(id)).collect();
    heads.sort();
    heads
}

/// Visible commits according to the harness: ancestors-or-self of the
/// recorded heads.
fn visible_set(dag: &Dag, view: &View) -> BTreeSet<usize> {
    let mut set = dag.ancestors_of_set(head_indices(dag, view));
    // The root is visible even when a transaction has (temporarily) no head at all.
    set.insert(0);
    set
}

fn short(id: &CommitId) -> String {
    id.hex().chars().take(10).collect()
}

fn target_json(dag: &Dag, target: &RefTarget) -> Value {
    let terms: Vec<Value> = target
        .as_merge()
        .iter()
        .map(|t| match t {
            None => json!(null),
            Some(id) => match dag.idx(id) {
                Some(i) => json!(i),
                None => json!(short(id)),
            },
        })
        .collect();
    json!(terms)
}

fn view_json(dag: &Dag, view: &View) -> Value {
    json!({
        "heads": head_indices(dag, view),
        "unknown_heads": view.heads().iter().filter(|id| dag.idx(id).is_none()).map(short).collect::<Vec<_>>(),
        "bookmarks": view.local_bookmarks().map(|(n, t)| (n.as_str().to_owned(), target_json(dag, t))).collect::<BTreeMap<_, _>>(),
        "wc": view.wc_commit_ids().iter().map(|(n, id)| (n.as_str().to_owned(), json!(dag.idx(id)))).collect::<BTreeMap<_, _>>(),
    })
}

fn dag_json(dag: &Dag) -> Value {
    Value::Array(
        dag.nodes
            .iter()
            .enumerate()
            .map(|(i, n)| {
                json!({"i": i, "id": short(n.commit.id()), "parents": n.parents,
                       "change": n.commit.change_id().hex().chars().take(8).collect::<String>(),
                       "desc": n.commit.description()})
            })
            .collect(),
    )
}

// ---------------------------------------------------------------------------
// C10 oracle

#[derive(Default, Debug)]
struct ViewStats {
    heads: usize,
    bookmark_ids: usize,
    conflicted_bookmarks: usize,
    wcs: usize,
    root_only: bool,
}

/// The C10 invariants on one view, judged with the harness' own ancestry.
fn check_view_invariants(dag: &mut Dag, store: &Arc<Store>, view: &View, at: &str) -> Step<ViewStats> {
    sync_view(dag, store, view)?;
    let check = || -> Result<ViewStats, Fail> {
        let heads = head_indices(dag, view);
        ensure!(
            heads.len() == view.heads().len(),
            "harness.unknown_head",
            "{at}: a head is not recorded in the dag"
        );
        ensure!(!heads.is_empty(), "heads.non_empty", "{at}: the view has no heads");
        // No head is an ancestor of another: no head may be reachable from the
        // parents of any head.
        let strict: BTreeSet<usize> =
            dag.ancestors_of_set(heads.iter().flat_map(|h| dag.nodes[*h].parents.iter().copied()));
        for h in &heads {
            ensure!(
                !strict.contains(h),
                "heads.no_head_is_ancestor_of_another",
                "{at}: head {h} ({}) is an ancestor of another head; view {}",
                short(dag.id(*h)),
                view_json(dag, view)
            );
        }
        ensure!(
            !heads.contains(&0) || heads.len() == 1,
            "heads.root_only_when_nothing_else_visible",
            "{at}: the root commit is a head next to other heads; view {}",
            view_json(dag, view)
        );
        let visible = dag.ancestors_of_set(heads.iter().copied());
        let mut stats = ViewStats {
            heads: heads.len(),
            root_only: heads == [0],
            ..Default::default()
        };
        for (name, target) in view.local_bookmarks() {
            if target.has_conflict() {
                stats.conflicted_bookmarks += 1;
            }
            for id in target.added_ids() {
                stats.bookmark_ids += 1;
                let i = dag.idx(id);
                ensure!(
                    i.is_some_and(|i| visible.contains(&i)),
                    "refs.bookmark_target_visible",
                    "{at}: bookmark {} points at {:?} ({}) which is not an ancestor of any head; view {}",
                    name.as_str(),
                    i,
                    short(id),
                    view_json(dag, view)
                );
            }
        }
        for (ws, id) in view.wc_commit_ids() {
            stats.wcs += 1;
            let i = dag.idx(id);
            ensure!(
                i.is_some_and(|i| visible.contains(&i)),
                "refs.wc_commit_visible",
                "{at}: working copy of {} is {:?} ({}) which is not an ancestor of any head; view {}",
                ws.as_str(),
                i,
                short(id),
                view_json(dag, view)
            );
        }
        Ok(stats)
    };
    Ok(check()?)
}

fn note_view_stats(counts: &Counts, stats: &ViewStats) {
    counts.add("views_checked");
    counts.add_n("referenced_ids_checked", (stats.bookmark_ids + stats.wcs) as u64);
    counts.max("heads_in_a_view", stats.heads as u64);
    if stats.heads >= 2 {
        counts.add("views_with_several_heads");
    }
    if stats.root_only {
        counts.add("views_with_only_root_visible");
    }
    if stats.conflicted_bookmarks > 0 {
        counts.add("views_with_conflicted_bookmark");
    }
    if stats.wcs >= 2 {
        counts.add("views_with_several_workspaces");
    }
}

fn load_from_disk(tr: &TestRepo, settings: &UserSettings) -> Step<Arc<ReadonlyRepo>> {
    let loader = RepoLoader::init_from_file_system(settings, tr.repo_path(), &tr.env.default_backend_factories())
        .map_err(|e| Stop::Harness(format!("cannot open repo from disk: {e:?}")))?;
    loader.load_at_head().block_on().map_err(|e| stop_for("load_at_head from disk", &e))
}

/// Invariants on the committed repo and again on a fresh load from disk.
fn check_committed(
    tr: &TestRepo,
    settings: &UserSettings,
    dag: &mut Dag,
    repo: &Arc<ReadonlyRepo>,
    at: &str,
    reload: bool,
    counts: &Counts,
) -> Step<()> {
    let stats = check_view_invariants(dag, repo.store(), repo.view(), at)?;
    note_view_stats(counts, &stats);
    if reload {
        let fresh = load_from_disk(tr, settings)?;
        if fresh.op_id() == repo.op_id() {
            counts.add("reloads_from_disk_same_operation");
        } else {
            counts.add("reloads_from_disk_other_operation");
        }
        // (checked on a copy of the dag: a different operation may reference commits
        // that are not indexed in `repo`)
        let mut probe = dag.clone();
        let stats = check_view_invariants(&mut probe, fresh.store(), fresh.view(), &format!("{at} (reloaded from disk)"))?;
        note_view_stats(counts, &stats);
    }
    Ok(())
}

// ---------------------------------------------------------------------------
// Model of the pending rewrite records of a transaction (mirror of what the
// harness told jj). Used to keep generated records acyclic (jj documents
// cycles in the parent mapping as unsupported) and, in C11, by the oracle.

#[derive(Clone, Debug, PartialEq, Eq)]
enum Rec {
    Rewritten(usize),
    Abandoned(Vec<usize>),
    Divergent(Vec<usize>),
}

type Records = BTreeMap<usize, Rec>;

/// Whether `target` can be reached from `from` in the graph where a
/// rewritten/abandoned commit is replaced by its replacement(s) and any
/// other commit depends on its parents. A new record `x -> ts` is acyclic
/// iff `x` is not reachable from `ts`.
fn reaches(dag: &Dag, records: &Records, from: &[usize], target: usize) -> bool {
    let mut seen = BTreeSet::new();
    let mut stack: Vec<usize> = from.to_vec();
    while let Some(n) = stack.pop() {
        if n == target {
            return true;
        }
        if !seen.insert(n) {
            continue;
        }
        match records.get(&n) {
            Some(Rec::Rewritten(t)) => stack.push(*t),
            Some(Rec::Abandoned(ts)) => stack.extend(ts.iter().copied()),
            Some(Rec::Divergent(ts)) => {
                stack.extend(ts.iter().copied());
                stack.extend(dag.nodes[n].parents.iter().copied());
            }
            None => stack.extend(dag.nodes[n].parents.iter().copied()),
        }
    }
    false
}

/// Final replacement(s) of `x` through all records, transitively, in order,
/// without duplicates.
fn final_ids(records: &Records, x: usize, depth: usize, out: &mut Vec<usize>) {
    match records.get(&x) {
        _ if depth > 10_000 => out.push(x),
        None => {
            if !out.contains(&x) {
                out.push(x);
            }
        }
        Some(Rec::Rewritten(t)) => final_ids(records, *t, depth + 1, out),
        Some(Rec::Abandoned(ts)) | Some(Rec::Divergent(ts)) => {
            for t in ts {
                final_ids(records, *t, depth + 1, out);
            }
        }
    }
}

fn pick_biased(rng: &mut Rng, items: &[usize]) -> usize {
    // Bias to recent commits so graphs get deep.
    if rng.chance(1, 2) {
        items[items.len() - 1 - rng.below(items.len().min(4))]
    } else {
        *rng.pick(items)
    }
}

fn pick_parents(rng: &mut Rng, pool: &[usize], max: usize) -> Vec<usize> {
    let n = rng.range(1, max.min(pool.len()).max(1));
    let mut parents: Vec<usize> = vec![];
    for _ in 0..n * 3 {
        if parents.len() >= n {
            break;
        }
        let p = pick_biased(rng, pool);
        if !parents.contains(&p) {
            parents.push(p);
        }
    }
    if parents.len() > 1 {
        // A merge with the root commit is not representable everywhere; avoid it.
        parents.retain(|p| *p != 0);
    }
    if parents.is_empty() {
        parents.push(pool[0]);
    }
    parents
}

// ---------------------------------------------------------------------------
// C10 workload

struct TxCtx<'a> {
    counts: &'a Counts,
    log: &'a RefCell<Vec<String>>,
    workspaces: &'a [WorkspaceNameBuf],
    serial: &'a RefCell<u64>,
}

impl TxCtx<'_> {
    fn log(&self, line: String) {
        self.log.borrow_mut().push(line);
    }
    fn next_serial(&self) -> u64 {
        let mut s = self.serial.borrow_mut();
        *s += 1;
        *s
    }
}

const BOOKMARKS: &[&str] = &["b0", "b1", "b2", "b3"];

fn rebase_pending(tc: &TxCtx, tag: &str, mut_repo: &mut MutableRepo, dag: &mut Dag, records: &mut Records) -> Step {
    match mut_repo.rebase_descendants().block_on() {
        Ok(n) => {
            tc.counts.add("steps.rebase_descendants");
            tc.counts.add_n("descendants_rebased", n as u64);
            records.clear();
            let store = mut_repo.store().clone();
            let added = sync_view(dag, &store, mut_repo.view())?;
            tc.log(format!("{tag} rebase_descendants -> {n} rebased, {added} new commits recorded"));
            Ok(())
        }
        Err(e) => Err(stop_for("rebase_descendants", &e)),
    }
}

/// One random step of the C10 workload on an open transaction.
fn c10_step(rng: &mut Rng, tc: &TxCtx, tag: &str, mut_repo: &mut MutableRepo, dag: &mut Dag, records: &mut Records) -> Step {
    let store = mut_repo.store().clone();
    sync_view(dag, &store, mut_repo.view())?;
    let heads = head_indices(dag, mut_repo.view());
    let visible: Vec<usize> = visible_set(dag, mut_repo.view()).into_iter().collect();
    let visible_set_: BTreeSet<usize> = visible.iter().copied().collect();
    let hidden: Vec<usize> = (1..dag.len()).filter(|i| !visible_set_.contains(i)).collect();
    let visible_nonroot: Vec<usize> = visible.iter().copied().filter(|i| *i != 0).collect();
    // new, new-on-head, rewrite, abandon, rebase, bookmark, edit, check_out, remove_head
    let kind = rng.weighted(&[14, 14, 12, 10, 6, 16, 10, 6, 6]);
    match kind {
        0 | 1 => {
            let parents = if kind == 1 && !heads.is_empty() {
                vec![*rng.pick(&heads)]
            } else {
                pick_parents(rng, &visible, 3)
            };
            let mut parents = parents;
            // A hidden commit (abandoned or rewritten earlier) as one of the
            // parents: it becomes visible again below the new head.
            if !hidden.is_empty() && rng.chance(1, 5) {
                let h = *rng.pick(&hidden);
                if !parents.contains(&h) {
                    if parents.len() >= 3 {
                        parents.pop();
                    }
                    parents.insert(rng.below(parents.len() + 1), h);
                    parents.retain(|p| *p != 0);
                    tc.counts.add("steps.new_commit_on_hidden_parent");
                }
            }
            let desc = if rng.chance(1, 4) { String::new() } else { format!("d{}", tc.next_serial()) };
            let all_heads = parents.iter().all(|p| heads.contains(p));
            let i = add_commit(mut_repo, dag, &parents, None, None, &desc);
            tc.counts.add(if all_heads { "steps.new_commit_on_heads" } else { "steps.new_commit_elsewhere" });
            if parents.len() > 1 {
                tc.counts.add("steps.new_merge_commit");
            }
            tc.log(format!("{tag} new {i} parents {parents:?} desc {desc:?}"));
        }
        2 => {
            if visible_nonroot.is_empty() {
                return Ok(());
            }
            let x = pick_biased(rng, &visible_nonroot);
            let old = dag.commit(x).clone();
            let mut new_parents = None;
            // Concurrent transactions do not move commits onto other parents: two
            // operations that rebase A (with descendants) onto B's descendants and B
            // onto A's descendants cannot be merged ("graph has cycle" panic in
            // order_commits_for_rebase, reported separately; it belongs to C13).
            if rng.chance(1, 3) && !tag.contains('.') {
                new_parents = Some(pick_parents(rng, &visible, 2));
            }
            // The new commit must not depend on the old one (directly or
            // through pending records): jj documents cycles as unsupported.
            let effective = new_parents.clone().unwrap_or_else(|| dag.nodes[x].parents.clone());
            if reaches(dag, records, &effective, x) {
                return Ok(());
            }
            let mut builder = mut_repo
                .rewrite_commit(&old)
                .set_description(format!("r{}", tc.next_serial()));
            if let Some(p) = &new_parents {
                builder = builder.set_parents(p.iter().map(|i| dag.id(*i).clone()).collect());
            }
            match builder.write().block_on() {
                Ok(commit) => {
                    let b = dag.add(commit, None);
                    records.insert(x, Rec::Rewritten(b));
                    tc.counts.add("steps.rewrite_commit");
                    if new_parents.is_some() {
                        tc.counts.add("steps.rewrite_commit_onto_other_parents");
                    }
                    tc.log(format!("{tag} rewrite {x} -> {b} new_parents {new_parents:?}"));
                }
                Err(e) => match stop_for("rewrite_commit", &e) {
                    Stop::Abort(_) => tc.counts.add("steps.skipped_commit_id_collision"),
                    other => return Err(other),
                },
            }
        }
        3 => {
            if visible_nonroot.is_empty() {
                return Ok(());
            }
            let x = pick_biased(rng, &visible_nonroot);
            let commit = dag.commit(x).clone();
            if reaches(dag, records, &dag.nodes[x].parents, x) {
                return Ok(());
            }
            // Abandoning the pending rewrite of another commit (X -> x, then x
            // abandoned) is left to C11: with a working copy at X directly on the
            // root it runs into a panic of update_wc_commits (C11 finding).
            if records.values().any(|r| *r == Rec::Rewritten(x)) {
                return Ok(());
            }
            mut_repo.record_abandoned_commit(&commit);
            records.insert(x, Rec::Abandoned(dag.nodes[x].parents.clone()));
            tc.counts.add("steps.abandon");
            if dag.nodes[x].parents.len() > 1 {
                tc.counts.add("steps.abandon_merge");
            }
            tc.log(format!("{tag} abandon {x}"));
        }
        4 => {
            if mut_repo.has_rewrites() {
                rebase_pending(tc, tag, mut_repo, dag, records)?;
            }
        }
        5 => {
            let name: &RefName = (*rng.pick(BOOKMARKS)).as_ref();
            let pool_pick = |rng: &mut Rng| -> usize {
                if !hidden.is_empty() && rng.chance(3, 10) {
                    *rng.pick(&hidden)
                } else {
                    pick_biased(rng, &visible)
                }
            };
            let target = match rng.weighted(&[60, 25, 15]) {
                0 => {
                    let i = pool_pick(rng);
                    if !visible_set_.contains(&i) {
                        tc.counts.add("steps.bookmark_set_to_hidden_commit");
                    }
                    RefTarget::normal(dag.id(i).clone())
                }
                1 => {
                    let n_adds = rng.range(2, 3);
                    let mut used: Vec<usize> = vec![];
                    let mut terms: Vec<Option<CommitId>> = vec![];
                    for k in 0..(2 * n_adds - 1) {
                        let is_add = k % 2 == 0;
                        if !is_add && rng.chance(1, 3) {
                            terms.push(None);
                            continue;
                        }
                        let mut chosen = None;
                        for _ in 0..8 {
                            let i = pool_pick(rng);
                            if !used.contains(&i) {
                                chosen = Some(i);
                                break;
                            }
                        }
                        match chosen {
                            Some(i) => {
                                used.push(i);
                                if is_add && !visible_set_.contains(&i) {
                                    tc.counts.add("steps.bookmark_set_to_hidden_commit");
                                }
                                terms.push(Some(dag.id(i).clone()));
                            }
                            None if is_add => return Ok(()), // too few commits yet
                            None => terms.push(None),
                        }
                    }
                    tc.counts.add("steps.bookmark_set_conflicted");
                    RefTarget::from_merge(Merge::from_vec(terms))
                }
                _ => {
                    tc.counts.add("steps.bookmark_delete");
                    RefTarget::absent()
                }
            };
            tc.log(format!("{tag} bookmark {} = {}", name.as_str(), target_json(dag, &target)));
            mut_repo.set_local_bookmark_target(name, target);
            tc.counts.add("steps.bookmark_set");
        }
        6 => {
            let ws = rng.pick(tc.workspaces).clone();
            let i = if !hidden.is_empty() && rng.chance(1, 5) {
                tc.counts.add("steps.edit_hidden_commit");
                *rng.pick(&hidden)
            } else if !visible_nonroot.is_empty() {
                pick_biased(rng, &visible_nonroot)
            } else {
                return Ok(());
            };
            let commit = dag.commit(i).clone();
            let had_rewrites = mut_repo.has_rewrites();
            tc.log(format!("{tag} edit {} -> {i}", ws.as_str()));
            match mut_repo.edit(ws, &commit).block_on() {
                Ok(()) => {
                    tc.counts.add("steps.edit");
                    if !had_rewrites && mut_repo.has_rewrites() {
                        tc.counts.add("steps.edit_abandoned_discardable_wc_commit");
                    }
                }
                Err(EditCommitError::RewriteRootCommit(_)) => {}
                Err(e) => return Err(stop_for("edit", &e)),
            }
        }
        7 => {
            let ws = rng.pick(tc.workspaces).clone();
            let i = pick_biased(rng, &visible);
            let commit = dag.commit(i).clone();
            match mut_repo.check_out(ws.clone(), &commit).block_on() {
                Ok(wc) => {
                    let n = dag.add(wc, None);
                    tc.counts.add("steps.check_out");
                    tc.log(format!("{tag} check_out {} on {i} -> {n}", ws.as_str()));
                }
                Err(e) => return Err(stop_for("check_out", &e)),
            }
        }
        _ => {
            // remove_head of an unreferenced head: only when no rewrite is
            // pending (pending rewrites will move references), and only if no
            // referenced commit would become invisible.
            if mut_repo.has_rewrites() {
                return Ok(());
            }
            let candidates: Vec<usize> = heads.iter().copied().filter(|h| *h != 0).collect();
            if candidates.is_empty() {
                return Ok(());
            }
            let h = *rng.pick(&candidates);
            let rest = dag.ancestors_of_set(heads.iter().copied().filter(|o| *o != h));
            let view = mut_repo.view();
            let mut referenced: Vec<CommitId> = view.wc_commit_ids().values().cloned().collect();
            for (_, t) in view.local_bookmarks() {
                referenced.extend(t.added_ids().cloned());
            }
            let loses_ref = referenced
                .iter()
                .any(|id| dag.idx(id).is_none_or(|i| !rest.contains(&i)));
            if loses_ref {
                tc.counts.add("steps.remove_head_skipped_referenced");
                return Ok(());
            }
            let id = dag.id(h).clone();
            mut_repo.remove_head(&id);
            tc.counts.add("steps.remove_head");
            tc.log(format!("{tag} remove_head {h}"));
        }
    }
    Ok(())
}

/// Applies `n_steps` random steps and leaves the transaction ready to commit.
fn c10_fill_tx(
    rng: &mut Rng,
    tc: &TxCtx,
    tag: &str,
    mut_repo: &mut MutableRepo,
    dag: &mut Dag,
    n_steps: usize,
) -> Step {
    let mut records = Records::new();
    for _ in 0..n_steps {
        c10_step(rng, tc, tag, mut_repo, dag, &mut records)?;
    }
    if mut_repo.has_rewrites() {
        rebase_pending(tc, tag, mut_repo, dag, &mut records)?;
    }
    Ok(())
}

fn prefix_len(rng: &mut Rng) -> usize {
    match rng.weighted(&[3, 4, 3]) {
        0 => 1,
        1 => rng.range(2, 6),
        _ => rng.range(7, 25),
    }
}

fn c10_case(ctx: &Ctx, rng: &mut Rng, counts: &Counts, log: &RefCell<Vec<String>>) -> Step<bool> {
    let tr = new_test_repo();
    let settings = testutils::user_settings();
    let mut repo = tr.repo.clone();
    let mut dag = Dag::new(repo.store());
    let n_ws = rng.range(1, 3);
    let workspaces: Vec<WorkspaceNameBuf> =
        ["default", "ws2", "ws3"][..n_ws].iter().map(|s| WorkspaceNameBuf::from(*s)).collect();
    let serial = RefCell::new(0u64);
    let tc = TxCtx { counts, log, workspaces: &workspaces, serial: &serial };
    let total_steps = rng.range(20, ctx.tier().pick(70, 200));
    let mut steps_done = 0;
    let mut ops = 0u64;
    let mut tx_no = 0;
    while steps_done < total_steps {
        tx_no += 1;
        let concurrent = ops >= 1 && rng.chance(1, 4);
        if !concurrent {
            let tag = format!("tx{tx_no}");
            let n = prefix_len(rng);
            steps_done += n;
            let mut tx = repo.start_transaction();
            let mut tx_dag = dag.clone();
            match c10_fill_tx(rng, &tc, &tag, tx.repo_mut(), &mut tx_dag, n) {
                Ok(()) => {}
                Err(Stop::Abort(why)) => {
                    counts.add("transactions_dropped_commit_id_collision");
                    tc.log(format!("{tag} dropped: {why}"));
                    continue;
                }
                Err(other) => return Err(other),
            }
            let fast = tx.repo().view().is_heads_normalized();
            counts.add(if fast {
                "commits_with_heads_already_normalized(incremental path)"
            } else {
                "commits_needing_normalization(general path)"
            });
            let changed = tx.repo().has_changes();
            let new_repo = tx
                .commit(tag.clone())
                .block_on()
                .map_err(|e| Stop::Harness(format!("Transaction::commit failed: {e:?}")))?;
            tc.log(format!("{tag} commit (changes: {changed}, heads normalized before commit: {fast})"));
            dag = tx_dag;
            repo = new_repo;
            ops += 1;
            counts.add("operations_committed");
            check_committed(&tr, &settings, &mut dag, &repo, &format!("after commit of {tag}"), true, counts)?;
        } else {
            let m = if rng.chance(1, 4) { 3 } else { 2 };
            let mut sides = vec![];
            for k in 0..m {
                let tag = format!("tx{tx_no}.{k}");
                let n = rng.range(1, 8);
                steps_done += n;
                let mut tx = repo.start_transaction();
                let mut tx_dag = dag.clone();
                match c10_fill_tx(rng, &tc, &tag, tx.repo_mut(), &mut tx_dag, n) {
                    Ok(()) => sides.push((tag, tx, tx_dag)),
                    Err(Stop::Abort(why)) => {
                        counts.add("transactions_dropped_commit_id_collision");
                        tc.log(format!("{tag} dropped: {why}"));
                    }
                    Err(other) => return Err(other),
                }
            }
            if sides.is_empty() {
                continue;
            }
            let mut side_ops = vec![];
            let n_sides = sides.len();
            for (tag, tx, mut tx_dag) in sides {
                let side_repo = tx
                    .commit(tag.clone())
                    .block_on()
                    .map_err(|e| Stop::Harness(format!("Transaction::commit failed: {e:?}")))?;
                tc.log(format!("{tag} commit (concurrent)"));
                ops += 1;
                counts.add("operations_committed");
                counts.add("operations_committed_concurrently");
                // The op heads are divergent now; the disk reload is checked after the merge.
                check_committed(&tr, &settings, &mut tx_dag, &side_repo, &format!("after commit of {tag}"), false, counts)?;
                merge_dag(&mut dag, &tx_dag);
                side_ops.push(side_repo.operation().clone());
            }
            if n_sides >= 2 && rng.chance(1, 2) {
                // Explicit merge_operations in a random order (left unpublished).
                let mut order = side_ops.clone();
                rng.shuffle(&mut order);
                match repo
                    .loader()
                    .merge_operations(order, None, None, Vec::<(String, String)>::new())
                    .block_on()
                {
                    Ok((merged, n_rebased)) => {
                        counts.add("explicit_merge_operations");
                        counts.add_n("commits_rebased_by_operation_merge", n_rebased as u64);
                        tc.log(format!("tx{tx_no} merge_operations -> {n_rebased} rebased"));
                        // This operation stays unpublished: commits it created are not
                        // in the index of later operations, so they must not enter `dag`.
                        let mut probe = dag.clone();
                        let stats = check_view_invariants(
                            &mut probe,
                            merged.store(),
                            merged.view(),
                            &format!("after merge_operations of tx{tx_no}.*"),
                        )?;
                        note_view_stats(counts, &stats);
                    }
                    Err(e) => match stop_for("merge_operations", &e) {
                        Stop::Abort(_) => counts.add("operation_merges_failed_commit_id_collision"),
                        other => return Err(other),
                    },
                }
            }
            match repo.reload_at_head().block_on() {
                Ok(merged) => {
                    if n_sides >= 2 {
                        counts.add("operation_merges_by_load_at_head");
                        counts.add(&format!("operation_merges_of_{n_sides}_heads"));
                    }
                    tc.log(format!("tx{tx_no} reload_at_head"));
                    repo = merged;
                    check_committed(&tr, &settings, &mut dag, &repo, &format!("after reload_at_head merging tx{tx_no}.*"), true, counts)?;
                }
                Err(e) => match stop_for("reload_at_head", &e) {
                    Stop::Abort(why) => {
                        // The repo cannot be brought to a single head; the case ends here.
                        counts.add("operation_merges_failed_commit_id_collision");
                        tc.log(format!("tx{tx_no} reload_at_head failed: {why}"));
                        break;
                    }
                    other => return Err(other),
                },
            }
        }
    }
    counts.max("commits_in_a_case", dag.len() as u64);
    Ok(ops >= 3 && counts.get("referenced_ids_checked") > 0)
}

fn run_engine(
    ctx: &Ctx,
    n: u64,
    case: impl Fn(&Ctx, &mut Rng, &Counts, &RefCell<Vec<String>>) -> Step<bool> + Sync,
) {
    par_cases(ctx, n, threads(), |i, cs, rng| {
        let counts = Counts::default();
        let log: RefCell<Vec<String>> = RefCell::new(vec![]);
        let mut nontrivial = false;
        let mut harness_problem = None;
        run_case(
            ctx,
            i,
            cs,
            || json!({"steps": *log.borrow()}),
            || match case(ctx, rng, &counts, &log) {
                Ok(nt) => {
                    nontrivial = nt;
                    Ok(())
                }
                Err(Stop::Fail(f)) => Err(f),
                Err(Stop::Abort(why)) => {
                    counts.add("cases_ended_early_commit_id_collision");
                    log.borrow_mut().push(format!("case ended early: {why}"));
                    Ok(())
                }
                Err(Stop::Harness(why)) => {
                    harness_problem = Some(why);
                    Ok(())
                }
            },
        );
        if let Some(why) = harness_problem {
            ctx.inconclusive(&format!("case {i} (seed {cs}): {}", truncate(&why, 500)));
        }
        counts.flush(ctx);
        let steps = log.borrow();
        ctx.case(stable_hash(&*steps), nontrivial);
        if nontrivial && ctx.wants_sample() {
            let shown: Vec<&String> = steps.iter().take(60).collect();
            ctx.sample(|| json!({"steps": shown, "total_steps": steps.len()}));
        }
    });
}

pub fn run_c10(ctx: &Ctx) -> i32 {
    ctx.set_rule(
        "Each case is a fresh repo (test backend, real op store / op heads / index on disk) driven \
         through 20-200 random steps split into transactions of 1, 2-6 or 7-25 steps (so both the \
         incremental add_heads path and index-based normalization happen): new commits (on heads, \
         on arbitrary visible commits, merges), rewrite_commit (optionally onto other parents), \
         record_abandoned_commit, rebase_descendants, set_local_bookmark_target (normal, conflicted \
         with absent terms, absent; visible and hidden targets), edit / check_out in 1-3 workspaces \
         (visible and hidden commits), remove_head of heads that hide no referenced commit; every \
         4th round 2-3 transactions are started from the same operation, all committed, then merged \
         by merge_operations (random order) and by reload_at_head. After every commit / merge and \
         after a fresh load from disk the view is checked with the harness' own ancestry. \
         Non-trivial: at least 3 committed operations and at least one bookmark target or \
         working-copy commit was checked. Distinct: by the executed step list.",
    );
    ctx.assume("commit ids in views are resolvable in the commit store (Store::get_commit is trusted; C17 monitors backends)");
    let n = ctx.tier().pick(200, 20_000);
    run_engine(ctx, n, c10_case);
    ctx.finish(ctx.tier().pick(100, 2_000))
}

// ---------------------------------------------------------------------------
// C11

fn empty_name(e: EmptyBehavior) -> &'static str {
    match e {
        EmptyBehavior::Keep => "keep",
        EmptyBehavior::AbandonNewlyEmpty => "abandon_newly_empty",
        EmptyBehavior::AbandonAllEmpty => "abandon_all_empty",
    }
}

/// Adds `n` commits on random parents. Trees are flat (top-level files only,
/// so the tree merges done by rebasing stay clear of the file/directory cases
/// that belong to C07); a third of the commits are empty, 8% reuse the change
/// id of an existing commit.
fn c11_grow(rng: &mut Rng, mut_repo: &mut MutableRepo, dag: &mut Dag, n: usize) {
    for _ in 0..n {
        let n_parents = if dag.len() >= 3 && rng.chance(1, 4) { rng.range(2, 3) } else { 1 };
        let mut parents: Vec<usize> = vec![];
        for _ in 0..n_parents * 3 {
            if parents.len() >= n_parents.min(dag.len()) {
                break;
            }
            let p = if rng.chance(2, 3) { dag.len() - 1 - rng.below(dag.len().min(4)) } else { rng.below(dag.len()) };
            if !parents.contains(&p) {
                parents.push(p);
            }
        }
        if parents.len() > 1 {
            parents.retain(|p| *p != 0);
        }
        if parents.is_empty() {
            parents.push(0);
        }
        let mut tree: TreeModel = dag.nodes[parents[0]].tree.clone().unwrap_or_default();
        if !rng.chance(1, 3) {
            let path = format!("f{}", rng.below(4));
            if rng.chance(1, 5) {
                tree.remove(&path);
            } else {
                let content = format!("v{}\n", rng.below(6)).into_bytes();
                tree.insert(path, Entry::File { content, exec: false });
            }
        }
        let change_id = if dag.len() > 1 && rng.chance(8, 100) {
            Some(dag.change_id(rng.range(1, dag.len() - 1)).clone())
        } else {
            None
        };
        let description = format!("c{}", dag.len());
        add_commit(mut_repo, dag, &parents, Some(tree), change_id, &description);
    }
}

fn c11_case(ctx: &Ctx, rng: &mut Rng, counts: &Counts, log: &RefCell<Vec<String>>) -> Step<bool> {
    let _ = ctx;
    let tr = new_test_repo();
    let mut repo = tr.repo.clone();
    let store = repo.store().clone();
    let mut dag = Dag::new(&store);
    let push = |line: String| log.borrow_mut().push(line);

    // ---- setup: G-dag + bookmarks + workspaces, committed as one operation.
    let mut tx = repo.start_transaction();
    {
        let mut_repo = tx.repo_mut();
        let n = rng.range(3, 14);
        c11_grow(rng, mut_repo, &mut dag, n);
        for (i, node) in dag.nodes.iter().enumerate().skip(1) {
            push(format!("setup commit {i} parents {:?}", node.parents));
        }
        let nonroot: Vec<usize> = (1..dag.len()).collect();
        for name in BOOKMARKS.iter().take(rng.below(5)) {
            let target = if nonroot.len() >= 3 && rng.chance(1, 4) {
                let mut picks = nonroot.clone();
                rng.shuffle(&mut picks);
                let terms = if rng.chance(1, 3) {
                    vec![Some(dag.id(picks[0]).clone()), None, Some(dag.id(picks[1]).clone())]
                } else {
                    vec![
                        Some(dag.id(picks[0]).clone()),
                        Some(dag.id(picks[2]).clone()),
                        Some(dag.id(picks[1]).clone()),
                    ]
                };
                RefTarget::from_merge(Merge::from_vec(terms))
            } else {
                RefTarget::normal(dag.id(pick_biased(rng, &nonroot)).clone())
            };
            push(format!("setup bookmark {name} = {}", target_json(&dag, &target)));
            mut_repo.set_local_bookmark_target((*name).as_ref(), target);
        }
        for ws in ["default", "ws2", "ws3"].iter().take(rng.below(4)) {
            let i = pick_biased(rng, &nonroot);
            push(format!("setup workspace {ws} at {i}"));
            let commit = dag.commit(i).clone();
            mut_repo
                .edit(WorkspaceNameBuf::from(*ws), &commit)
                .block_on()
                .map_err(|e| stop_for("setup edit", &e))?;
        }
        if mut_repo.has_rewrites() {
            mut_repo.rebase_descendants().block_on().map_err(|e| stop_for("setup rebase", &e))?;
        }
    }
    repo = tx
        .commit("setup")
        .block_on()
        .map_err(|e| Stop::Harness(format!("setup commit failed: {e:?}")))?;

    let rounds = if rng.chance(1, 3) { 2 } else { 1 };
    let mut nontrivial = false;
    for round in 0..rounds {
        let (new_repo, nt) = c11_round(rng, counts, log, &mut dag, &repo, round)?;
        repo = new_repo;
        nontrivial |= nt;
    }
    Ok(nontrivial)
}

fn c11_round(
    rng: &mut Rng,
    counts: &Counts,
    log: &RefCell<Vec<String>>,
    dag: &mut Dag,
    repo: &Arc<ReadonlyRepo>,
    round: usize,
) -> Step<(Arc<ReadonlyRepo>, bool)> {
    let push = |line: String| log.borrow_mut().push(line);
    let store = repo.store().clone();
    sync_view(dag, &store, repo.view())?;
    let visible_before = visible_set(dag, repo.view());
    let mut change_count: HashMap<ChangeId, usize> = HashMap::new();
    for v in &visible_before {
        *change_count.entry(dag.change_id(*v).clone()).or_insert(0) += 1;
    }
    let divergent_before: HashSet<ChangeId> =
        change_count.into_iter().filter(|(_, n)| *n > 1).map(|(c, _)| c).collect();
    if !divergent_before.is_empty() {
        counts.add("rounds_with_divergence_before");
    }

    let mut tx = repo.start_transaction();
    let mut_repo = tx.repo_mut();
    let mut records = Records::new();
    let mut divergent_recorded: HashSet<ChangeId> = HashSet::new();
    let mut serial = 0;
    let n_records = rng.range(1, 5);
    let mut forced_next: Option<(usize, usize)> = None; // (kind, commit)
    let mut made = 0;
    let mut attempts = 0;
    while made < n_records && attempts < 30 {
        attempts += 1;
        let visible_now: Vec<usize> = visible_set(dag, mut_repo.view()).into_iter().collect();
        let candidates: Vec<usize> =
            visible_now.iter().copied().filter(|i| *i != 0 && !records.contains_key(i)).collect();
        if candidates.is_empty() {
            break;
        }
        let (kind, x) = match forced_next.take() {
            Some((k, x)) if candidates.contains(&x) => (k, x),
            _ => {
                let kind = rng.weighted(&[40, 30, 15, 6]);
                let x = if kind == 1 && rng.chance(1, 2) {
                    // prefer abandoning a merge
                    let merges: Vec<usize> =
                        candidates.iter().copied().filter(|c| dag.nodes[*c].parents.len() > 1).collect();
                    if merges.is_empty() { pick_biased(rng, &candidates) } else { *rng.pick(&merges) }
                } else {
                    *rng.pick(&candidates)
                };
                (kind, x)
            }
        };
        let old = dag.commit(x).clone();
        serial += 1;
        match kind {
            0 => {
                // rewrite: new description, optionally other parents, optionally absorbing a child's tree
                let mut note = String::new();
                let mut parents = dag.nodes[x].parents.clone();
                if rng.chance(1, 3) {
                    parents = pick_parents(rng, &visible_now, 2);
                    note = format!(" onto {parents:?}");
                }
                // The new commit must not depend on the old one (directly or
                // through other records): jj documents cycles as unsupported.
                if reaches(dag, &records, &parents, x) {
                    continue;
                }
                let mut builder = mut_repo.rewrite_commit(&old).set_description(format!("rw{round}.{serial}"));
                if !note.is_empty() {
                    builder = builder.set_parents(parents.iter().map(|i| dag.id(*i).clone()).collect());
                    counts.add("records.rewrite_onto_other_parents");
                }
                let children: Vec<usize> = dag
                    .children(x)
                    .into_iter()
                    .filter(|c| visible_now.contains(c) && dag.nodes[*c].parents.len() == 1)
                    .collect();
                if !children.is_empty() && rng.chance(1, 3) {
                    let c = *rng.pick(&children);
                    builder = builder.set_tree(dag.commit(c).tree());
                    note.push_str(&format!(" absorbing tree of child {c}"));
                    counts.add("records.rewrite_absorbing_child_tree");
                }
                match builder.write().block_on() {
                    Ok(commit) => {
                        let b = dag.add(commit, None);
                        let is_chain = records.values().any(|r| *r == Rec::Rewritten(x));
                        records.insert(x, Rec::Rewritten(b));
                        counts.add("records.rewritten");
                        if is_chain {
                            counts.add("records.rewrite_chain_link(A->B->C)");
                        }
                        push(format!("r{round} rewrite {x} -> {b}{note}"));
                        made += 1;
                        if rng.chance(1, 3) {
                            forced_next = Some((0, b));
                        } else if rng.chance(1, 8) {
                            forced_next = Some((1, b));
                        }
                    }
                    Err(e) => match stop_for("rewrite_commit", &e) {
                        Stop::Abort(_) => counts.add("records.skipped_commit_id_collision"),
                        other => return Err(other),
                    },
                }
            }
            1 => {
                let parents = dag.nodes[x].parents.clone();
                if reaches(dag, &records, &parents, x) {
                    continue;
                }
                mut_repo.record_abandoned_commit(&old);
                let parent_abandoned = parents.iter().any(|p| matches!(records.get(p), Some(Rec::Abandoned(_))));
                let after_rewrite = records.values().any(|r| *r == Rec::Rewritten(x));
                records.insert(x, Rec::Abandoned(parents.clone()));
                counts.add("records.abandoned");
                if parents.len() > 1 {
                    counts.add("records.abandoned_merge");
                }
                if parent_abandoned {
                    counts.add("records.abandoned_consecutive_ancestors");
                }
                if after_rewrite {
                    counts.add("records.rewrite_then_abandon_chain");
                }
                push(format!("r{round} abandon {x}"));
                made += 1;
                if rng.chance(1, 2) {
                    if let Some(p) = parents.iter().copied().find(|p| *p != 0) {
                        forced_next = Some((1, p));
                    }
                }
            }
            2 => {
                // divergent rewrite: 2-3 new versions, then the divergence record
                if reaches(dag, &records, &dag.nodes[x].parents, x) {
                    continue;
                }
                let n_new = rng.range(2, 3);
                let mut news: Vec<usize> = vec![];
                for k in 0..n_new {
                    match mut_repo
                        .rewrite_commit(&old)
                        .set_description(format!("dv{round}.{serial}.{k}"))
                        .write()
                        .block_on()
                    {
                        Ok(commit) => news.push(dag.add(commit, None)),
                        Err(e) => return Err(stop_for("rewrite_commit (divergent)", &e)),
                    }
                }
                mut_repo.set_divergent_rewrite(dag.id(x).clone(), news.iter().map(|i| dag.id(*i).clone()));
                records.insert(x, Rec::Divergent(news.clone()));
                divergent_recorded.insert(dag.change_id(x).clone());
                counts.add("records.divergent");
                push(format!("r{round} divergent {x} -> {news:?}"));
                made += 1;
            }
            _ => {
                // record an existing commit as the rewrite of x
                let others: Vec<usize> = candidates
                    .iter()
                    .copied()
                    .filter(|y| *y != x && !reaches(dag, &records, &[*y], x))
                    .collect();
                if others.is_empty() {
                    continue;
                }
                let y = *rng.pick(&others);
                mut_repo.set_rewritten_commit(dag.id(x).clone(), dag.id(y).clone());
                records.insert(x, Rec::Rewritten(y));
                counts.add("records.rewritten_to_existing_commit");
                push(format!("r{round} set_rewritten {x} -> {y}"));
                made += 1;
            }
        }
    }
    if records.is_empty() {
        counts.add("rounds_without_records");
    }

    // Immutable set: random commits that are not themselves recorded as rewritten.
    let visible_now: Vec<usize> = visible_set(dag, mut_repo.view()).into_iter().collect();
    let mut immutable: BTreeSet<usize> = BTreeSet::new();
    if rng.chance(1, 2) {
        let pool: Vec<usize> =
            visible_now.iter().copied().filter(|i| *i != 0 && !records.contains_key(i)).collect();
        if !pool.is_empty() {
            for _ in 0..rng.range(1, 3) {
                immutable.insert(*rng.pick(&pool));
            }
        }
    }
    let immutable_expr: Arc<ResolvedRevsetExpression> =
        ResolvedRevsetExpression::commits(immutable.iter().map(|i| dag.id(*i).clone()).collect());
    let options = RebaseOptions {
        empty: *rng.pick(&[EmptyBehavior::Keep, EmptyBehavior::AbandonNewlyEmpty, EmptyBehavior::AbandonAllEmpty]),
        rewrite_refs: RewriteRefsOptions { delete_abandoned_bookmarks: rng.bool() },
        simplify_ancestor_merge: rng.bool(),
    };
    push(format!(
        "r{round} rebase_descendants_with_options immutable {:?} empty {} delete_abandoned_bookmarks {} simplify_ancestor_merge {}",
        immutable,
        empty_name(options.empty),
        options.rewrite_refs.delete_abandoned_bookmarks,
        options.simplify_ancestor_merge
    ));
    counts.add(&format!("rebase.empty_{}", empty_name(options.empty)));
    counts.add(&format!("rebase.delete_abandoned_bookmarks_{}", options.rewrite_refs.delete_abandoned_bookmarks));
    counts.add(&format!("rebase.simplify_ancestor_merge_{}", options.simplify_ancestor_merge));
    if !immutable.is_empty() {
        counts.add("rebase.with_immutable_set");
    }

    let bookmarks_before: Vec<(String, RefTarget)> = mut_repo
        .view()
        .local_bookmarks()
        .map(|(n, t)| (n.as_str().to_owned(), t.clone()))
        .collect();
    let wcs_before: Vec<(WorkspaceNameBuf, CommitId)> =
        mut_repo.view().wc_commit_ids().iter().map(|(n, id)| (n.clone(), id.clone())).collect();
    let known_before = dag.len();
    let user_records = records.clone();

    let mut events: Vec<(Commit, RebasedCommit)> = vec![];
    mut_repo
        .rebase_descendants_with_options(&immutable_expr, &options, |old, rebased| events.push((old, rebased)))
        .block_on()
        .map_err(|e| stop_for("rebase_descendants_with_options", &e))?;

    // Record what jj did: new commits, and the rewrite records they imply.
    let mut rebased_pairs: Vec<(usize, usize)> = vec![];
    for (old, rebased) in &events {
        let Some(o) = dag.idx(old.id()) else {
            return Err(Stop::Harness("rebase reported a commit the harness does not know".into()));
        };
        match rebased {
            RebasedCommit::Rewritten(new) => {
                sync_dag(dag, &store, [new.id()])?;
                let n = dag.idx(new.id()).unwrap();
                records.insert(o, Rec::Rewritten(n));
                rebased_pairs.push((o, n));
                push(format!("r{round}   rebased {o} -> {n} parents {:?}", dag.nodes[n].parents));
            }
            RebasedCommit::Abandoned { parent_id } => {
                sync_dag(dag, &store, [parent_id])?;
                let p = dag.idx(parent_id).unwrap();
                records.insert(o, Rec::Abandoned(vec![p]));
                counts.add("rebase.descendant_abandoned_as_empty");
                push(format!("r{round}   abandoned-as-empty {o} -> parent {p}"));
            }
        }
    }
    counts.add_n("rebase.descendants_rebased", rebased_pairs.len() as u64);

    let new_repo = tx
        .commit(format!("round {round}"))
        .block_on()
        .map_err(|e| Stop::Harness(format!("Transaction::commit failed: {e:?}")))?;
    let view = new_repo.view();
    sync_view(dag, &store, view)?;

    // ---- oracle
    let heads = head_indices(dag, view);
    let visible = dag.ancestors_of_set(heads.iter().copied());
    let divergent_keys: BTreeSet<usize> = user_records
        .iter()
        .filter(|(_, r)| matches!(r, Rec::Divergent(_)))
        .map(|(k, _)| *k)
        .collect();
    // H: commits that have to be replaced: recorded as rewritten/abandoned, or
    // (not immutable, not divergent-rewritten) children of such commits.
    let mut must_go: BTreeSet<usize> = BTreeSet::new();
    for n in 0..dag.len() {
        match user_records.get(&n) {
            Some(Rec::Rewritten(_)) | Some(Rec::Abandoned(_)) => {
                must_go.insert(n);
                continue;
            }
            _ => {}
        }
        if immutable.contains(&n) || divergent_keys.contains(&n) {
            continue;
        }
        if dag.nodes[n].parents.iter().any(|p| must_go.contains(p)) {
            must_go.insert(n);
        }
    }
    let mut children: Vec<Vec<usize>> = vec![vec![]; dag.len()];
    for n in 0..dag.len() {
        for p in &dag.nodes[n].parents {
            children[*p].push(n);
        }
    }
    let describe = |dag: &Dag| json!({"dag": dag_json(dag), "view": view_json(dag, view)}).to_string();

    // (a) no orphans: a visible commit that has to be replaced is only
    // acceptable as an ancestor of a commit protected by the immutable set or
    // by a divergent rewrite.
    let check_a = || -> Check {
        let mut justified: BTreeSet<usize> = BTreeSet::new();
        for v in (0..dag.len()).rev() {
            if !visible.contains(&v) || !must_go.contains(&v) {
                continue;
            }
            let ok = children[v]
                .iter()
                .any(|c| visible.contains(c) && (!must_go.contains(c) || justified.contains(c)));
            if ok {
                justified.insert(v);
                counts.add("oracle.a_visible_only_through_immutable_or_divergent_descendant");
            } else {
                // Signature refinement: was this commit (or a new commit below it)
                // rebased onto a replacement that itself still had to be rebased
                // and that is reached from the old parent through two or more
                // rewrite records (A->B->C chains, abandoned ancestors of a
                // rewritten commit)? That is one specific ordering defect.
                let stale_direct = |w: usize| -> bool {
                    let Some((o, _)) = rebased_pairs.iter().find(|(_, n)| *n == w) else {
                        return false;
                    };
                    let stale_parents: Vec<usize> =
                        dag.nodes[w].parents.iter().copied().filter(|p| must_go.contains(p)).collect();
                    let mut frontier: Vec<(usize, usize)> = dag.nodes[*o].parents.iter().map(|q| (*q, 0)).collect();
                    let mut seen = BTreeSet::new();
                    while let Some((n, d)) = frontier.pop() {
                        if d >= 2 && stale_parents.contains(&n) {
                            return true;
                        }
                        if !seen.insert((n, d.min(2))) {
                            continue;
                        }
                        match user_records.get(&n) {
                            Some(Rec::Rewritten(t)) => frontier.push((*t, d + 1)),
                            Some(Rec::Abandoned(ts)) => frontier.extend(ts.iter().map(|t| (*t, d + 1))),
                            Some(Rec::Divergent(_)) => {}
                            None => {
                                // A descendant abandoned as empty during this rebase stands for its own parents.
                                if matches!(records.get(&n), Some(Rec::Abandoned(_))) {
                                    frontier.extend(dag.nodes[n].parents.iter().map(|q| (*q, d)));
                                }
                            }
                        }
                    }
                    false
                };
                let mut stale = false;
                let mut stack = vec![v];
                let mut seen = BTreeSet::new();
                while let Some(w) = stack.pop() {
                    if !seen.insert(w) {
                        continue;
                    }
                    if stale_direct(w) {
                        stale = true;
                        break;
                    }
                    stack.extend(dag.nodes[w].parents.iter().copied().filter(|p| *p >= known_before && must_go.contains(p)));
                }
                ensure!(
                    false,
                    if stale {
                        "orphan.rebased_onto_stale_target_of_multi_hop_rewrite"
                    } else {
                        "orphan.visible_commit_descends_from_rewritten"
                    },
                    "commit {v} ({}) is still visible although it is, or descends from, a rewritten/abandoned commit \
                     (records {:?}, immutable {:?}); {}",
                    short(dag.id(v)),
                    user_records,
                    immutable,
                    describe(dag)
                );
            }
        }
        Ok(())
    };
    check_a()?;
    counts.add_n("oracle.a_commits_that_had_to_go", must_go.iter().filter(|v| visible_before.contains(v)).count() as u64);

    // (b) every rebased commit keeps change id, description and author, and
    // the operation records its predecessor.
    let check_b = || -> Check {
        for (o, n) in &rebased_pairs {
            let old = dag.commit(*o);
            let new = dag.commit(*n);
            ensure!(
                old.change_id() == new.change_id(),
                "rebased.keeps_change_id",
                "rebased {o} -> {n}: change id {} became {}",
                old.change_id().hex(),
                new.change_id().hex()
            );
            ensure!(
                old.description() == new.description(),
                "rebased.keeps_description",
                "rebased {o} -> {n}: description {:?} became {:?}",
                old.description(),
                new.description()
            );
            // jj deliberately resets the author timestamp of commits without a
            // description (discardable ones); compare name/email always and
            // the timestamp only for described commits.
            let same_author = old.author().name == new.author().name
                && old.author().email == new.author().email
                && (old.description().is_empty() || old.author().timestamp == new.author().timestamp);
            ensure!(
                same_author,
                "rebased.keeps_author",
                "rebased {o} -> {n}: author {:?} became {:?}",
                old.author(),
                new.author()
            );
            let preds = new_repo.operation().predecessors_for_commit(new.id());
            ensure!(
                preds.is_some_and(|p| p.contains(old.id())),
                "rebased.records_predecessor",
                "rebased {o} -> {n}: operation lists predecessors {:?}, expected to contain {}",
                preds.map(|p| p.iter().map(short).collect::<Vec<_>>()),
                short(old.id())
            );
            counts.add("oracle.b_rebased_commits_checked");
        }
        Ok(())
    };
    check_b()?;

    // (c) references follow.
    let delete = options.rewrite_refs.delete_abandoned_bookmarks;
    let check_c = || -> Check {
        for (name, before) in &bookmarks_before {
            let after = view.get_local_bookmark(name.as_str().as_ref());
            // No bookmark may keep pointing at a replaced commit.
            for id in after.added_ids() {
                let i = dag.idx(id);
                ensure!(
                    i.is_some_and(|i| !records.contains_key(&i)),
                    "refs.bookmark_left_on_rewritten_commit",
                    "bookmark {name} still adds {:?} which was rewritten/abandoned (records {:?}); before {} after {}",
                    i,
                    records,
                    target_json(dag, before),
                    target_json(dag, after)
                );
                ensure!(
                    i.is_some_and(|i| visible.contains(&i)),
                    "refs.bookmark_target_visible",
                    "bookmark {name} adds {:?} which is not visible",
                    i
                );
            }
            let touched: Vec<usize> = before
                .added_ids()
                .filter_map(|id| dag.idx(id))
                .filter(|i| records.contains_key(i))
                .collect();
            if touched.is_empty() {
                continue;
            }
            let Some(x_id) = before.as_normal() else {
                counts.add("oracle.c_conflicted_bookmark_followed(weak check)");
                continue;
            };
            let x = dag.idx(x_id).unwrap();
            let mut finals = vec![];
            final_ids(&records, x, 0, &mut finals);
            let adds: BTreeSet<usize> = after.added_ids().filter_map(|id| dag.idx(id)).collect();
            let expected: BTreeSet<usize> = finals.iter().copied().collect();
            let direct_abandon = matches!(records.get(&x), Some(Rec::Abandoned(_)));
            // Does the chain from x end in an abandoned commit (x rewritten, its rewrite abandoned)?
            let chain_abandon = {
                let mut cur = x;
                let mut found = false;
                while let Some(Rec::Rewritten(t)) = records.get(&cur) {
                    cur = *t;
                    if matches!(records.get(&cur), Some(Rec::Abandoned(_))) {
                        found = true;
                        break;
                    }
                }
                found
            };
            if direct_abandon && delete {
                ensure!(
                    after.is_absent(),
                    "refs.bookmark_at_abandoned_deleted_when_requested",
                    "bookmark {name} was at abandoned {x}, deletion requested, but it is now {}",
                    target_json(dag, after)
                );
                counts.add("oracle.c_bookmark_deleted_with_abandoned_commit");
            } else if chain_abandon && delete && after.is_absent() {
                // The bookmark was at a rewritten commit whose rewrite was
                // abandoned: the statement allows both reading (follow to the
                // parents / delete), so either is accepted.
                counts.add("oracle.c_bookmark_chain_to_abandoned_deleted");
            } else {
                ensure!(
                    adds == expected,
                    "refs.bookmark_follows_rewrite",
                    "bookmark {name} was at {x}; expected it to point at {:?} (records {:?}) but it is {}",
                    finals,
                    records,
                    target_json(dag, after)
                );
                ensure!(
                    expected.len() > 1 || after.as_normal().is_some(),
                    "refs.bookmark_follows_rewrite",
                    "bookmark {name} was at {x}; expected a normal target at {:?} but it is {}",
                    finals,
                    target_json(dag, after)
                );
                if expected.len() > 1 {
                    ensure!(
                        after.has_conflict(),
                        "refs.bookmark_conflicted_when_several_targets",
                        "bookmark {name} was at {x} with replacements {:?} but is not conflicted: {}",
                        finals,
                        target_json(dag, after)
                    );
                    counts.add("oracle.c_bookmark_became_conflicted");
                }
                counts.add(match records.get(&x) {
                    Some(Rec::Abandoned(_)) => "oracle.c_bookmark_moved_to_parents_of_abandoned",
                    Some(Rec::Divergent(_)) => "oracle.c_bookmark_followed_divergent_rewrite",
                    _ => "oracle.c_bookmark_followed_rewrite",
                });
            }
        }
        for (ws, before_id) in &wcs_before {
            let Some(after_id) = view.get_wc_commit_id(ws) else {
                ensure!(false, "refs.workspace_lost", "workspace {} disappeared", ws.as_str());
                unreachable!()
            };
            let a = dag.idx(after_id);
            ensure!(
                a.is_some_and(|a| !records.contains_key(&a)),
                "refs.wc_left_on_rewritten_commit",
                "working copy of {} is {:?} which was rewritten/abandoned (records {:?})",
                ws.as_str(),
                a,
                records
            );
            let a = a.unwrap();
            ensure!(
                visible.contains(&a),
                "refs.wc_commit_visible",
                "working copy of {} is {a} which is not visible",
                ws.as_str()
            );
            let x = dag.idx(before_id).unwrap();
            if !records.contains_key(&x) {
                continue;
            }
            let mut finals = vec![];
            final_ids(&records, x, 0, &mut finals);
            let expected: BTreeSet<usize> = finals.iter().copied().collect();
            let new_on_parents =
                a >= known_before && dag.nodes[a].parents.iter().copied().collect::<BTreeSet<_>>() == expected;
            if matches!(records.get(&x), Some(Rec::Abandoned(_))) {
                ensure!(
                    new_on_parents,
                    "refs.wc_at_abandoned_gets_new_commit_on_parents",
                    "working copy of {} was at abandoned {x}; expected a new commit with parents {:?}, got {a} (new: {}) with parents {:?}",
                    ws.as_str(),
                    finals,
                    a >= known_before,
                    dag.nodes[a].parents
                );
                counts.add("oracle.c_wc_recreated_on_parents_of_abandoned");
                if expected.len() > 1 {
                    counts.add("oracle.c_wc_recreated_as_merge");
                }
            } else {
                // Rewritten (possibly divergent, possibly a chain ending in an
                // abandoned commit): any final replacement is accepted, as is a
                // new commit on the final replacements.
                ensure!(
                    expected.contains(&a) || new_on_parents,
                    "refs.wc_follows_rewrite",
                    "working copy of {} was at rewritten {x}; expected one of {:?}, got {a}",
                    ws.as_str(),
                    finals
                );
                counts.add("oracle.c_wc_followed_rewrite");
            }
        }
        Ok(())
    };
    check_c()?;

    // (d) no new divergence: visible commits (other than those that had to go
    // and are only kept alive by the exceptions of (a)) share a change id only
    // if they did before or a divergent rewrite was recorded for that change.
    let check_d = || -> Check {
        let mut by_change: HashMap<&ChangeId, Vec<usize>> = HashMap::new();
        for v in &visible {
            if !must_go.contains(v) {
                by_change.entry(dag.change_id(*v)).or_default().push(*v);
            }
        }
        for (change, commits) in by_change {
            if commits.len() < 2 {
                continue;
            }
            if divergent_before.contains(change) {
                counts.add("oracle.d_shared_change_id_divergent_before");
                continue;
            }
            if divergent_recorded.contains(change) {
                counts.add("oracle.d_shared_change_id_divergent_recorded");
                continue;
            }
            ensure!(
                false,
                "change_id.shared_by_visible_commits_without_divergent_rewrite",
                "visible commits {commits:?} share change id {} but no divergent rewrite was recorded (records {:?}); {}",
                change.hex(),
                user_records,
                describe(dag)
            );
        }
        Ok(())
    };
    check_d()?;
    counts.add("rounds_checked");
    counts.max("commits_in_a_case", dag.len() as u64);
    counts.max("records_in_a_round", user_records.len() as u64);

    let refs_moved = bookmarks_before
        .iter()
        .any(|(_, t)| t.added_ids().any(|id| dag.idx(id).is_some_and(|i| records.contains_key(&i))))
        || wcs_before.iter().any(|(_, id)| dag.idx(id).is_some_and(|i| records.contains_key(&i)));
    Ok((new_repo.clone(), !user_records.is_empty() && (!events.is_empty() || refs_moved)))
}

pub fn run_c11(ctx: &Ctx) -> i32 {
    ctx.set_rule(
        "Each case builds a random commit graph (3-14 commits with generated trees, 25% merges, some \
         empty commits, some commits sharing a change id), 0-4 local bookmarks (normal and conflicted) \
         and 0-3 workspaces, commits it, then in a second transaction records 1-5 random rewrites: \
         rewrite_commit (new description, optionally other parents, optionally absorbing a child's \
         tree, chains A->B->C, rewrite-then-abandon), record_abandoned_commit (merges, consecutive \
         ancestors), divergent rewrites (2-3 versions + set_divergent_rewrite), set_rewritten_commit \
         to an existing commit (records are kept acyclic); then rebase_descendants_with_options \
         with a random immutable set, EmptyBehavior, delete_abandoned_bookmarks and \
         simplify_ancestor_merge; the transaction is committed and the oracle clauses (a)-(d) run on \
         the committed view with the harness' own graph; one third of the cases run a second round \
         on the result. Non-trivial: at least one record and (a descendant was rebased/abandoned or \
         a bookmark/working copy pointed at a replaced commit). Distinct: by the executed step list.",
    );
    ctx.assume("the progress callback of rebase_descendants_with_options reports every rebased commit (used to learn the ids of new commits)");
    let n = ctx.tier().pick(1_200, 150_000);
    run_engine(ctx, n, c11_case);
    ctx.finish(ctx.tier().pick(400, 20_000))
}
