//! Reference models shared by the repo-level monitors: tree model, structural
//! values read back from a store, and a chaos backend wrapper.

use std::collections::BTreeMap;
use std::pin::Pin;
use std::sync::Arc;
use std::sync::atomic::AtomicU64;
use std::sync::atomic::Ordering;
use std::task::Context;
use std::task::Poll;

use async_trait::async_trait;
use futures::stream::BoxStream;
use jj_lib::backend::Backend;
use jj_lib::backend::BackendResult;
use jj_lib::backend::ChangeId;
use jj_lib::backend::Commit;
use jj_lib::backend::CommitId;
use jj_lib::backend::CopyHistory;
use jj_lib::backend::CopyId;
use jj_lib::backend::CopyRecord;
use jj_lib::backend::FileId;
use jj_lib::backend::RelatedCopy;
use jj_lib::backend::SigningFn;
use jj_lib::backend::SymlinkId;
use jj_lib::backend::Tree;
use jj_lib::backend::TreeId;
use jj_lib::backend::TreeValue;
use jj_lib::merge::Merge;
use jj_lib::merged_tree::MergedTree;
use jj_lib::repo_path::RepoPath;
use jj_lib::repo_path::RepoPathBuf;
use jj_lib::store::Store;
use pollster::FutureExt as _;
use testutils::TestTreeBuilder;
use futures::io::AsyncRead;
use futures::AsyncReadExt as _;

use crate::common::Rng;
use crate::r#gen;

#[derive(Clone, Debug, PartialEq, Eq, Hash, PartialOrd, Ord)]
pub enum Entry {
    File { content: Vec<u8>, exec: bool },
    Symlink(String),
}

/// path -> entry; directories are implicit. Invariant: no entry's path is a
/// directory prefix of another entry's path.
pub type TreeModel = BTreeMap<String, Entry>;

/// Small path universe in which file <-> directory replacements are frequent.
pub const PATHS: &[&str] = &["a", "a/b", "a/b/c", "a/g", "d", "d/e", "d/e/h", "f", "k/l"];

pub fn rp(s: &str) -> RepoPathBuf {
    RepoPathBuf::from_internal_string(s).unwrap()
}

fn is_dir_prefix(dir: &str, path: &str) -> bool {
    path.len() > dir.len() && path.starts_with(dir) && path.as_bytes()[dir.len()] == b'/'
}

/// Inserts `entry` at `path`, removing whatever it replaces (a directory at
/// `path`, or a file that is a directory prefix of `path`).
pub fn tree_insert(model: &mut TreeModel, path: &str, entry: Entry) {
    model.retain(|p, _| !is_dir_prefix(path, p) && !is_dir_prefix(p, path));
    model.insert(path.to_owned(), entry);
}

pub fn gen_file_content(rng: &mut Rng, pool: &[Vec<u8>]) -> Vec<u8> {
    match rng.below(14) {
        0 => vec![],
        1 => r#gen::gen_binary(rng, 16),
        _ => {
            let lines = r#gen::gen_lines(rng, pool, 5);
            let fin = !rng.chance(1, 8);
            r#gen::join_lines(rng, &lines, r#gen::Eol::Lf, fin)
        }
    }
}

pub fn gen_entry(rng: &mut Rng, pool: &[Vec<u8>]) -> Entry {
    if rng.chance(1, 8) {
        Entry::Symlink((*rng.pick(&["a", "f", "../x", "nowhere", "d/e"])).to_owned())
    } else {
        Entry::File {
            content: gen_file_content(rng, pool),
            exec: rng.chance(1, 5),
        }
    }
}

pub fn gen_tree(rng: &mut Rng, pool: &[Vec<u8>], max_entries: usize) -> TreeModel {
    let mut model = TreeModel::new();
    for _ in 0..rng.below(max_entries + 1) {
        let path = *rng.pick(PATHS);
        tree_insert(&mut model, path, gen_entry(rng, pool));
    }
    model
}

/// 0..=max_edits edits: add / replace / line-edit / chmod / delete /
/// file<->directory swap.
pub fn mutate_tree(rng: &mut Rng, base: &TreeModel, pool: &[Vec<u8>], max_edits: usize) -> TreeModel {
    let mut model = base.clone();
    for _ in 0..rng.below(max_edits + 1) {
        let existing: Vec<String> = model.keys().cloned().collect();
        match rng.below(7) {
            0 | 1 => {
                let path = *rng.pick(PATHS);
                tree_insert(&mut model, path, gen_entry(rng, pool));
            }
            2 | 3 if !existing.is_empty() => {
                // line edit of an existing file
                let path = rng.pick(&existing).clone();
                if let Some(Entry::File { content, exec }) = model.get(&path).cloned() {
                    let lines: Vec<Vec<u8>> = content
                        .split(|b| *b == b'\n')
                        .map(|l| l.to_vec())
                        .collect();
                    let had_final = content.ends_with(b"\n");
                    let mut lines = lines;
                    if had_final {
                        lines.pop();
                    }
                    let edited = r#gen::edit_lines(rng, &lines, pool, 2);
                    let new = r#gen::join_lines(rng, &edited, r#gen::Eol::Lf, had_final);
                    model.insert(path, Entry::File { content: new, exec });
                }
            }
            4 if !existing.is_empty() => {
                let path = rng.pick(&existing).clone();
                if let Some(Entry::File { content, exec }) = model.get(&path).cloned() {
                    model.insert(path, Entry::File { content, exec: !exec });
                }
            }
            5 if !existing.is_empty() => {
                let path = rng.pick(&existing).clone();
                model.remove(&path);
            }
            _ if !existing.is_empty() => {
                // file -> directory or directory -> file
                let path = rng.pick(&existing).clone();
                if let Some((parent, _)) = path.rsplit_once('/') {
                    tree_insert(&mut model, parent, gen_entry(rng, pool));
                } else {
                    let child = format!("{path}/b");
                    tree_insert(&mut model, &child, gen_entry(rng, pool));
                }
            }
            _ => {}
        }
    }
    model
}

/// Writes the model as a resolved tree.
pub fn write_tree(store: &Arc<Store>, model: &TreeModel) -> MergedTree {
    let mut builder = TestTreeBuilder::new(store.clone());
    for (path, entry) in model {
        let path = rp(path);
        match entry {
            Entry::File { content, exec } => {
                builder.file(&path, content).executable(*exec);
            }
            Entry::Symlink(target) => builder.symlink(&path, target),
        }
    }
    builder.write_merged_tree()
}

/// Structural value at a path.
#[derive(Clone, Debug, PartialEq, Eq, Hash, PartialOrd, Ord)]
pub enum Val {
    Absent,
    File { content: Vec<u8>, exec: bool },
    Symlink(String),
    /// Directory with its (relative path -> entry) contents.
    Tree(TreeModel),
    Other(String),
}

impl Val {
    pub fn is_file(&self) -> bool {
        matches!(self, Self::File { .. })
    }
    pub fn short(&self) -> String {
        match self {
            Self::Absent => "absent".into(),
            Self::File { content, exec } => format!("file{}({})", if *exec { "+x" } else { "" }, r#gen::show(content)),
            Self::Symlink(t) => format!("symlink({t})"),
            Self::Tree(m) => format!("tree{:?}", m.keys().collect::<Vec<_>>()),
            Self::Other(s) => s.clone(),
        }
    }
}

pub fn val_at(model: &TreeModel, path: &str) -> Val {
    if path.is_empty() {
        return Val::Tree(model.clone());
    }
    match model.get(path) {
        Some(Entry::File { content, exec }) => Val::File { content: content.clone(), exec: *exec },
        Some(Entry::Symlink(t)) => Val::Symlink(t.clone()),
        None => {
            let sub: TreeModel = model
                .iter()
                .filter(|(p, _)| is_dir_prefix(path, p))
                .map(|(p, e)| (p[path.len() + 1..].to_owned(), e.clone()))
                .collect();
            if sub.is_empty() { Val::Absent } else { Val::Tree(sub) }
        }
    }
}

pub fn read_file_bytes(store: &Arc<Store>, path: &RepoPath, id: &FileId) -> Vec<u8> {
    let mut reader = store.read_file(path, id).block_on().unwrap();
    let mut buf = vec![];
    reader.read_to_end(&mut buf).block_on().unwrap();
    buf
}

/// Reads a store tree recursively into a model (relative paths).
pub fn read_tree_model(store: &Arc<Store>, dir: &RepoPath, id: &TreeId) -> TreeModel {
    let tree = store.get_tree(dir.to_owned(), id).block_on().unwrap();
    let mut model = TreeModel::new();
    for (name, value) in tree.entries_non_recursive().map(|e| (e.name().to_owned(), e.value().clone())) {
        let child = dir.join(&name);
        match read_val(store, &child, &Some(value)) {
            Val::File { content, exec } => {
                model.insert(name.as_internal_str().to_owned(), Entry::File { content, exec });
            }
            Val::Symlink(t) => {
                model.insert(name.as_internal_str().to_owned(), Entry::Symlink(t));
            }
            Val::Tree(sub) => {
                if sub.is_empty() {
                    // An empty directory object: keep it visible in the model.
                    model.insert(
                        format!("{}/<empty-tree>", name.as_internal_str()),
                        Entry::Symlink("<empty-tree>".into()),
                    );
                }
                for (p, e) in sub {
                    model.insert(format!("{}/{}", name.as_internal_str(), p), e);
                }
            }
            Val::Absent => {}
            Val::Other(s) => {
                model.insert(name.as_internal_str().to_owned(), Entry::Symlink(format!("<{s}>")));
            }
        }
    }
    model
}

pub fn read_val(store: &Arc<Store>, path: &RepoPath, value: &Option<TreeValue>) -> Val {
    match value {
        None => Val::Absent,
        Some(TreeValue::File { id, executable, .. }) => Val::File {
            content: read_file_bytes(store, path, id),
            exec: *executable,
        },
        Some(TreeValue::Symlink(id)) => Val::Symlink(store.read_symlink(path, id).block_on().unwrap()),
        Some(TreeValue::Tree(id)) => Val::Tree(read_tree_model(store, path, id)),
        Some(TreeValue::GitSubmodule(id)) => Val::Other(format!("submodule {id:?}")),
    }
}

/// Structural value of a (possibly conflicted) tree at `path`.
pub fn merged_val_at(tree: &MergedTree, path: &str) -> Merge<Val> {
    let rpath = rp(path);
    let value = tree.path_value(&rpath).block_on().unwrap();
    value.map(|v| read_val(tree.store(), &rpath, v))
}

/// Reads a resolved merged tree fully into a model. Panics if conflicted.
pub fn read_resolved_tree(tree: &MergedTree) -> TreeModel {
    let id = tree.tree_ids().as_resolved().expect("resolved tree");
    read_tree_model(tree.store(), RepoPath::root(), id)
}

/// All paths (files and directories, excluding root) mentioned by the models.
pub fn all_paths<'a>(models: impl IntoIterator<Item = &'a TreeModel>) -> Vec<String> {
    let mut out = std::collections::BTreeSet::new();
    for m in models {
        for p in m.keys() {
            let comps: Vec<&str> = p.split('/').collect();
            for k in 1..=comps.len() {
                out.insert(comps[..k].join("/"));
            }
        }
    }
    out.into_iter().collect()
}

// ---------------------------------------------------------------------------
// Chaos backend: delegates to an inner backend but makes every async
// operation return Pending a seeded number of times and reports a chosen
// concurrency, which shuffles completion order inside jj's concurrent walkers.

struct YieldTimes(u32);

impl Future for YieldTimes {
    type Output = ();
    fn poll(mut self: Pin<&mut Self>, cx: &mut Context<'_>) -> Poll<()> {
        if self.0 == 0 {
            Poll::Ready(())
        } else {
            self.0 -= 1;
            cx.waker().wake_by_ref();
            Poll::Pending
        }
    }
}

#[derive(Debug)]
pub struct ChaosControl {
    pub seed: AtomicU64,
    pub counter: AtomicU64,
    pub concurrency: AtomicU64,
    pub max_yields: AtomicU64,
}

impl ChaosControl {
    pub fn new() -> Arc<Self> {
        Arc::new(Self {
            seed: AtomicU64::new(0),
            counter: AtomicU64::new(0),
            concurrency: AtomicU64::new(1),
            max_yields: AtomicU64::new(0),
        })
    }
    pub fn set(&self, seed: u64, concurrency: u64, max_yields: u64) {
        self.seed.store(seed, Ordering::SeqCst);
        self.counter.store(0, Ordering::SeqCst);
        self.concurrency.store(concurrency, Ordering::SeqCst);
        self.max_yields.store(max_yields, Ordering::SeqCst);
    }
    fn delay(&self) -> YieldTimes {
        let max = self.max_yields.load(Ordering::Relaxed);
        if max == 0 {
            return YieldTimes(0);
        }
        let n = self.counter.fetch_add(1, Ordering::Relaxed);
        let mut x = self.seed.load(Ordering::Relaxed) ^ n.wrapping_mul(0x9E37_79B9_7F4A_7C15);
        let r = crate::common::splitmix(&mut x);
        YieldTimes((r % (max + 1)) as u32)
    }
}

#[derive(Debug)]
pub struct ChaosBackend {
    inner: Box<dyn Backend>,
    control: Arc<ChaosControl>,
}

impl ChaosBackend {
    pub fn new(inner: Box<dyn Backend>, control: Arc<ChaosControl>) -> Self {
        Self { inner, control }
    }
}

#[async_trait]
impl Backend for ChaosBackend {
    fn name(&self) -> &str {
        self.inner.name()
    }
    fn commit_id_length(&self) -> usize {
        self.inner.commit_id_length()
    }
    fn change_id_length(&self) -> usize {
        self.inner.change_id_length()
    }
    fn root_commit_id(&self) -> &CommitId {
        self.inner.root_commit_id()
    }
    fn root_change_id(&self) -> &ChangeId {
        self.inner.root_change_id()
    }
    fn empty_tree_id(&self) -> &TreeId {
        self.inner.empty_tree_id()
    }
    fn concurrency(&self) -> usize {
        self.control.concurrency.load(Ordering::Relaxed) as usize
    }
    async fn read_file(
        &self,
        path: &RepoPath,
        id: &FileId,
    ) -> BackendResult<Pin<Box<dyn AsyncRead + Send>>> {
        self.control.delay().await;
        self.inner.read_file(path, id).await
    }
    async fn write_file(
        &self,
        path: &RepoPath,
        contents: &mut (dyn AsyncRead + Send + Unpin),
    ) -> BackendResult<FileId> {
        self.control.delay().await;
        self.inner.write_file(path, contents).await
    }
    async fn read_symlink(&self, path: &RepoPath, id: &SymlinkId) -> BackendResult<String> {
        self.control.delay().await;
        self.inner.read_symlink(path, id).await
    }
    async fn write_symlink(&self, path: &RepoPath, target: &str) -> BackendResult<SymlinkId> {
        self.control.delay().await;
        self.inner.write_symlink(path, target).await
    }
    async fn read_copy(&self, id: &CopyId) -> BackendResult<CopyHistory> {
        self.inner.read_copy(id).await
    }
    async fn write_copy(&self, copy: &CopyHistory) -> BackendResult<CopyId> {
        self.inner.write_copy(copy).await
    }
    async fn get_related_copies(&self, copy_id: &CopyId) -> BackendResult<Vec<RelatedCopy>> {
        self.inner.get_related_copies(copy_id).await
    }
    async fn read_tree(&self, path: &RepoPath, id: &TreeId) -> BackendResult<Tree> {
        self.control.delay().await;
        self.inner.read_tree(path, id).await
    }
    async fn write_tree(&self, path: &RepoPath, contents: &Tree) -> BackendResult<TreeId> {
        self.control.delay().await;
        self.inner.write_tree(path, contents).await
    }
    async fn read_commit(&self, id: &CommitId) -> BackendResult<Commit> {
        self.control.delay().await;
        self.inner.read_commit(id).await
    }
    async fn write_commit(
        &self,
        contents: Commit,
        sign_with: Option<&mut SigningFn>,
    ) -> BackendResult<(CommitId, Commit)> {
        self.inner.write_commit(contents, sign_with).await
    }
    fn get_copy_records(
        &self,
        paths: Option<&[RepoPathBuf]>,
        root: &CommitId,
        head: &CommitId,
    ) -> BackendResult<BoxStream<'_, BackendResult<CopyRecord>>> {
        self.inner.get_copy_records(paths, root, head)
    }
    fn gc(&self, index: &dyn jj_lib::index::Index, keep_newer: std::time::SystemTime) -> BackendResult<()> {
        self.inner.gc(index, keep_newer)
    }
}

pub fn entry_json(e: &Entry) -> serde_json::Value {
    match e {
        Entry::File { content, exec } => {
            serde_json::json!(format!("file{}:{}", if *exec { "+x" } else { "" }, r#gen::show(content)))
        }
        Entry::Symlink(t) => serde_json::json!(format!("symlink:{t}")),
    }
}

pub fn tree_json(m: &TreeModel) -> serde_json::Value {
    serde_json::Value::Object(m.iter().map(|(p, e)| (p.clone(), entry_json(e))).collect())
}

pub fn trees_json(ms: &[TreeModel]) -> serde_json::Value {
    serde_json::Value::Array(ms.iter().map(tree_json).collect())
}
