//! C07: tree merges are the path-wise merge of their inputs.

use std::sync::Arc;

use jj_lib::files::FileMergeHunkLevel;
use jj_lib::merge::Merge;
use jj_lib::merge::SameChange;
use jj_lib::merged_tree::MergedTree;
use jj_lib::repo_path::RepoPath;
use jj_lib::signing::Signer;
use jj_lib::store::Store;
use jj_lib::tree_merge::MergeOptions;
use pollster::FutureExt as _;
use serde_json::json;
use testutils::test_backend::TestBackendData;
use testutils::test_backend::TestBackend;

use crate::common::*;
use crate::ensure;
use crate::model::*;
use crate::p_files::reference_merge_hunks;
use crate::p_merge::den_terms;
use crate::p_merge::reference_resolve;
use crate::r#gen;

pub struct ChaosStore {
    pub store: Arc<Store>,
    pub control: Arc<ChaosControl>,
    pub options: MergeOptions,
}

pub fn new_chaos_store(options: MergeOptions) -> ChaosStore {
    let control = ChaosControl::new();
    let inner = TestBackend::with_data(Arc::new(std::sync::Mutex::new(TestBackendData::default())));
    let backend = ChaosBackend::new(Box::new(inner), control.clone());
    let settings = testutils::user_settings();
    let store = Store::new(
        Box::new(backend),
        Signer::from_settings(&settings).unwrap(),
        options.clone(),
    );
    ChaosStore { store, control, options }
}

#[derive(Debug)]
pub enum RefAt {
    /// Every term has a directory (or nothing) here: compared at the children.
    Directory,
    /// Non-directory terms cancel pairwise and only directories remain: jj
    /// merges recursively when the cancellation happens at an enclosing level
    /// and records a file/directory conflict otherwise. Both are path-wise
    /// merges of the leaf paths, so the monitor does not pick one.
    Ambiguous,
    Resolved(Val),
    Conflict(Vec<Val>),
}

/// Reference value of the merge of `vals` (alternating +,-) at one path.
pub fn reference_at(vals: &[Val], options: &MergeOptions) -> RefAt {
    let has_tree = vals.iter().any(|v| matches!(v, Val::Tree(_)));
    if has_tree && vals.iter().all(|v| matches!(v, Val::Tree(_) | Val::Absent)) {
        return RefAt::Directory;
    }
    if let Some(v) = reference_resolve(vals, options.same_change) {
        return RefAt::Resolved(v);
    }
    // Content merge applies when, after cancelling equal (side, base) pairs,
    // every remaining term is a file.
    let simplified = Merge::from_vec(vals.to_vec()).simplify();
    if simplified.iter().any(|v| matches!(v, Val::Tree(_)))
        && simplified.iter().all(|v| matches!(v, Val::Tree(_) | Val::Absent))
    {
        return RefAt::Ambiguous;
    }
    if simplified.iter().all(|v| v.is_file()) {
        let execs: Vec<bool> = simplified
            .iter()
            .map(|v| matches!(v, Val::File { exec: true, .. }))
            .collect();
        let contents: Vec<Vec<u8>> = simplified
            .iter()
            .map(|v| match v {
                Val::File { content, .. } => content.clone(),
                _ => unreachable!(),
            })
            .collect();
        if let Some(exec) = reference_resolve(&execs, SameChange::Accept) {
            if let Some(content) = reference_resolve(&contents, options.same_change) {
                return RefAt::Resolved(Val::File { content, exec });
            }
            let content_merge = Merge::from_vec(contents).simplify();
            let hunks = reference_merge_hunks(&content_merge, options.hunk_level, options.same_change);
            if hunks.iter().all(|h| h.is_resolved()) {
                let content: Vec<u8> = hunks.iter().flat_map(|h| h.first().clone()).collect();
                return RefAt::Resolved(Val::File { content, exec });
            }
        }
    }
    RefAt::Conflict(vals.to_vec())
}

fn clean_ancestry(models: &[TreeModel], path: &str) -> bool {
    let comps: Vec<&str> = path.split('/').collect();
    for k in 1..comps.len() {
        let anc = comps[..k].join("/");
        for m in models {
            if m.contains_key(&anc) {
                return false; // a file/symlink sits where a directory is needed
            }
        }
    }
    true
}

pub struct MergeStats {
    pub paths_compared: u64,
    pub conflicts: u64,
    pub content_merges: u64,
    pub clashes: u64,
    pub ambiguous: u64,
}

/// Checks `result` against the reference merge of `models` (alternating +,-).
pub fn check_merge_result(
    models: &[TreeModel],
    result: &MergedTree,
    options: &MergeOptions,
) -> Result<MergeStats, Fail> {
    let mut stats = MergeStats { paths_compared: 0, conflicts: 0, content_merges: 0, clashes: 0, ambiguous: 0 };
    let mut any_conflict = false;
    // MergedTree::merge first cancels equal (side, base) trees, which fixes the
    // ORDER of the remaining terms; a content merge of more than three terms
    // can depend on that order (the diff is anchored at the first base), so
    // the reference merges the terms in the same order (Merge::simplify is
    // monitored by C01; equal models are equal trees).
    let simplified_models: Vec<TreeModel> =
        Merge::from_vec(models.to_vec()).simplify().into_iter().collect();
    let models = &simplified_models[..];
    for path in all_paths(models) {
        if !clean_ancestry(models, &path) {
            stats.clashes += 1;
            continue;
        }
        let vals: Vec<Val> = models.iter().map(|m| val_at(m, &path)).collect();
        let expected = match reference_at(&vals, options) {
            RefAt::Directory => continue,
            RefAt::Ambiguous => {
                stats.ambiguous += 1;
                continue;
            }
            RefAt::Resolved(v) => {
                if reference_resolve(&vals, options.same_change).is_none() {
                    stats.content_merges += 1;
                }
                vec![v]
            }
            RefAt::Conflict(vals) => {
                any_conflict = true;
                stats.conflicts += 1;
                vals
            }
        };
        let actual = merged_val_at(result, &path);
        stats.paths_compared += 1;
        ensure!(
            den_terms(actual.as_slice()) == den_terms(&expected),
            "pathwise.value",
            "at {:?}: input terms {:?}\nexpected {:?}\nactual   {:?}",
            path,
            vals.iter().map(|v| v.short()).collect::<Vec<_>>(),
            expected.iter().map(|v| v.short()).collect::<Vec<_>>(),
            actual.iter().map(|v| v.short()).collect::<Vec<_>>()
        );
    }
    // Paths that were skipped (below a file/directory clash, or ambiguous)
    // may hold conflicts the reference does not model: then only the
    // direction "a conflicting path => has_conflict()" is decidable.
    if stats.clashes == 0 && stats.ambiguous == 0 {
        ensure!(
            result.has_conflict() == any_conflict,
            "conflict_free_iff_no_path_conflicts",
            "has_conflict() = {} but the reference {} a conflicting path",
            result.has_conflict(),
            if any_conflict { "has" } else { "has no" }
        );
    } else {
        ensure!(
            result.has_conflict() || !any_conflict,
            "conflict_free_only_if_no_path_conflicts",
            "has_conflict() = false but the reference has a conflicting path"
        );
    }
    Ok(stats)
}

fn merge_trees(trees: &[MergedTree]) -> MergedTree {
    let labelled: Vec<(MergedTree, String)> = trees
        .iter()
        .enumerate()
        .map(|(i, t)| (t.clone(), format!("term {i}")))
        .collect();
    MergedTree::merge(Merge::from_vec(labelled)).block_on().unwrap()
}

thread_local! {
    static STORES: std::cell::RefCell<Vec<ChaosStore>> = const { std::cell::RefCell::new(vec![]) };
}

fn with_store<R>(options: &MergeOptions, f: impl FnOnce(&ChaosStore) -> R) -> R {
    STORES.with(|stores| {
        let mut stores = stores.borrow_mut();
        let pos = stores.iter().position(|s| {
            s.options.hunk_level == options.hunk_level && s.options.same_change == options.same_change
        });
        let pos = pos.unwrap_or_else(|| {
            stores.push(new_chaos_store(options.clone()));
            stores.len() - 1
        });
        f(&stores[pos])
    })
}

pub fn run_c07(ctx: &Ctx) -> i32 {
    ctx.set_rule(
        "3/5/7-way merges of generated trees (9-path universe with files, executables, symlinks, \
         nested directories, file<->directory replacements; sides are 0..3 edits of a common base, \
         planted equal terms and cancelling pairs), optionally with an already-conflicted result as \
         an input, on a store whose backend delays every read/write a seeded number of polls and \
         reports concurrency 1/2/8; each merge repeated under 3 completion orders; both hunk levels \
         and same-change settings. Non-trivial: at least one path needed a content merge or stayed \
         conflicted. Distinct: by (term models, options).",
    );
    let n = ctx.tier().pick(40_000, 2_000_000);
    par_cases(ctx, n, threads(), |i, cs, rng| {
        let options = MergeOptions {
            hunk_level: *rng.pick(&[FileMergeHunkLevel::Line, FileMergeHunkLevel::Word]),
            same_change: *rng.pick(&[SameChange::Accept, SameChange::Accept, SameChange::Keep]),
        };
        let pool = r#gen::line_pool(rng, rng.clone().range(3, 6), false);
        let base = gen_tree(rng, &pool, 5);
        let n_terms = *rng.pick(&[3usize, 3, 5, 7]);
        let mut models: Vec<TreeModel> = (0..n_terms).map(|_| mutate_tree(rng, &base, &pool, 3)).collect();
        // Planted structure.
        match rng.below(6) {
            0 => {
                // one side equals the base: the other side's tree must come back
                models[1] = models[0].clone();
            }
            1 if n_terms >= 5 => {
                models[3] = models[2].clone();
                models[1] = models[4].clone();
            }
            2 => {
                let a = rng.below(n_terms);
                let b = rng.below(n_terms);
                models[a] = models[b].clone();
            }
            _ => {}
        }
        // Planted: at one path three file versions that merge cleanly by
        // content only, plus the same directory once as a side and once as a
        // base (it cancels only after simplification), in trees that differ
        // elsewhere so that they do not cancel at the root.
        if n_terms >= 5 && rng.chance(1, 5) {
            let (file_path, dir_child) = *rng.pick(&[("d", "d/e"), ("a", "a/b"), ("k", "k/l"), ("a", "a/b/c")]);
            let lines: Vec<Vec<u8>> = (0..6).map(|i| format!("u{i}").into_bytes()).collect();
            let version = |rng: &mut Rng, changed: Option<usize>| -> Entry {
                let mut l = lines.clone();
                if let Some(i) = changed {
                    l[i] = format!("changed{i}").into_bytes();
                }
                Entry::File { content: r#gen::join_lines(rng, &l, r#gen::Eol::Lf, true), exec: false }
            };
            let exec_dir = rng.bool();
            let dir_entry = Entry::File { content: b"inside\n".to_vec(), exec: exec_dir };
            // positions: adds are even, removes odd
            let mut slots = [0usize, 1, 2, 3, 4];
            if rng.bool() {
                slots = [4, 1, 2, 3, 0];
            }
            if rng.bool() {
                slots.swap(1, 3);
            }
            let f1 = version(rng, Some(0));
            let fb = version(rng, None);
            let f2 = version(rng, Some(5));
            tree_insert(&mut models[slots[0]], file_path, f1);
            tree_insert(&mut models[slots[1]], dir_child, dir_entry.clone());
            tree_insert(&mut models[slots[2]], dir_child, dir_entry);
            tree_insert(&mut models[slots[3]], file_path, fb);
            tree_insert(&mut models[slots[4]], file_path, f2);
            // keep the two directory terms from cancelling at the root
            if models[slots[1]] == models[slots[2]] {
                tree_insert(&mut models[slots[2]], "f", Entry::File { content: b"only here\n".to_vec(), exec: false });
            }
            ctx.count("planted_cancelling_directory_between_mergeable_files");
        }
        let second_level = rng.chance(1, 3);
        let extra: Vec<TreeModel> = (0..2).map(|_| mutate_tree(rng, &base, &pool, 3)).collect();
        let seeds: Vec<u64> = (0..3).map(|_| rng.next_u64()).collect();
        let describe = || {
            json!({"options": format!("{options:?}"), "terms": trees_json(&models),
                   "second_level": second_level, "extra_terms": trees_json(&extra)})
        };
        let mut nontrivial = false;
        run_case(ctx, i, cs, describe, || {
            with_store(&options, |cs| {
                let trees: Vec<MergedTree> = models.iter().map(|m| write_tree(&cs.store, m)).collect();
                let mut first: Option<MergedTree> = None;
                for (k, seed) in seeds.iter().enumerate() {
                    cs.control.set(*seed, [1, 2, 8][k], [0, 3, 6][k]);
                    let result = merge_trees(&trees);
                    if let Some(first) = &first {
                        ensure!(
                            first.tree_ids() == result.tree_ids(),
                            "deterministic.across_completion_orders",
                            "completion order {} gives {:?}, first gave {:?}",
                            k,
                            result.tree_ids(),
                            first.tree_ids()
                        );
                    } else {
                        first = Some(result);
                    }
                }
                cs.control.set(0, 1, 0);
                let result = first.unwrap();
                let stats = check_merge_result(&models, &result, &options)?;
                ctx.count_n("paths_compared", stats.paths_compared);
                ctx.count_n("paths_conflicted", stats.conflicts);
                ctx.count_n("paths_content_merged", stats.content_merges);
                ctx.count_n("paths_below_file_dir_clash_skipped", stats.clashes);
                ctx.count_n("paths_ambiguous_skipped", stats.ambiguous);
                nontrivial = stats.conflicts + stats.content_merges > 0;
                // Identity: if all but one term cancel pairwise, the survivor's tree id comes back.
                let ids: Vec<_> = trees.iter().map(|t| t.tree_ids().as_resolved().unwrap().clone()).collect();
                if let Some(survivor) = reference_resolve(&ids, SameChange::Keep) {
                    ensure!(
                        result.tree_ids().as_resolved() == Some(&survivor),
                        "identity.survivor_tree_returned",
                        "terms cancel to tree {:?} but the merge returned {:?}",
                        survivor,
                        result.tree_ids()
                    );
                    ctx.count("identity_law_applied");
                }
                if second_level && result.has_conflict() {
                    // Feed the conflicted result into another 3-way merge.
                    let inner_models: Vec<TreeModel> = result
                        .tree_ids()
                        .iter()
                        .map(|id| read_tree_model(&cs.store, RepoPath::root(), id))
                        .collect();
                    let e0 = write_tree(&cs.store, &extra[0]);
                    let e1 = write_tree(&cs.store, &extra[1]);
                    let pos = rng.clone().below(3);
                    let mut inputs = vec![e0, e1];
                    inputs.insert(pos, result.clone());
                    cs.control.set(seeds[0], 2, 4);
                    let result2 = merge_trees(&inputs);
                    cs.control.set(0, 1, 0);
                    // Model terms: flatten with jj's own flatten on indices (trusted via C01).
                    let mut all_models: Vec<TreeModel> = vec![];
                    let mut nested: Vec<Merge<usize>> = vec![];
                    let mut extra_iter = extra.iter();
                    for k in 0..3 {
                        if k == pos {
                            let start = all_models.len();
                            all_models.extend(inner_models.iter().cloned());
                            nested.push(Merge::from_vec((start..all_models.len()).collect::<Vec<_>>()));
                        } else {
                            all_models.push(extra_iter.next().unwrap().clone());
                            nested.push(Merge::resolved(all_models.len() - 1));
                        }
                    }
                    let flat = Merge::from_vec(nested).flatten();
                    let flat_models: Vec<TreeModel> = flat.iter().map(|i| all_models[*i].clone()).collect();
                    let stats2 = check_merge_result(&flat_models, &result2, &options)?;
                    ctx.count("second_level_merges");
                    ctx.count_n("paths_compared", stats2.paths_compared);
                    ctx.count_n("paths_conflicted", stats2.conflicts);
                }
                Ok(())
            })
        });
        ctx.case(stable_hash(&(&models, format!("{options:?}"))), nontrivial);
        ctx.count(&format!("terms_{n_terms}"));
        if nontrivial {
            ctx.sample(|| json!({"options": format!("{options:?}"), "terms": trees_json(&models)}));
        }
    });
    ctx.finish(300)
}
