//! C04 (file content merge laws) and C05 (materialize / parse round trip).

use bstr::BString;
use bstr::ByteSlice as _;
use jj_core::diff::ContentDiff;
use jj_core::diff::DiffHunkKind;
use jj_lib::conflict_labels::ConflictLabels;
use jj_lib::conflicts::ConflictMarkerStyle;
use jj_lib::conflicts::ConflictMaterializeOptions;
use jj_lib::conflicts::MIN_CONFLICT_MARKER_LEN;
use jj_lib::conflicts::choose_materialized_conflict_marker_len;
use jj_lib::conflicts::materialize_merge_result;
use jj_lib::conflicts::materialize_merge_result_to_bytes;
use jj_lib::conflicts::parse_conflict;
use jj_lib::files;
use jj_lib::files::FileMergeHunkLevel;
use jj_lib::files::MergeResult;
use jj_lib::merge::Merge;
use jj_lib::merge::SameChange;
use jj_lib::tree_merge::MergeOptions;
use serde_json::json;

use crate::common::*;
use crate::ensure;
use crate::r#gen::*;
use crate::p_merge::reference_resolve;

/// Reference hunk list: by-line diff of removes++adds, counting rule per
/// different hunk, word-level re-diff when requested; adjacent resolved
/// pieces concatenated.
pub fn reference_merge_hunks(
    inputs: &Merge<Vec<u8>>,
    level: FileMergeHunkLevel,
    sc: SameChange,
) -> Vec<Merge<Vec<u8>>> {
    let num_diffs = inputs.removes().len();
    let ordered: Vec<&Vec<u8>> = inputs.removes().chain(inputs.adds()).collect();
    let diff = ContentDiff::by_line(ordered.iter().map(|v| v.as_slice()));
    let mut out: Vec<Merge<Vec<u8>>> = vec![];
    let push_resolved = |out: &mut Vec<Merge<Vec<u8>>>, bytes: &[u8]| {
        if let Some(last) = out.last_mut()
            && last.is_resolved()
        {
            let mut v = last.first().clone();
            v.extend_from_slice(bytes);
            *last = Merge::resolved(v);
        } else if !bytes.is_empty() {
            out.push(Merge::resolved(bytes.to_vec()));
        }
    };
    for hunk in diff.hunks() {
        match hunk.kind {
            DiffHunkKind::Matching => push_resolved(&mut out, hunk.contents[0]),
            DiffHunkKind::Different => {
                let removes: Vec<Vec<u8>> =
                    hunk.contents[..num_diffs].iter().map(|c| c.to_vec()).collect();
                let adds: Vec<Vec<u8>> =
                    hunk.contents[num_diffs..].iter().map(|c| c.to_vec()).collect();
                let m = Merge::from_removes_adds(removes, adds);
                if let Some(v) = reference_resolve(m.as_slice(), sc) {
                    push_resolved(&mut out, &v);
                    continue;
                }
                if level == FileMergeHunkLevel::Word {
                    // Accept the word-level merge only if every word hunk resolves.
                    let word_ordered: Vec<&Vec<u8>> = m.removes().chain(m.adds()).collect();
                    let wdiff = ContentDiff::by_word(word_ordered.iter().map(|v| v.as_slice()));
                    let mut content = vec![];
                    let mut all = true;
                    for wh in wdiff.hunks() {
                        match wh.kind {
                            DiffHunkKind::Matching => content.extend_from_slice(wh.contents[0]),
                            DiffHunkKind::Different => {
                                let wm = Merge::from_removes_adds(
                                    wh.contents[..num_diffs].iter().map(|c| c.to_vec()),
                                    wh.contents[num_diffs..].iter().map(|c| c.to_vec()),
                                );
                                match reference_resolve(wm.as_slice(), sc) {
                                    Some(v) => content.extend_from_slice(&v),
                                    None => {
                                        all = false;
                                        break;
                                    }
                                }
                            }
                        }
                    }
                    if all {
                        push_resolved(&mut out, &content);
                        continue;
                    }
                }
                out.push(m);
            }
        }
    }
    out
}

fn to_bstring_hunks(h: &[Merge<Vec<u8>>]) -> Vec<Merge<BString>> {
    h.iter().map(|m| m.map(|v| BString::from(v.clone()))).collect()
}

fn show_merge(m: &Merge<Vec<u8>>) -> Vec<String> {
    m.iter().map(|v| show(v)).collect()
}

pub fn check_file_merge(inputs: &Merge<Vec<u8>>, options: &MergeOptions) -> Result<&'static str, Fail> {
    let sc = options.same_change;
    let hunks = files::merge_hunks(inputs, options);
    let merged = files::merge(inputs, options);
    let tried = files::try_merge(inputs, options);
    // (a) whole-file identity law
    if let Some(x) = reference_resolve(inputs.as_slice(), sc) {
        ensure!(
            hunks == MergeResult::Resolved(BString::from(x.clone())),
            "identity.merge_hunks",
            "terms cancel to {} but merge_hunks = {:?}",
            show(&x),
            hunks
        );
        ensure!(
            merged == Merge::resolved(BString::from(x.clone())),
            "identity.merge",
            "terms cancel to {} but merge = {:?}",
            show(&x),
            merged
        );
        ensure!(
            tried == Some(BString::from(x.clone())),
            "identity.try_merge",
            "terms cancel to {} but try_merge = {:?}",
            show(&x),
            tried
        );
    }
    // (b) shape: resolved or same number of sides; three entry points agree
    ensure!(
        merged.is_resolved() || merged.num_sides() == inputs.num_sides(),
        "shape.same_number_of_sides",
        "input has {} sides, merge() has {}",
        inputs.num_sides(),
        merged.num_sides()
    );
    let hunks_resolved = matches!(hunks, MergeResult::Resolved(_));
    ensure!(
        hunks_resolved == merged.is_resolved() && hunks_resolved == tried.is_some(),
        "shape.entry_points_agree_on_resolution",
        "merge_hunks resolved={} merge resolved={} try_merge some={}",
        hunks_resolved,
        merged.is_resolved(),
        tried.is_some()
    );
    // (c) hunk-level reference
    let reference = reference_merge_hunks(inputs, options.hunk_level, sc);
    let ref_resolved = reference.iter().all(|h| h.is_resolved());
    match &hunks {
        MergeResult::Resolved(content) => {
            ensure!(
                ref_resolved,
                "hunks.resolved_only_by_cancellation",
                "merge_hunks resolved to {:?} but the reference leaves a conflict: {:?}",
                content,
                reference.iter().map(show_merge).collect::<Vec<_>>()
            );
            let expect: Vec<u8> = reference.iter().flat_map(|h| h.first().clone()).collect();
            ensure!(
                content.as_slice() == expect.as_slice(),
                "hunks.resolved_content",
                "resolved content {:?} != reference {}",
                content,
                show(&expect)
            );
            ensure!(
                tried.as_ref() == Some(content) && merged.as_resolved() == Some(content),
                "shape.entry_points_agree_on_content",
                "merge_hunks {:?}, try_merge {:?}, merge {:?}",
                content,
                tried,
                merged
            );
            Ok("resolved")
        }
        MergeResult::Conflict(list) => {
            ensure!(
                !ref_resolved,
                "hunks.conflict_only_when_uncancellable",
                "merge_hunks reports a conflict {:?} but the reference resolves every hunk",
                list
            );
            ensure!(
                *list == to_bstring_hunks(&reference),
                "hunks.equal_reference",
                "merge_hunks = {:?}\nreference  = {:?}",
                list,
                to_bstring_hunks(&reference)
            );
            for h in list {
                ensure!(
                    h.is_resolved() || h.num_sides() == inputs.num_sides(),
                    "hunks.conflict_arity",
                    "conflict hunk {:?} has {} sides, input {}",
                    h,
                    h.num_sides(),
                    inputs.num_sides()
                );
            }
            // merge() == hunks with resolved pieces replicated into every term
            let n = inputs.as_slice().len();
            let mut expect = vec![Vec::<u8>::new(); n];
            for h in list {
                for (i, buf) in expect.iter_mut().enumerate() {
                    let piece = if h.is_resolved() { h.first() } else { &h.as_slice()[i] };
                    buf.extend_from_slice(piece);
                }
            }
            let expect = Merge::from_vec(expect.into_iter().map(BString::from).collect::<Vec<_>>());
            ensure!(
                merged == expect,
                "merge.equals_replicated_hunks",
                "merge() = {:?}\nexpected  {:?}",
                merged,
                expect
            );
            Ok("conflict")
        }
    }
}

/// Generates a file merge with 2..=4 sides whose terms are line edits of a
/// common base, with planted identical terms.
pub fn gen_file_merge(rng: &mut Rng, pool: &[Vec<u8>], max_sides: usize, eol: Eol) -> Merge<Vec<u8>> {
    let sides = rng.range(2, max_sides);
    let n = sides * 2 - 1;
    let base = gen_lines(rng, pool, 8);
    let base_final_nl = !rng.chance(1, 6);
    let mut terms: Vec<Vec<u8>> = vec![];
    for _ in 0..n {
        let t = match rng.below(12) {
            0 => vec![],
            1 => gen_binary(rng, 24),
            2 => join_lines(rng, &base, eol, base_final_nl),
            _ => {
                let lines = edit_lines(rng, &base, pool, 3);
                let fin = if rng.chance(1, 6) { !base_final_nl } else { base_final_nl };
                join_lines(rng, &lines, eol, fin)
            }
        };
        terms.push(t);
    }
    // Plant equal terms (same polarity and across polarity).
    for _ in 0..rng.below(3) {
        let a = rng.below(n);
        let b = rng.below(n);
        terms[a] = terms[b].clone();
    }
    Merge::from_vec(terms)
}

pub fn run_c04(ctx: &Ctx) -> i32 {
    ctx.set_rule(
        "3/5/7-term file merges whose terms are 0..3 line edits of a common base drawn from a \
         small line pool (plus empty, binary and planted identical terms), LF/CRLF/mixed, both hunk \
         levels x both same-change settings. Non-trivial: the terms are not all equal and the by-line \
         diff has at least one differing hunk. Distinct: by (terms, options).",
    );
    let n = ctx.tier().pick(400_000, 6_000_000);
    par_cases(ctx, n, threads(), |i, cs, rng| {
        let pool = line_pool(rng, rng.clone().range(3, 8), false);
        let eol = *rng.pick(&[Eol::Lf, Eol::Lf, Eol::Lf, Eol::Crlf, Eol::Mixed]);
        let inputs = gen_file_merge(rng, &pool, 4, eol);
        let options = MergeOptions {
            hunk_level: *rng.pick(&[FileMergeHunkLevel::Line, FileMergeHunkLevel::Word]),
            same_change: *rng.pick(&[SameChange::Keep, SameChange::Accept]),
        };
        let describe = || {
            json!({"terms": show_merge(&inputs), "hunk_level": format!("{:?}", options.hunk_level),
                   "same_change": format!("{:?}", options.same_change)})
        };
        let mut outcome = "";
        run_case(ctx, i, cs, describe, || {
            outcome = check_file_merge(&inputs, &options)?;
            Ok(())
        });
        let all_equal = inputs.iter().all(|t| t == inputs.first());
        let nontrivial = !all_equal;
        ctx.case(
            stable_hash(&(inputs.as_slice(), format!("{options:?}"))),
            nontrivial,
        );
        if !outcome.is_empty() {
            ctx.count(&format!("outcome_{outcome}"));
            let whole = reference_resolve(inputs.as_slice(), options.same_change).is_some();
            if whole {
                ctx.count("whole_file_law_applied");
            } else if outcome == "resolved" {
                ctx.count("resolved_by_hunk_merging");
            }
        }
        ctx.count(&format!("sides_{}", inputs.num_sides()));
        if outcome == "conflict" {
            ctx.sample(describe);
        }
    });
    ctx.finish(1000)
}

// ---------------------------------------------------------------------------
// C05

const STYLES: [ConflictMarkerStyle; 4] = [
    ConflictMarkerStyle::Diff,
    ConflictMarkerStyle::DiffExperimental,
    ConflictMarkerStyle::Snapshot,
    ConflictMarkerStyle::Git,
];

fn gen_labels(rng: &mut Rng, n_terms: usize) -> ConflictLabels {
    if rng.chance(1, 3) {
        return ConflictLabels::unlabeled();
    }
    let words = [
        "rebase destination",
        "abc123 \"commit summary\"",
        "side #1",
        "x",
        "parents of rebased revision (no description set)",
        "<<<<<<<",
        "ünï 日本",
        "",
    ];
    let labels: Vec<String> = (0..n_terms).map(|_| (*rng.pick(&words)).to_owned()).collect();
    ConflictLabels::from_vec(labels)
}

pub fn check_roundtrip(
    m: &Merge<Vec<u8>>,
    labels: &ConflictLabels,
    style: ConflictMarkerStyle,
    merge_options: &MergeOptions,
    forced_len: Option<usize>,
) -> Result<&'static str, Fail> {
    let chosen = choose_materialized_conflict_marker_len(m);
    ensure!(
        chosen >= MIN_CONFLICT_MARKER_LEN,
        "marker_len.minimum",
        "chosen marker length {} below minimum",
        chosen
    );
    let len = forced_len.map_or(chosen, |extra| chosen + extra);
    let options = ConflictMaterializeOptions {
        marker_style: style,
        marker_len: Some(len),
        merge: merge_options.clone(),
    };
    let bytes = materialize_merge_result_to_bytes(m, labels, &options);
    let mut written = vec![];
    materialize_merge_result(m, labels, &mut written, &options).map_err(|e| Fail {
        clause: "materialize.writer".into(),
        message: e.to_string(),
    })?;
    ensure!(
        written == bytes.as_slice(),
        "materialize.writer_equals_bytes",
        "writer form {:?} differs from bytes form {:?}",
        written.as_bstr(),
        bytes
    );
    if forced_len.is_none() {
        let default_options = ConflictMaterializeOptions {
            marker_len: None,
            ..options.clone()
        };
        let default_bytes = materialize_merge_result_to_bytes(m, labels, &default_options);
        ensure!(
            default_bytes == bytes,
            "materialize.default_len_is_chosen_len",
            "marker_len None gives {:?}, Some(chosen={}) gives {:?}",
            default_bytes,
            chosen,
            bytes
        );
    }
    match files::merge_hunks(m, merge_options) {
        MergeResult::Resolved(x) => {
            ensure!(
                bytes == x,
                "materialize.resolved_is_content",
                "merge resolves to {:?} but materialized {:?}",
                x,
                bytes
            );
            Ok("resolved")
        }
        MergeResult::Conflict(hunks) => {
            let parsed = parse_conflict(&bytes, m.num_sides(), len);
            ensure!(
                parsed.as_ref() == Some(&hunks),
                "roundtrip.parse_equals_hunks",
                "style {:?} len {}: materialized\n{}\nparsed {:?}\nhunks  {:?}",
                style,
                len,
                show(&bytes),
                parsed,
                hunks
            );
            Ok("conflict")
        }
    }
}

pub fn run_c05(ctx: &Ctx) -> i32 {
    ctx.set_rule(
        "2..4-sided file conflicts whose terms are line edits of a common base drawn from a line \
         pool that includes conflict-marker look-alikes (lengths 1..20), lines starting with \
         + - space backslash, stray CR, empty sides, missing final newline on some/all sides, \
         LF/CRLF/mixed files; every marker style; labels absent/present; marker length chosen as \
         checkout does or forced larger; both hunk levels and same-change settings. Non-trivial: the \
         merge is an actual conflict (materialization emits markers). Distinct: by (terms, style, \
         labels, length, options).",
    );
    let n = ctx.tier().pick(400_000, 6_000_000);
    par_cases(ctx, n, threads(), |i, cs, rng| {
        let pool = line_pool(rng, rng.clone().range(3, 8), true);
        let eol = *rng.pick(&[Eol::Lf, Eol::Lf, Eol::Crlf, Eol::Crlf, Eol::Mixed]);
        let m = gen_file_merge(rng, &pool, 4, eol);
        let style = *rng.pick(&STYLES);
        let labels = gen_labels(rng, m.as_slice().len());
        let merge_options = MergeOptions {
            hunk_level: *rng.pick(&[FileMergeHunkLevel::Line, FileMergeHunkLevel::Word]),
            same_change: *rng.pick(&[SameChange::Keep, SameChange::Accept]),
        };
        let forced = if rng.chance(1, 4) { Some(rng.range(1, 9)) } else { None };
        let describe = || {
            json!({"terms": show_merge(&m), "style": format!("{style:?}"),
                   "labels": labels.as_slice(), "forced_extra_len": forced,
                   "options": format!("{merge_options:?}")})
        };
        let mut outcome = "";
        run_case(ctx, i, cs, describe, || {
            outcome = check_roundtrip(&m, &labels, style, &merge_options, forced)?;
            Ok(())
        });
        ctx.case(
            stable_hash(&(m.as_slice(), format!("{style:?}{forced:?}{merge_options:?}"), labels.as_slice())),
            outcome == "conflict",
        );
        if !outcome.is_empty() {
            ctx.count(&format!("outcome_{outcome}"));
            if outcome == "conflict" {
                ctx.count(&format!("style_{style:?}"));
                ctx.count(&format!("sides_{}", m.num_sides()));
                if m.iter().any(|t| t.last().is_some_and(|b| *b != b'\n')) {
                    ctx.count("conflict_with_side_missing_final_newline");
                }
                if m.iter().any(|t| t.contains_str("\r\n")) {
                    ctx.count("conflict_with_crlf");
                }
                if choose_materialized_conflict_marker_len(&m) > MIN_CONFLICT_MARKER_LEN {
                    ctx.count("conflict_with_marker_lookalike_forcing_longer_markers");
                }
                ctx.sample(describe);
            }
        }
    });
    ctx.finish(1000)
}
