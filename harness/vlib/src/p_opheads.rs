//! C14: the operation-head store never loses a published operation.
//!
//! Actors (threads with their own `RepoLoader` on one repository directory)
//! publish operations, reconcile divergent heads and read the heads while a
//! controller decides, at the hook points around every op-head read / add /
//! remove / lock step, who runs next (systematic DFS, random walks, kills).
//! After every step a monitor lists the real `heads/` directory.

use std::collections::BTreeMap;
use std::collections::BTreeSet;
use std::collections::HashMap;
use std::collections::HashSet;
use std::path::Path;
use std::path::PathBuf;
use std::sync::Arc;
use std::sync::Condvar;
use std::sync::Mutex;
use std::time::Duration;
use std::time::Instant;

use jj_lib::object_id::ObjectId as _;
use jj_lib::op_store::OperationId;
use jj_lib::repo::Repo as _;
use jj_lib::repo::RepoLoader;
use jj_lib::verif_hooks;
use pollster::FutureExt as _;
use serde_json::Value;
use serde_json::json;
use testutils::TestRepo;
use testutils::TestRepoBackend;

use crate::common::*;

#[derive(Clone, Copy, Debug, PartialEq, Eq, Hash)]
pub enum ActorKind {
    /// load at head (may reconcile), transaction, write, publish
    PublishAtHead,
    /// load at a stale (ancestor) operation, transaction, write, publish
    PublishStale,
    /// load_at_head only
    Reconcile,
    /// get_op_heads only
    Read,
}

#[derive(Clone, Copy, Debug, PartialEq, Eq, Hash)]
pub enum InitState {
    Single,
    TwoDivergent,
    ThreeDivergent,
    /// a head together with one of its ancestors (what a killed publisher leaves)
    HeadWithAncestor,
}

#[derive(Clone, Debug, PartialEq, Eq, Hash)]
pub struct Config {
    pub init: InitState,
    pub actors: Vec<ActorKind>,
    pub no_lock: bool,
}

impl Config {
    fn to_json(&self) -> Value {
        json!({"init": format!("{:?}", self.init),
               "actors": self.actors.iter().map(|a| format!("{a:?}")).collect::<Vec<_>>(),
               "no_lock": self.no_lock})
    }
    fn from_json(v: &Value) -> Option<Self> {
        let init = match v["init"].as_str()? {
            "Single" => InitState::Single,
            "TwoDivergent" => InitState::TwoDivergent,
            "ThreeDivergent" => InitState::ThreeDivergent,
            "HeadWithAncestor" => InitState::HeadWithAncestor,
            _ => return None,
        };
        let actors = v["actors"]
            .as_array()?
            .iter()
            .map(|a| match a.as_str()? {
                "PublishAtHead" => Some(ActorKind::PublishAtHead),
                "PublishStale" => Some(ActorKind::PublishStale),
                "Reconcile" => Some(ActorKind::Reconcile),
                "Read" => Some(ActorKind::Read),
                _ => None,
            })
            .collect::<Option<Vec<_>>>()?;
        Some(Self { init, actors, no_lock: v["no_lock"].as_bool()? })
    }
}

// ---------------------------------------------------------------------------
// Controller

#[derive(Clone, Debug, PartialEq, Eq)]
enum ActorState {
    Running,
    Parked { label: String, detail: String },
    Finished { outcome: String },
}

#[derive(Clone, Copy, Debug, PartialEq, Eq)]
enum Grant {
    Continue,
    Kill,
}

#[derive(Default)]
struct CtlState {
    actors: Vec<ActorState>,
    grants: Vec<Option<Grant>>,
    trace: Vec<(usize, String, String)>,
    /// lock path -> holder
    locks: HashMap<String, usize>,
}

struct Shared {
    state: Mutex<CtlState>,
    cv: Condvar,
}

thread_local! {
    static ACTOR: std::cell::RefCell<Option<(usize, Arc<Shared>)>> = const { std::cell::RefCell::new(None) };
}

fn is_sched_point(label: &str) -> bool {
    matches!(
        label,
        "actor.start" | "opheads.read.before" | "opheads.add.before" | "opheads.remove.before" | "lock.before"
    )
}

fn hook_handler(label: &str, detail: &str) {
    let Some((id, shared)) = ACTOR.with(|a| a.borrow().clone()) else {
        return;
    };
    let mut st = shared.state.lock().unwrap();
    st.trace.push((id, label.to_owned(), detail.to_owned()));
    match label {
        "lock.acquired" => {
            st.locks.insert(detail.to_owned(), id);
        }
        "lock.released" => {
            if st.locks.get(detail) == Some(&id) {
                st.locks.remove(detail);
            }
        }
        _ => {}
    }
    if !is_sched_point(label) {
        return;
    }
    st.actors[id] = ActorState::Parked { label: label.to_owned(), detail: detail.to_owned() };
    shared.cv.notify_all();
    let grant = loop {
        if let Some(g) = st.grants[id].take() {
            break g;
        }
        st = shared.cv.wait(st).unwrap();
    };
    st.actors[id] = ActorState::Running;
    drop(st);
    if grant == Grant::Kill {
        std::panic::panic_any(KillSignal);
    }
}

#[derive(Clone, Debug)]
pub struct Step {
    pub n_options: usize,
    pub chosen: usize,
    pub what: String,
}

#[derive(Debug, Default)]
pub struct ScheduleResult {
    pub steps: Vec<Step>,
    pub violation: Option<(String, String)>,
    pub inconclusive: Option<String>,
    pub hash: u64,
    pub kills: u64,
    pub max_heads_seen: usize,
    pub reconciler_merged: bool,
    pub published: usize,
    pub switches: usize,
}

struct Scenario {
    test_repo: TestRepo,
    stale_op: OperationId,
    initial_heads: Vec<OperationId>,
}

fn make_loader(test_repo: &TestRepo) -> RepoLoader {
    let settings = testutils::user_settings();
    RepoLoader::init_from_file_system(
        &settings,
        test_repo.repo_path(),
        &test_repo.env.default_backend_factories(),
    )
    .unwrap()
}

fn new_op(repo: &Arc<jj_lib::repo::ReadonlyRepo>, publish: bool, tag: &str) -> Arc<jj_lib::repo::ReadonlyRepo> {
    let mut tx = repo.start_transaction();
    let root = tx.repo().store().root_commit();
    let tree = root.tree();
    tx.repo_mut()
        .new_commit(vec![root.id().clone()], tree)
        .set_description(format!("commit {tag}"))
        .write()
        .block_on()
        .unwrap();
    let unpublished = tx.write(format!("op {tag}")).block_on().unwrap();
    if publish {
        unpublished.publish().block_on().unwrap()
    } else {
        unpublished.leave_unpublished()
    }
}

fn heads_dir(repo_path: &Path) -> PathBuf {
    repo_path.join("op_heads").join("heads")
}

fn list_heads(repo_path: &Path) -> Vec<String> {
    let mut out = vec![];
    if let Ok(rd) = std::fs::read_dir(heads_dir(repo_path)) {
        for e in rd.flatten() {
            let name = e.file_name().to_string_lossy().into_owned();
            if name.len() >= 16 && name.chars().all(|c| c.is_ascii_hexdigit()) {
                out.push(name);
            }
        }
    }
    out.sort();
    out
}

fn setup(config: &Config) -> Scenario {
    let test_repo = TestRepo::init_with_backend(TestRepoBackend::Simple);
    let repo0 = test_repo.repo.clone();
    let op_a = new_op(&repo0, true, "a");
    let stale_op = op_a.op_id().clone();
    let op_b = new_op(&op_a, true, "b");
    let dir = heads_dir(test_repo.repo_path());
    match config.init {
        InitState::Single => {}
        InitState::TwoDivergent | InitState::ThreeDivergent => {
            let n = if config.init == InitState::TwoDivergent { 1 } else { 2 };
            for k in 0..n {
                let side = new_op(&op_a, false, &format!("side{k}"));
                std::fs::write(dir.join(side.op_id().hex()), "").unwrap();
            }
        }
        InitState::HeadWithAncestor => {
            std::fs::write(dir.join(op_a.op_id().hex()), "").unwrap();
        }
    }
    let _ = op_b;
    let initial_heads = list_heads(test_repo.repo_path())
        .iter()
        .map(|h| OperationId::try_from_hex(h).unwrap())
        .collect();
    Scenario { test_repo, stale_op, initial_heads }
}

fn actor_body(kind: ActorKind, idx: usize, scenario: &Scenario) -> Result<String, String> {
    verif_hooks::point("actor.start", &idx);
    let loader = make_loader(&scenario.test_repo);
    match kind {
        ActorKind::Read => {
            let heads = loader
                .op_heads_store()
                .get_op_heads()
                .block_on()
                .map_err(|e| format!("get_op_heads failed: {e}"))?;
            if heads.is_empty() {
                return Err("get_op_heads returned no head".into());
            }
            Ok(format!("read {} heads", heads.len()))
        }
        ActorKind::Reconcile => {
            let repo = loader.load_at_head().block_on().map_err(|e| format!("load_at_head failed: {e}"))?;
            Ok(format!("loaded {}", &repo.op_id().hex()[..8]))
        }
        ActorKind::PublishAtHead | ActorKind::PublishStale => {
            let repo = if kind == ActorKind::PublishAtHead {
                loader.load_at_head().block_on().map_err(|e| format!("load_at_head failed: {e}"))?
            } else {
                let op = loader
                    .load_operation(&scenario.stale_op)
                    .block_on()
                    .map_err(|e| format!("load_operation failed: {e}"))?;
                loader.load_at(&op).block_on().map_err(|e| format!("load_at failed: {e}"))?
            };
            let mut tx = repo.start_transaction();
            let root = tx.repo().store().root_commit();
            let tree = root.tree();
            tx.repo_mut()
                .new_commit(vec![root.id().clone()], tree)
                .set_description(format!("actor {idx}"))
                .write()
                .block_on()
                .map_err(|e| format!("write commit failed: {e}"))?;
            let unpublished = tx
                .write(format!("actor {idx}"))
                .block_on()
                .map_err(|e| format!("tx write failed: {e}"))?;
            let id = unpublished.operation().id().clone();
            unpublished.publish().block_on().map_err(|e| format!("publish failed: {e}"))?;
            Ok(format!("published {}", &id.hex()[..8]))
        }
    }
}

struct OpGraph {
    loader: RepoLoader,
    parents: HashMap<String, Vec<String>>,
}

impl OpGraph {
    fn parents_of(&mut self, id: &str) -> Result<Vec<String>, String> {
        if let Some(p) = self.parents.get(id) {
            return Ok(p.clone());
        }
        let op = self
            .loader
            .load_operation(&OperationId::try_from_hex(id).unwrap())
            .block_on()
            .map_err(|e| format!("operation {id} is not readable: {e}"))?;
        let p: Vec<String> = op.parent_ids().iter().map(|p| p.hex()).collect();
        self.parents.insert(id.to_owned(), p.clone());
        Ok(p)
    }

    fn ancestors(&mut self, heads: &[String]) -> Result<HashSet<String>, String> {
        let mut seen = HashSet::new();
        let mut stack: Vec<String> = heads.to_vec();
        while let Some(id) = stack.pop() {
            if seen.insert(id.clone()) {
                stack.extend(self.parents_of(&id)?);
            }
        }
        Ok(seen)
    }
}

/// Runs one schedule. `choose(step, n_options)` picks among
/// [run(enabled actor 0), run(enabled actor 1), …, kill(actor…)…].
pub fn run_schedule(
    config: &Config,
    allow_kill: bool,
    mut choose: impl FnMut(usize, usize, usize) -> usize,
) -> ScheduleResult {
    let scenario = Arc::new(setup(config));
    let repo_path = scenario.test_repo.repo_path().to_owned();
    let n = config.actors.len();
    let shared = Arc::new(Shared {
        state: Mutex::new(CtlState {
            actors: vec![ActorState::Running; n],
            grants: vec![None; n],
            trace: vec![],
            locks: HashMap::new(),
        }),
        cv: Condvar::new(),
    });
    verif_hooks::set_locks_disabled(config.no_lock);
    verif_hooks::set_handler(Some(Arc::new(hook_handler)));
    let mut handles = vec![];
    for (idx, kind) in config.actors.iter().copied().enumerate() {
        let shared = shared.clone();
        let scenario = scenario.clone();
        handles.push(std::thread::spawn(move || {
            ACTOR.with(|a| *a.borrow_mut() = Some((idx, shared.clone())));
            let outcome = match catch(|| actor_body(kind, idx, &scenario)) {
                Caught::Ok(Ok(s)) => format!("ok: {s}"),
                Caught::Ok(Err(e)) => format!("error: {e}"),
                Caught::SubjectPanic { location, message } => {
                    if message == "<kill>" {
                        "killed".to_owned()
                    } else {
                        format!("panic: {location}: {message}")
                    }
                }
                Caught::HarnessPanic { location, message } => {
                    if message == "<kill>" {
                        "killed".to_owned()
                    } else {
                        format!("harness-panic: {location}: {message}")
                    }
                }
            };
            ACTOR.with(|a| *a.borrow_mut() = None);
            let mut st = shared.state.lock().unwrap();
            st.actors[idx] = ActorState::Finished { outcome };
            st.locks.retain(|_, holder| *holder != idx);
            shared.cv.notify_all();
        }));
    }

    let mut result = ScheduleResult::default();
    let mut graph = OpGraph { loader: make_loader(&scenario.test_repo), parents: HashMap::new() };
    let mut published: BTreeSet<String> = scenario.initial_heads.iter().map(|h| h.hex()).collect();
    let mut trace_pos = 0;
    let mut kills_used = 0;
    let mut shape: Vec<String> = vec![];
    let deadline = Instant::now() + Duration::from_secs(60);
    let mut step_no = 0;
    'outer: loop {
        // Wait for quiescence: nobody running.
        let mut st = shared.state.lock().unwrap();
        loop {
            if st.actors.iter().all(|a| *a != ActorState::Running) {
                break;
            }
            let (guard, timeout) = shared.cv.wait_timeout(st, Duration::from_millis(200)).unwrap();
            st = guard;
            if timeout.timed_out() && Instant::now() > deadline {
                result.inconclusive = Some(format!("schedule watchdog: actors {:?}", st.actors));
                // Let everything go so threads can finish.
                for g in st.grants.iter_mut() {
                    *g = Some(Grant::Continue);
                }
                shared.cv.notify_all();
                break 'outer;
            }
        }
        // Monitor: new publications and the real directory listing.
        for (_actor, label, detail) in &st.trace[trace_pos..] {
            if label == "opheads.add.after" {
                published.insert(detail.clone());
            }
            if label == "tx.op_written" {
                // a reconciler (or publisher that reconciled) wrote a merge operation
            }
        }
        trace_pos = st.trace.len();
        let actors_snapshot = st.actors.clone();
        let locks_snapshot = st.locks.clone();
        drop(st);
        let heads = list_heads(&repo_path);
        result.max_heads_seen = result.max_heads_seen.max(heads.len());
        if heads.is_empty() {
            result.violation = Some((
                "heads.never_empty".into(),
                format!("the op-heads directory is empty after step {step_no}"),
            ));
            break;
        }
        match graph.ancestors(&heads) {
            Ok(reachable) => {
                if let Some(lost) = published.iter().find(|p| !reachable.contains(*p)) {
                    result.violation = Some((
                        "published.reachable_from_heads".into(),
                        format!(
                            "published operation {} is not reachable from the heads {:?} after step {step_no}",
                            &lost[..12],
                            heads.iter().map(|h| &h[..12]).collect::<Vec<_>>()
                        ),
                    ));
                    break;
                }
            }
            Err(e) => {
                result.violation = Some(("heads.readable".into(), e));
                break;
            }
        }
        // Options.
        let mut options: Vec<(usize, Grant)> = vec![];
        for (i, a) in actors_snapshot.iter().enumerate() {
            if let ActorState::Parked { label, detail } = a {
                let blocked = label == "lock.before"
                    && !config.no_lock
                    && locks_snapshot.get(detail).is_some_and(|h| *h != i);
                if !blocked {
                    options.push((i, Grant::Continue));
                }
            }
        }
        if options.is_empty() {
            if actors_snapshot.iter().all(|a| matches!(a, ActorState::Finished { .. })) {
                break;
            }
            result.inconclusive = Some(format!("no enabled actor: {actors_snapshot:?} locks {locks_snapshot:?}"));
            let mut st = shared.state.lock().unwrap();
            for g in st.grants.iter_mut() {
                *g = Some(Grant::Continue);
            }
            shared.cv.notify_all();
            break;
        }
        let n_runs = options.len();
        if allow_kill && kills_used == 0 {
            let kill_options: Vec<(usize, Grant)> = options
                .iter()
                .filter(|(i, _)| {
                    // killing before the very first step is the same as not having the actor
                    !matches!(&actors_snapshot[*i], ActorState::Parked { label, .. } if label == "actor.start")
                })
                .map(|(i, _)| (*i, Grant::Kill))
                .collect();
            options.extend(kill_options);
        }
        let chosen = choose(step_no, n_runs, options.len() - n_runs).min(options.len() - 1);
        let (actor, grant) = options[chosen];
        let label = match &actors_snapshot[actor] {
            ActorState::Parked { label, .. } => label.clone(),
            _ => String::new(),
        };
        if grant == Grant::Kill {
            kills_used += 1;
            result.kills += 1;
        }
        shape.push(format!("{actor}:{}:{label}", if grant == Grant::Kill { "kill" } else { "run" }));
        result.steps.push(Step {
            n_options: options.len(),
            chosen,
            what: shape.last().unwrap().clone(),
        });
        step_no += 1;
        let mut st = shared.state.lock().unwrap();
        st.actors[actor] = ActorState::Running;
        st.grants[actor] = Some(grant);
        shared.cv.notify_all();
        drop(st);
    }
    // Release whatever is still parked (after a violation or a watchdog): the
    // remaining actors are killed so that their threads can be joined.
    let release_deadline = Instant::now() + Duration::from_secs(20);
    loop {
        let mut st = shared.state.lock().unwrap();
        if st.actors.iter().all(|a| matches!(a, ActorState::Finished { .. })) {
            break;
        }
        for i in 0..st.actors.len() {
            if !matches!(st.actors[i], ActorState::Finished { .. }) {
                st.grants[i] = Some(Grant::Kill);
            }
        }
        shared.cv.notify_all();
        let _unused = shared.cv.wait_timeout(st, Duration::from_millis(20)).unwrap();
        if Instant::now() > release_deadline {
            break;
        }
    }
    if Instant::now() <= release_deadline {
        for h in handles {
            h.join().ok();
        }
    } else if result.violation.is_none() && result.inconclusive.is_none() {
        result.inconclusive = Some("actors could not be released".into());
    }
    verif_hooks::set_handler(None);
    verif_hooks::set_locks_disabled(false);
    result.hash = stable_hash(&shape);
    result.switches = shape
        .windows(2)
        .filter(|w| w[0].split(':').next() != w[1].split(':').next())
        .count();
    result.published = published.len();

    let st = shared.state.lock().unwrap();
    result.reconciler_merged = st
        .trace
        .iter()
        .any(|(a, label, _)| label == "tx.op_written" && config.actors[*a] == ActorKind::Reconcile);
    let outcomes: Vec<String> = st
        .actors
        .iter()
        .map(|a| match a {
            ActorState::Finished { outcome } => outcome.clone(),
            other => format!("{other:?}"),
        })
        .collect();
    drop(st);
    if result.violation.is_some() || result.inconclusive.is_some() {
        return result;
    }
    for (i, o) in outcomes.iter().enumerate() {
        if o.starts_with("error:") || o.starts_with("panic:") {
            result.violation = Some((
                format!("actor.{:?}.failed", config.actors[i]),
                format!("actor {i} ({:?}) failed: {o}", config.actors[i]),
            ));
            return result;
        }
        if o.starts_with("harness-panic:") {
            result.inconclusive = Some(o.clone());
            return result;
        }
    }
    // Quiescence: one load must leave a single head that descends from every
    // published operation.
    let loader = make_loader(&scenario.test_repo);
    match loader.load_at_head().block_on() {
        Err(e) => {
            result.violation = Some(("quiescent.load_at_head".into(), format!("load_at_head failed after quiescence: {e}")));
        }
        Ok(repo) => {
            let heads = list_heads(&repo_path);
            if heads.len() != 1 {
                result.violation = Some((
                    "quiescent.single_head".into(),
                    format!("{} heads after load_at_head at quiescence: {:?}", heads.len(), heads),
                ));
            } else if heads[0] != repo.op_id().hex() {
                result.violation = Some((
                    "quiescent.head_is_loaded_op".into(),
                    format!("head {} but loaded {}", heads[0], repo.op_id().hex()),
                ));
            } else {
                match graph.ancestors(&heads) {
                    Ok(reachable) => {
                        if let Some(lost) = published.iter().find(|p| !reachable.contains(*p)) {
                            result.violation = Some((
                                "quiescent.head_descends_from_published".into(),
                                format!("published operation {} is not an ancestor of the final head", &lost[..12]),
                            ));
                        }
                    }
                    Err(e) => result.violation = Some(("quiescent.readable".into(), e)),
                }
            }
        }
    }
    result
}

// ---------------------------------------------------------------------------
// Jobs (one worker process each; the hook handler is process-global)

#[derive(Clone, Debug)]
enum Strategy {
    Dfs { max_schedules: u64, kills: bool },
    Random { schedules: u64, seed: u64, kill_percent: usize },
}

fn job_json(config: &Config, strategy: &Strategy) -> Value {
    match strategy {
        Strategy::Dfs { max_schedules, kills } => {
            json!({"config": config.to_json(), "strategy": "dfs", "max_schedules": max_schedules, "kills": kills})
        }
        Strategy::Random { schedules, seed, kill_percent } => {
            json!({"config": config.to_json(), "strategy": "random", "schedules": schedules,
                   "seed": seed.to_string(), "kill_percent": kill_percent})
        }
    }
}

fn run_job(job: &Value) -> Value {
    let config = Config::from_json(&job["config"]).expect("bad job config");
    let mut hashes: Vec<(u64, bool)> = vec![];
    let mut schedules = 0u64;
    let mut kills = 0u64;
    let mut max_depth = 0usize;
    let mut two_heads = 0u64;
    let mut reconciler_merged = 0u64;
    let mut violations: Vec<Value> = vec![];
    let mut inconclusive: Vec<String> = vec![];
    let mut exhausted = false;
    let config_json = config.to_json();
    #[allow(clippy::type_complexity)]
    let record = |r: &ScheduleResult,
                  allow_kill: bool,
                  violations: &mut Vec<Value>,
                  inconclusive: &mut Vec<String>,
                  schedules: &mut u64,
                  kills: &mut u64,
                  hashes: &mut Vec<(u64, bool)>,
                  max_depth: &mut usize,
                  two_heads: &mut u64,
                  reconciler_merged: &mut u64| {
        *schedules += 1;
        *kills += r.kills;
        hashes.push((r.hash, r.switches >= 2));
        *max_depth = (*max_depth).max(r.steps.len());
        if r.max_heads_seen >= 2 {
            *two_heads += 1;
        }
        if r.reconciler_merged {
            *reconciler_merged += 1;
        }
        if let Some((clause, message)) = &r.violation {
            if violations.len() < 3 {
                violations.push(json!({
                    "clause": clause, "message": message, "config": config_json.clone(), "allow_kill": allow_kill,
                    "choices": r.steps.iter().map(|s| s.chosen).collect::<Vec<_>>(),
                    "steps": r.steps.iter().map(|s| s.what.clone()).collect::<Vec<_>>(),
                }));
            }
        }
        if let Some(reason) = &r.inconclusive {
            if inconclusive.len() < 3 {
                inconclusive.push(reason.clone());
            }
        }
    };
    match job["strategy"].as_str().unwrap() {
        "dfs" => {
            let max = job["max_schedules"].as_u64().unwrap();
            let allow_kill = job["kills"].as_bool().unwrap();
            let mut prefix: Vec<usize> = vec![];
            loop {
                let r = run_schedule(&config, allow_kill, |step, _, _| prefix.get(step).copied().unwrap_or(0));
                record(&r, allow_kill, &mut violations, &mut inconclusive, &mut schedules, &mut kills, &mut hashes, &mut max_depth, &mut two_heads, &mut reconciler_merged);
                if !violations.is_empty() || !inconclusive.is_empty() {
                    break;
                }
                // backtrack
                let mut steps = r.steps;
                let mut next: Option<Vec<usize>> = None;
                while let Some(s) = steps.pop() {
                    if s.chosen + 1 < s.n_options {
                        let mut p: Vec<usize> = steps.iter().map(|s| s.chosen).collect();
                        p.push(s.chosen + 1);
                        next = Some(p);
                        break;
                    }
                }
                match next {
                    Some(p) => prefix = p,
                    None => {
                        exhausted = true;
                        break;
                    }
                }
                if schedules >= max {
                    break;
                }
            }
        }
        _ => {
            let n = job["schedules"].as_u64().unwrap();
            let seed: u64 = job["seed"].as_str().unwrap().parse().unwrap();
            let kill_percent = job["kill_percent"].as_u64().unwrap() as usize;
            for k in 0..n {
                let mut rng = Rng::new(case_seed(seed, "C14", k));
                let allow_kill = rng.chance(kill_percent, 100);
                let mut kill_at = if allow_kill { Some(rng.below(14)) } else { None };
                let r = run_schedule(&config, allow_kill, |step, n_runs, n_kills| {
                    // options: runs first, then kills.
                    if n_kills > 0 && kill_at.is_some_and(|k| k <= step) {
                        kill_at = None;
                        return n_runs + rng.below(n_kills);
                    }
                    rng.below(n_runs)
                });
                record(&r, allow_kill, &mut violations, &mut inconclusive, &mut schedules, &mut kills, &mut hashes, &mut max_depth, &mut two_heads, &mut reconciler_merged);
                if !violations.is_empty() || !inconclusive.is_empty() {
                    break;
                }
            }
        }
    }
    json!({
        "schedules": schedules, "hashes": hashes.iter().map(|(h, nt)| format!("{h}:{}", u8::from(*nt))).collect::<Vec<_>>(),
        "kills": kills, "max_depth": max_depth, "two_heads": two_heads,
        "reconciler_merged": reconciler_merged, "exhausted": exhausted,
        "violations": violations, "inconclusive": inconclusive, "job": job,
    })
}

/// Runs a child process, killing it after `limit` (an `Err` then).
pub fn run_with_timeout(
    command: &mut std::process::Command,
    limit: Duration,
) -> std::io::Result<std::process::Output> {
    use std::io::Read as _;
    let mut child = command
        .stdout(std::process::Stdio::piped())
        .stderr(std::process::Stdio::piped())
        .spawn()?;
    let mut stdout = child.stdout.take().unwrap();
    let mut stderr = child.stderr.take().unwrap();
    let out_thread = std::thread::spawn(move || {
        let mut buf = vec![];
        stdout.read_to_end(&mut buf).ok();
        buf
    });
    let err_thread = std::thread::spawn(move || {
        let mut buf = vec![];
        stderr.read_to_end(&mut buf).ok();
        buf
    });
    let start = Instant::now();
    let status = loop {
        if let Some(status) = child.try_wait()? {
            break status;
        }
        if start.elapsed() > limit {
            child.kill().ok();
            child.wait().ok();
            return Err(std::io::Error::new(std::io::ErrorKind::TimedOut, "child timed out"));
        }
        std::thread::sleep(Duration::from_millis(20));
    };
    Ok(std::process::Output {
        status,
        stdout: out_thread.join().unwrap_or_default(),
        stderr: err_thread.join().unwrap_or_default(),
    })
}

fn configs() -> Vec<Config> {
    use ActorKind::*;
    use InitState::*;
    let mut out = vec![];
    for no_lock in [false, true] {
        for (init, actors) in [
            (Single, vec![PublishAtHead, PublishAtHead]),
            (Single, vec![PublishAtHead, PublishStale]),
            (Single, vec![PublishStale, PublishStale]),
            (TwoDivergent, vec![Reconcile, Reconcile]),
            (TwoDivergent, vec![Reconcile, PublishStale]),
            (TwoDivergent, vec![Reconcile, Read]),
            (HeadWithAncestor, vec![Reconcile, PublishAtHead]),
            (Single, vec![PublishStale, Read]),
        ] {
            out.push(Config { init, actors, no_lock });
        }
    }
    out
}

fn configs3() -> Vec<Config> {
    use ActorKind::*;
    use InitState::*;
    let mut out = vec![];
    for no_lock in [false, true] {
        for (init, actors) in [
            (Single, vec![PublishAtHead, PublishStale, Reconcile]),
            (TwoDivergent, vec![Reconcile, Reconcile, PublishStale]),
            (ThreeDivergent, vec![Reconcile, PublishAtHead, Read]),
            (HeadWithAncestor, vec![PublishStale, PublishStale, Reconcile]),
        ] {
            out.push(Config { init, actors, no_lock });
        }
    }
    out
}

pub fn run_c14(ctx: &Ctx) -> i32 {
    // Worker mode.
    if let Some(pos) = ctx.args.extra.iter().position(|a| a == "--job") {
        let job: Value = serde_json::from_str(&ctx.args.extra[pos + 1]).expect("job json");
        let out = run_job(&job);
        println!("JOBRESULT {}", serde_json::to_string(&out).unwrap());
        return 0;
    }
    ctx.set_rule(
        "actors = threads with their own RepoLoader on one repository directory (publisher at head, \
         publisher from a stale operation, reconciler = load_at_head, reader = get_op_heads); start \
         states: single head, 2 or 3 divergent heads, head + its ancestor; with working flock and \
         with locking disabled. The controller parks every actor at the hook points before each \
         op-head read / add / remove / lock acquisition and picks who runs next: exhaustive DFS \
         (2 actors, optionally with one kill at any parked point) and seeded random walks (3 actors, \
         kills). After every step the real heads/ directory is listed: non-empty, every operation \
         whose head-file add completed is an ancestor-or-equal of a listed head; at quiescence one \
         load_at_head must leave a single head descending from all of them. Non-trivial: a schedule \
         with at least two context switches between actors. Distinct: by the sequence of \
         (actor, action, hook label).",
    );
    if let Some(path) = &ctx.args.replay {
        // Re-run one schedule from a replay file.
        let Ok(text) = std::fs::read_to_string(path) else {
            ctx.inconclusive("replay file unreadable");
            return ctx.finish(0);
        };
        let doc: Value = serde_json::from_str(&text).unwrap_or(Value::Null);
        let w = &doc["witness"];
        let Some(config) = Config::from_json(&w["config"]) else {
            ctx.inconclusive("replay file has no config");
            return ctx.finish(0);
        };
        let choices: Vec<usize> = w["choices"]
            .as_array()
            .map(|a| a.iter().filter_map(|c| c.as_u64()).map(|c| c as usize).collect())
            .unwrap_or_default();
        let allow_kill = w["allow_kill"].as_bool().unwrap_or(false);
        let r = run_schedule(&config, allow_kill, |step, _, _| choices.get(step).copied().unwrap_or(0));
        ctx.case(r.hash, true);
        ctx.case(r.hash ^ 1, true);
        if let Some((clause, message)) = r.violation {
            ctx.violation(&clause, &message, w.clone());
        }
        return ctx.finish(0);
    }
    let tier = ctx.tier();
    let mut jobs: Vec<Value> = vec![];
    for config in configs() {
        jobs.push(job_json(&config, &Strategy::Dfs { max_schedules: tier.pick(250, 20_000), kills: false }));
        jobs.push(job_json(&config, &Strategy::Dfs { max_schedules: tier.pick(150, 20_000), kills: true }));
    }
    let shards = tier.pick(1, 8);
    for (k, config) in configs3().into_iter().enumerate() {
        for shard in 0..shards {
            jobs.push(job_json(
                &config,
                &Strategy::Random {
                    schedules: tier.pick(150, 2_000),
                    seed: ctx.seed().wrapping_mul(1000).wrapping_add((k * 100 + shard) as u64),
                    kill_percent: 30,
                },
            ));
        }
    }
    let exe = std::env::current_exe().unwrap();
    let next = std::sync::atomic::AtomicUsize::new(0);
    let results: Mutex<Vec<Value>> = Mutex::new(vec![]);
    std::thread::scope(|scope| {
        for _ in 0..threads().min(jobs.len()) {
            scope.spawn(|| {
                loop {
                    let i = next.fetch_add(1, std::sync::atomic::Ordering::SeqCst);
                    if i >= jobs.len() {
                        break;
                    }
                    let out = run_with_timeout(
                        std::process::Command::new(&exe)
                            .args(["C14", tier.as_str(), "--job", &serde_json::to_string(&jobs[i]).unwrap()])
                            .env("VERIF_SEED", (ctx.seed() as i64).to_string()),
                        Duration::from_secs(tier.pick(600, 3600)),
                    );
                    match out {
                        Ok(out) => {
                            let text = String::from_utf8_lossy(&out.stdout);
                            match text.lines().find_map(|l| l.strip_prefix("JOBRESULT ")) {
                                Some(line) => match serde_json::from_str::<Value>(line) {
                                    Ok(v) => results.lock().unwrap().push(v),
                                    Err(e) => ctx.inconclusive(&format!("worker output unparsable: {e}")),
                                },
                                None => ctx.inconclusive(&format!(
                                    "worker for job {} died (status {:?}): {}",
                                    i,
                                    out.status.code(),
                                    truncate(&String::from_utf8_lossy(&out.stderr), 400)
                                )),
                            }
                        }
                        Err(e) => ctx.inconclusive(&format!("cannot spawn worker: {e}")),
                    }
                }
            });
        }
    });
    let results = results.into_inner().unwrap();
    let mut per_config: BTreeMap<String, Value> = BTreeMap::new();
    let mut all_exhausted_dfs = true;
    for r in &results {
        let schedules = r["schedules"].as_u64().unwrap_or(0);
        ctx.count_n("schedules", schedules);
        ctx.count_n("kills_injected", r["kills"].as_u64().unwrap_or(0));
        ctx.count_n("schedules_with_two_or_more_heads_coexisting", r["two_heads"].as_u64().unwrap_or(0));
        ctx.count_n("schedules_where_a_reconciler_wrote_a_merge_op", r["reconciler_merged"].as_u64().unwrap_or(0));
        ctx.max("max_schedule_depth", r["max_depth"].as_u64().unwrap_or(0));
        let no_lock = r["job"]["config"]["no_lock"].as_bool().unwrap_or(false);
        ctx.count_n(if no_lock { "schedules_locking_disabled" } else { "schedules_with_working_lock" }, schedules);
        let is_dfs = r["job"]["strategy"] == "dfs";
        if is_dfs {
            if r["exhausted"].as_bool() == Some(true) {
                ctx.count("dfs_jobs_exhausted");
            } else {
                all_exhausted_dfs = false;
                ctx.count("dfs_jobs_capped");
            }
        }
        for h in r["hashes"].as_array().into_iter().flatten() {
            let (hs, nt) = h.as_str().unwrap_or("0:0").split_once(':').unwrap_or(("0", "0"));
            ctx.case(hs.parse().unwrap_or(0), nt == "1");
        }
        for v in r["violations"].as_array().into_iter().flatten() {
            ctx.violation(
                v["clause"].as_str().unwrap_or("?"),
                v["message"].as_str().unwrap_or("?"),
                v.clone(),
            );
        }
        for m in r["inconclusive"].as_array().into_iter().flatten() {
            ctx.inconclusive(m.as_str().unwrap_or("?"));
        }
        let key = format!("{}", r["job"]["config"]);
        per_config.insert(
            format!("{key} {}", r["job"]["strategy"]),
            json!({"schedules": schedules, "exhausted": r["exhausted"], "max_depth": r["max_depth"]}),
        );
        ctx.sample(|| json!({"config": r["job"]["config"], "strategy": r["job"]["strategy"], "schedules": schedules}));
    }
    ctx.set_extra("per_job", json!(per_config));
    ctx.set_exhaustive(all_exhausted_dfs && tier == Tier::Thorough);
    if results.len() < jobs.len() {
        ctx.inconclusive(&format!("{} of {} jobs returned", results.len(), jobs.len()));
    }
    ctx.finish(50)
}
