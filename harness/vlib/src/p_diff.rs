//! C03: content diffs partition their inputs deterministically.

use std::ops::Range;

use jj_core::diff::CompareBytes;
use jj_core::diff::CompareBytesExactly;
use jj_core::diff::CompareBytesIgnoreAllWhitespace;
use jj_core::diff::CompareBytesIgnoreWhitespaceAmount;
use jj_core::diff::ContentDiff;
use jj_core::diff::DiffHunkKind;
use jj_core::diff::find_line_ranges;
use jj_core::diff::find_nonword_ranges;
use jj_core::diff::find_word_ranges;
use serde_json::json;

use crate::common::*;
use crate::ensure;
use crate::r#gen::*;

#[derive(Clone, Copy, Debug, PartialEq, Eq)]
pub enum Tok {
    Line,
    Word,
    Nonword,
    Unrefined,
    ByWord,
    LineWordNonword,
    Random(u64),
}

#[derive(Clone, Copy, Debug, PartialEq, Eq)]
pub enum Cmp {
    Exact,
    IgnoreAll,
    IgnoreAmount,
}

/// Deterministic pseudo-random tokenizer: sorted, non-overlapping, non-empty
/// ranges that depend only on (seed, text).
fn random_tokenizer(seed: u64, text: &[u8]) -> Vec<Range<usize>> {
    let mut rng = Rng::new(seed ^ stable_hash(text));
    let mut out = vec![];
    let mut pos = 0;
    while pos < text.len() {
        let gap = rng.below(3);
        let len = rng.range(1, 4);
        let start = (pos + gap).min(text.len());
        let end = (start + len).min(text.len());
        if start < end {
            out.push(start..end);
        }
        pos = end.max(pos + 1);
    }
    out
}

fn norm_all(text: &[u8]) -> Vec<u8> {
    text.iter().copied().filter(|b| !b.is_ascii_whitespace()).collect()
}

fn norm_amount(text: &[u8]) -> Vec<u8> {
    let mut out = vec![];
    let mut prev_space = false;
    for &b in text {
        let is_space = b.is_ascii_whitespace();
        if !is_space {
            out.push(b);
        } else if !prev_space {
            out.push(b' ');
        }
        prev_space = is_space;
    }
    out
}

fn equal_under(cmp: Cmp, a: &[u8], b: &[u8]) -> bool {
    match cmp {
        Cmp::Exact => a == b,
        Cmp::IgnoreAll => norm_all(a) == norm_all(b),
        Cmp::IgnoreAmount => norm_amount(a) == norm_amount(b),
    }
}

fn build<'a>(inputs: &'a [Vec<u8>], tok: Tok, cmp: Cmp) -> ContentDiff<'a> {
    fn with_cmp<'a, C: CompareBytes + Clone>(
        inputs: &'a [Vec<u8>],
        tok: Tok,
        c: C,
    ) -> ContentDiff<'a> {
        let it = inputs.iter().map(|v| v.as_slice());
        match tok {
            Tok::Line => ContentDiff::for_tokenizer(it, find_line_ranges, c),
            Tok::Word => ContentDiff::for_tokenizer(it, find_word_ranges, c),
            Tok::Nonword => ContentDiff::for_tokenizer(it, find_nonword_ranges, c),
            Tok::Unrefined => ContentDiff::for_tokenizer(it, |_| vec![], c),
            Tok::ByWord => {
                let mut d = ContentDiff::for_tokenizer(it, find_word_ranges, c.clone());
                d.refine_changed_regions(find_nonword_ranges, c);
                d
            }
            Tok::LineWordNonword => {
                let mut d = ContentDiff::for_tokenizer(it, find_line_ranges, c.clone());
                d.refine_changed_regions(find_word_ranges, c.clone());
                d.refine_changed_regions(find_nonword_ranges, c);
                d
            }
            Tok::Random(seed) => {
                let mut d =
                    ContentDiff::for_tokenizer(it, move |t| random_tokenizer(seed, t), c.clone());
                if seed % 2 == 0 {
                    d.refine_changed_regions(move |t| random_tokenizer(seed ^ 0x55, t), c);
                }
                d
            }
        }
    }
    match cmp {
        Cmp::Exact => with_cmp(inputs, tok, CompareBytesExactly),
        Cmp::IgnoreAll => with_cmp(inputs, tok, CompareBytesIgnoreAllWhitespace),
        Cmp::IgnoreAmount => with_cmp(inputs, tok, CompareBytesIgnoreWhitespaceAmount),
    }
}

type HunkSig = Vec<(bool, Vec<Range<usize>>)>;

fn signature(d: &ContentDiff) -> HunkSig {
    d.hunk_ranges()
        .map(|h| (h.kind == DiffHunkKind::Matching, h.ranges.to_vec()))
        .collect()
}

pub struct DiffStats {
    pub hunks: usize,
    pub matching: usize,
}

pub fn check_diff(inputs: &[Vec<u8>], tok: Tok, cmp: Cmp, repeats: usize) -> Result<DiffStats, Fail> {
    let d = build(inputs, tok, cmp);
    let hunks: Vec<_> = d.hunks().collect();
    let ranges: Vec<_> = d.hunk_ranges().collect();
    ensure!(
        hunks.len() == ranges.len(),
        "hunks_vs_ranges.count",
        "{} hunks, {} ranges",
        hunks.len(),
        ranges.len()
    );
    let n = inputs.len();
    let mut pos = vec![0usize; n];
    let mut prev_kind: Option<DiffHunkKind> = None;
    let mut matching = 0;
    for (h, r) in hunks.iter().zip(&ranges) {
        ensure!(h.kind == r.kind, "hunks_vs_ranges.kind", "{:?} vs {:?}", h, r);
        ensure!(
            h.contents.len() == n && r.ranges.len() == n,
            "hunk.arity",
            "hunk has {} sides, {} inputs",
            h.contents.len(),
            n
        );
        for i in 0..n {
            ensure!(
                r.ranges[i].start == pos[i] && r.ranges[i].end >= r.ranges[i].start && r.ranges[i].end <= inputs[i].len(),
                "partition.contiguous",
                "input {}: range {:?} does not start at {} (len {})",
                i,
                r.ranges[i],
                pos[i],
                inputs[i].len()
            );
            ensure!(
                h.contents[i] == &inputs[i][r.ranges[i].clone()],
                "hunks_vs_ranges.content",
                "input {} range {:?}: slice {:?} != hunk content {:?}",
                i,
                r.ranges[i],
                show(&inputs[i][r.ranges[i].clone()]),
                h.contents[i]
            );
            pos[i] = r.ranges[i].end;
        }
        ensure!(
            h.contents.iter().any(|c| !c.is_empty()),
            "hunk.not_empty_on_every_side",
            "hunk {:?} is empty on every side",
            h
        );
        if let Some(prev) = prev_kind {
            ensure!(
                prev != h.kind,
                "hunk.kinds_alternate",
                "two {:?} hunks in a row",
                h.kind
            );
        }
        prev_kind = Some(h.kind);
        if h.kind == DiffHunkKind::Matching {
            matching += 1;
            for i in 1..n {
                ensure!(
                    equal_under(cmp, h.contents[0], h.contents[i]),
                    "matching.equal_under_comparison",
                    "matching hunk sides differ under {:?}: {:?} vs {:?}",
                    cmp,
                    h.contents[0],
                    h.contents[i]
                );
            }
        }
    }
    for i in 0..n {
        ensure!(
            pos[i] == inputs[i].len(),
            "partition.covers_input",
            "input {} of length {} covered only up to {}",
            i,
            inputs[i].len(),
            pos[i]
        );
    }
    // Determinism: every build gets a fresh RandomState.
    let sig = signature(&d);
    for k in 0..repeats {
        let d2 = build(inputs, tok, cmp);
        let sig2 = signature(&d2);
        ensure!(
            sig2 == sig,
            "deterministic.same_hunks_every_run",
            "run {} produced different hunks: {:?} vs {:?}",
            k + 2,
            sig2,
            sig
        );
    }
    Ok(DiffStats {
        hunks: hunks.len(),
        matching,
    })
}

fn gen_case(rng: &mut Rng, big: bool) -> (Vec<Vec<u8>>, Tok, Cmp) {
    let n_inputs = *rng.pick(&[1, 2, 2, 2, 3, 3, 4, 5]);
    let pool = line_pool(rng, rng.clone().range(2, 8), false);
    let mut inputs: Vec<Vec<u8>> = vec![];
    let style = rng.below(10);
    if big {
        // Many repetitions of few lines: exercises the max-occurrences give-up path.
        let reps = rng.range(90, 260);
        let base: Vec<Vec<u8>> = (0..reps).map(|_| rng.pick(&pool).clone()).collect();
        for _ in 0..n_inputs {
            let lines = edit_lines(rng, &base, &pool, 6);
            inputs.push(join_lines(rng, &lines, Eol::Lf, true));
        }
    } else if style < 6 {
        let base = gen_lines(rng, &pool, 10);
        let eol = *rng.pick(&[Eol::Lf, Eol::Lf, Eol::Crlf, Eol::Mixed]);
        for _ in 0..n_inputs {
            let lines = edit_lines(rng, &base, &pool, 4);
            let fin = !rng.chance(1, 5);
            inputs.push(join_lines(rng, &lines, eol, fin));
        }
    } else if style < 8 {
        for _ in 0..n_inputs {
            inputs.push(gen_content(rng, &pool, 8));
        }
    } else if style < 9 {
        let base = gen_binary(rng, 30);
        for _ in 0..n_inputs {
            let mut v = base.clone();
            for _ in 0..rng.below(4) {
                if v.is_empty() || rng.bool() {
                    let at = rng.below(v.len() + 1);
                    v.insert(at, *rng.pick(&[0u8, b'\n', b'\r', b'a', b' ']));
                } else {
                    let at = rng.below(v.len());
                    v.remove(at);
                }
            }
            inputs.push(v);
        }
    } else {
        // whitespace-only differences
        let base = gen_lines(rng, &pool, 6);
        let text = join_lines(rng, &base, Eol::Lf, true);
        for _ in 0..n_inputs {
            let mut v = vec![];
            for &b in &text {
                if b == b' ' && rng.chance(1, 3) {
                    v.extend_from_slice(*rng.pick(&[&b"  "[..], &b"\t"[..], &b""[..], &b" \t "[..]]));
                } else {
                    v.push(b);
                }
            }
            inputs.push(v);
        }
    }
    let tok = match rng.below(10) {
        0 | 1 => Tok::Line,
        2 => Tok::Word,
        3 => Tok::Nonword,
        4 => Tok::Unrefined,
        5 | 6 => Tok::ByWord,
        7 => Tok::LineWordNonword,
        _ => Tok::Random(rng.next_u64() % 1000),
    };
    let cmp = *rng.pick(&[Cmp::Exact, Cmp::Exact, Cmp::IgnoreAll, Cmp::IgnoreAmount]);
    (inputs, tok, cmp)
}

fn describe(inputs: &[Vec<u8>], tok: Tok, cmp: Cmp) -> serde_json::Value {
    json!({
        "inputs": inputs.iter().map(|i| show(i)).collect::<Vec<_>>(),
        "tokenizer": format!("{tok:?}"),
        "compare": format!("{cmp:?}"),
    })
}

/// Digest over the hunk signatures of the first `n` cases (used to compare
/// with a second process).
pub fn digest(seed: u64, n: u64) -> u64 {
    let mut acc = 0u64;
    for i in 0..n {
        let cs = case_seed(seed, "C03", i);
        let mut rng = Rng::new(cs);
        let (inputs, tok, cmp) = gen_case(&mut rng, false);
        let d = build(&inputs, tok, cmp);
        acc = acc.rotate_left(5) ^ stable_hash(&signature(&d));
    }
    acc
}

pub fn run_c03(ctx: &Ctx) -> i32 {
    if let Some(pos) = ctx.args.extra.iter().position(|a| a == "--digest") {
        let n: u64 = ctx.args.extra[pos + 1].parse().unwrap();
        println!("DIGEST {}", digest(ctx.seed(), n));
        return 0;
    }
    ctx.set_rule(
        "1..5 inputs: line edits of a common base drawn from a small line pool (LF/CRLF/mixed, \
         missing final newline), independent contents, binary, whitespace-only variants, and large \
         repetitive inputs (>100 occurrences per line); tokenizers line/word/nonword/none/by_word/\
         line+word+nonword/seeded-random ranges; comparators exact/ignore-all/ignore-amount. \
         Non-trivial: >=2 inputs and the diff has both a matching and a different hunk. Distinct: \
         by (inputs, tokenizer, comparator).",
    );
    let tier = ctx.tier();
    let n = tier.pick(450_000, 6_000_000);
    let big_every = 400;
    par_cases(ctx, n, threads(), |i, cs, rng| {
        let big = i % big_every == 7;
        let (inputs, tok, cmp) = gen_case(rng, big);
        let mut nontrivial = false;
        let inputs_ref = &inputs;
        run_case(ctx, i, cs, || describe(inputs_ref, tok, cmp), || {
            let stats = check_diff(inputs_ref, tok, cmp, if big { 1 } else { 3 })?;
            nontrivial = inputs_ref.len() >= 2 && stats.matching > 0 && stats.hunks > stats.matching;
            Ok(())
        });
        ctx.case(stable_hash(&(inputs_ref, format!("{tok:?}{cmp:?}"))), nontrivial);
        ctx.count(&format!("tokenizer_{}", match tok { Tok::Random(_) => "Random".to_owned(), t => format!("{t:?}") }));
        ctx.count(&format!("compare_{cmp:?}"));
        ctx.count(&format!("inputs_{}", inputs.len()));
        if big {
            ctx.count("large_repetitive_inputs");
        }
        if nontrivial {
            ctx.sample(|| describe(inputs_ref, tok, cmp));
        }
    });
    // Second-process determinism on a prefix of the same cases.
    if ctx.args.replay.is_none() {
        let k = tier.pick(9000, 50_000);
        let mine = digest(ctx.seed(), k);
        match std::process::Command::new(std::env::current_exe().unwrap())
            .args(["C03", "quick", "--digest", &k.to_string()])
            .env("VERIF_SEED", (ctx.seed() as i64).to_string())
            .output()
        {
            Ok(out) => {
                let text = String::from_utf8_lossy(&out.stdout);
                let theirs = text
                    .lines()
                    .find_map(|l| l.strip_prefix("DIGEST "))
                    .and_then(|s| s.trim().parse::<u64>().ok());
                match theirs {
                    Some(t) if t == mine => ctx.count_n("second_process_cases_identical", k),
                    Some(t) => ctx.violation(
                        "deterministic.second_process",
                        &format!("hunk digest over {k} cases differs between processes: {mine} vs {t}"),
                        json!({"cases": k, "this_process": mine, "other_process": t}),
                    ),
                    None => ctx.inconclusive("second process produced no digest"),
                }
            }
            Err(e) => ctx.inconclusive(&format!("cannot spawn second process: {e}")),
        }
    }
    ctx.finish(1000)
}
